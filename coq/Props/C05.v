(* C05 -- inline expansion substitutes members in place and never disturbs the template.
   Only statements; each closed by `exact` of a lemma proved in Cats/ExpandProofs.v.  The left-hand functions are the model of
   AstPostProcessor / the ast.py copy functions (Cats/Expand.v) instantiated with the strings and operators regenerated from
   /repo (Gen/ExpandOps.v); the right-hand specifications (spec_name, spec_type, prefix_copy, expand_member, Flat, flatten,
   acyclic, ... in part 0 / part 3 of Cats/ExpandProofs.v) are fixed text with literal strings. *)
From Symv Require Import Cats.AstRender Cats.Expand Cats.ExpandProofs Cats.ExpandInheritProofs.
From Coq Require Import Permutation.
Open Scope string_scope.

(* ---- prefix_copy_spec: name x for `__value__`, x_name otherwise; size / sizeref / sizeof / condition / sort-key references re-pointed;
        everything else kept; the comment comes from the `[key]` map of the named inline's documentation *)
Theorem prefix_copy_spec : forall x site_comment n t v d a c,
  copy_field x (match site_comment with Some k => build_comment_map k | None => [] end) (Field n t v d a c)
  = Ok (Field (spec_name x n) (spec_type x t) (spec_value x d v) d a (spec_comment site_comment n)).
Proof. exact copy_field_spec. Qed.
Print Assumptions prefix_copy_spec.

Theorem prefix_copy_keeps_rest : forall x site_comment n t v d a c,
  exists n' t' v' c', prefix_copy x site_comment (Field n t v d a c) = Field n' t' v' d a c'
  /\ match t, t' with
     | FInt i, FInt i' => it_unsigned i' = it_unsigned i /\ it_size i' = it_size i
     | FName s, FName s' => s' = s
     | FArray r, FArray r' =>
       a_elem r' = a_elem r /\ a_byte_constrained r' = a_byte_constrained r /\ a_alignment r' = a_alignment r
       /\ a_last_padded r' = a_last_padded r
       /\ (a_size r = SzFill -> a_size r' = SzFill) /\ (forall z, a_size r = SzNum z -> a_size r' = SzNum z)
     | _, _ => False
     end
  /\ match v, v' with
     | VCond k, VCond k' => c_value k' = c_value k /\ c_op k' = c_op k
     | VName s, VName s' => s' = match d with DispSizeof => spec_name x s | _ => s end
     | _, _ => v' = v
     end.
Proof. exact prefix_copy_keeps. Qed.
Print Assumptions prefix_copy_keeps_rest.

Theorem inline_template_spec : forall T x site_comment,
  (s_disp T = SdInline -> forallb is_field (s_fields T) = true ->
   apply_inline_template T x site_comment = Ok (map (prefix_copy x site_comment) (s_fields T)))
  /\ (s_disp T <> SdInline -> apply_inline_template T x site_comment = Reject).
Proof. exact (fun T x c => conj (apply_inline_template_spec T x c) (apply_inline_template_not_inline T x c)). Qed.
Print Assumptions inline_template_spec.

(* ---- expand_named_spec: for all schemas (unique names) whose named-inline targets exist, are other structs marked inline and
        contain only members: every struct's members are the concat_map of its declared members, a site `x = inline T` standing for
        map (prefix_copy x) (members T).  General form: the i-th declaration sees the declarations before it already expanded and
        the later ones as declared (the work list is processed in declaration order); when no template is itself a user this is
        the declared template everywhere. *)
Theorem expand_named_spec_general : forall s, named_wf s ->
  exists s', expand_named s = Ok s' /\ length s' = length s /\
  forall i d, nth_error s i = Some d -> nth_error s' i = Some (expand_decl (firstn i s' ++ skipn i s) d).
Proof. exact expand_named_nth. Qed.
Print Assumptions expand_named_spec_general.

Theorem expand_named_spec : forall s, named_wf s -> flat_templates s -> expand_named s = Ok (map (expand_decl s) s).
Proof. exact expand_named_flat. Qed.
Print Assumptions expand_named_spec.

(* ---- expand_unnamed_spec: for all schemas (unique names) that are acyclic (every unnamed-inline target is a declared struct and
        no struct transitively inlines itself) the pass succeeds within its fuel, every struct's layout is the recursive in-place
        splice (relation Flat = function flatten), placeholders are gone, everything else is kept *)
Theorem expand_unnamed_spec : forall s, NoDup (map decl_name s) -> acyclic s = true ->
  exists s', expand_unnamed s = Ok s' /\ length s' = length s /\
  forall i d, nth_error s i = Some d ->
    match d with
    | DStruct X0 =>
      exists X, nth_error s' i = Some (DStruct X)
        /\ s_name X = s_name X0 /\ s_disp X = s_disp X0 /\ s_comment X = s_comment X0
        /\ Flat s (s_fields X0) (s_fields X) /\ flatten (length s) s (s_fields X0) = Some (s_fields X)
        /\ forallb is_field (s_fields X) = true
    | _ => nth_error s' i = Some d
    end.
Proof. exact expand_unnamed_full. Qed.
Print Assumptions expand_unnamed_spec.

Theorem expand_unnamed_fuel_bound : forall s fuel, NoDup (map decl_name s) -> acyclic s = true -> (length s < fuel)%nat ->
  expand_unnamed_with fuel s = expand_unnamed s /\ expand_unnamed s <> Crash "fuel".
Proof. exact expand_unnamed_fuel. Qed.
Print Assumptions expand_unnamed_fuel_bound.

(* the splice relation is a function, and agrees with the depth-bounded recursive definition whatever sufficient bound is used *)
Theorem flatten_is_the_splice : forall s fs o,
  (forall f, flatten f s fs = Some o -> Flat s fs o)
  /\ (forall f, term f s fs = true -> Flat s fs o -> flatten f s fs = Some o)
  /\ (Flat s fs o -> forall o', Flat s fs o' -> o = o').
Proof. exact (fun s fs o => conj (fun f => flatten_sound f s fs o) (conj (fun f => Flat_flatten f s fs o) (Flat_fun s fs o))). Qed.
Print Assumptions flatten_is_the_splice.

(* inherited attributes and factory type, FULL statement: any declaration order, any nesting depth (the fuel S (length s) of
   expand_unnamed is enough: expand_unnamed_fuel_bound).  For every acyclic schema with unique names, after the pass
   - the attributes of a struct are a permutation of its own followed by `inherited`: the attributes of every struct inlined below
     it, one copy per occurrence in the inline tree (relation Inh = function inherited, depth-first order; the code's order depends
     on the processing order, hence Permutation);
   - its factory type is its own, or a candidate (Cand: the name of an abstract struct inlined below it, or a factory type declared by
     a struct inlined below it), and it HAS one whenever it had one or there is a candidate. *)
Theorem expand_unnamed_inherit : forall s, NoDup (map decl_name s) -> acyclic s = true ->
  exists s', expand_unnamed s = Ok s' /\
  forall i X0, nth_error s i = Some (DStruct X0) ->
    exists X, nth_error s' i = Some (DStruct X)
      /\ Inh s (s_fields X0) (inherited (length s) s (s_fields X0))
      /\ Permutation (attrs_list (s_attrs X)) (attrs_list (s_attrs X0) ++ inherited (length s) s (s_fields X0))%list
      /\ (forall f, s_factory_type X = Some f -> s_factory_type X0 = Some f \/ Cand s (s_fields X0) f)
      /\ (forall f0, s_factory_type X0 = Some f0 \/ Cand s (s_fields X0) f0 -> exists f, s_factory_type X = Some f).
Proof. exact ExpandInheritProofs.expand_unnamed_inherit. Qed.
Print Assumptions expand_unnamed_inherit.

(* the same for schemas as the parser produces them (no struct carries a factory type before the pass): the factory type stays None
   when no abstract struct is (transitively) inlined, and otherwise is the name of an abstract struct that is (which one, when an
   abstract struct inlines another abstract struct, depends on the declaration order -- see expand_unnamed_inherit_partial) *)
Theorem expand_unnamed_inherit_parsed : forall s, NoDup (map decl_name s) -> acyclic s = true -> no_declared_factory s ->
  exists s', expand_unnamed s = Ok s' /\
  forall i X0, nth_error s i = Some (DStruct X0) ->
    exists X, nth_error s' i = Some (DStruct X)
      /\ Permutation (attrs_list (s_attrs X)) (attrs_list (s_attrs X0) ++ inherited (length s) s (s_fields X0))%list
      /\ ((forall f, ~ inlines_abstract s (s_fields X0) f) -> s_factory_type X = None)
      /\ ((exists f, inlines_abstract s (s_fields X0) f) -> exists f, s_factory_type X = Some f /\ inlines_abstract s (s_fields X0) f).
Proof. exact ExpandInheritProofs.expand_unnamed_inherit_parsed. Qed.
Print Assumptions expand_unnamed_inherit_parsed.

(* the specification is a function: Inh is functional and agrees with `inherited` at any sufficient depth bound *)
Theorem inherited_is_the_tree : forall s fs o f, Inh s fs o -> term f s fs = true -> inherited f s fs = o.
Proof. exact (fun s fs o f H => Inh_inherited s fs o H f). Qed.
Print Assumptions inherited_is_the_tree.

(* inherited attributes and factory type, CLOSED FORM (exact order of the attributes, exact factory type) for schemas that declare
   every struct after the structs it inlines.  Named _partial because of that premise; the statement for every declaration order is
   expand_unnamed_inherit above.
   Proved for schemas that declare every struct after the structs it inlines
   (all shipped schemas; then one execution of the loop body finishes a struct): the i-th struct becomes
   splice_spec (the finished declarations before it): its attributes are its own followed by the non-empty attribute lists of its
   targets from left to right (each target's list already holding what that target inherited), its factory_type is given by the
   last unnamed inline that is abstract (its name) or has inherited a factory type (that one).
   Statement for other declaration orders = expand_unnamed_inherit (there the code's result depends on the processing order:
   breadth-first attribute order, and an abstract struct that inlines another abstract struct may record either):
     forall s, NoDup (map decl_name s) -> acyclic s = true -> exists s', expand_unnamed s = Ok s' /\
       forall i X0, nth_error s i = Some (DStruct X0) -> exists X, nth_error s' i = Some (DStruct X) /\
         Permutation (attrs_list (s_attrs X)) (attrs_list (s_attrs X0) ++ <attributes of every struct inlined, with multiplicity>) /\
         (<no abstract struct is inlined> -> s_factory_type X = s_factory_type X0) /\
         (<some abstract struct is inlined> -> exists f, s_factory_type X = Some f /\ <f is an abstract struct X0 transitively inlines>)
   (this form is what the Python oracle checks on every generated schema). *)
Theorem expand_unnamed_inherit_partial : forall s, NoDup (map decl_name s) -> targets_first s ->
  exists s', expand_unnamed s = Ok s' /\
  forall i d, nth_error s i = Some d -> nth_error s' i = Some (splice_spec (firstn i s') d).
Proof. exact expand_unnamed_ordered_nth. Qed.
Print Assumptions expand_unnamed_inherit_partial.

(* the attribute setters of apply_attributes on every form the grammar produces, incl. the error for a property the type lacks
   and the optional sizeref delta *)
Theorem apply_attributes_setters : forall a i n k p d z,
  apply_attr (FName n) {| at_name := k; at_values := [] |} = Reject
  /\ apply_attr (FArray a) {| at_name := "sort_key"; at_values := [AvStr k] |} = Ok (FArray (set_sort_key a (Some k)))
  /\ apply_attr (FArray a) {| at_name := "is_byte_constrained"; at_values := [] |} = Ok (FArray (set_byte_constrained a true))
  /\ apply_attr (FArray a) {| at_name := "alignment"; at_values := [AvNum z; AvNone; AvNone] |} = Ok (FArray (set_alignment a z true))
  /\ apply_attr (FArray a) {| at_name := "alignment"; at_values := [AvNum z; AvNone; AvStr "pad_last"] |} = Ok (FArray (set_alignment a z true))
  /\ apply_attr (FArray a) {| at_name := "alignment"; at_values := [AvNum z; AvStr "not"; AvStr "pad_last"] |} = Ok (FArray (set_alignment a z false))
  /\ apply_attr (FInt i) {| at_name := "sizeref"; at_values := [AvStr p; AvNum d] |} = Ok (FInt (set_sizeref i (Some (p, Some d))))
  /\ apply_attr (FInt i) {| at_name := "sizeref"; at_values := [AvStr p] |} = Ok (FInt (set_sizeref i (Some (p, Some 0%Z))))
  /\ apply_attr (FArray a) {| at_name := "sizeref"; at_values := [AvStr p; AvNum d] |} = Reject
  /\ apply_attr (FInt i) {| at_name := "sort_key"; at_values := [AvStr k] |} = Reject
  /\ apply_attr (FInt i) {| at_name := "alignment"; at_values := [AvNum z; AvNone; AvNone] |} = Reject
  /\ apply_attr (FInt i) {| at_name := "is_byte_constrained"; at_values := [] |} = Reject.
Proof. exact apply_attr_forms. Qed.
Print Assumptions apply_attributes_setters.

Theorem type_descriptors_omit_inline : forall s,
  type_descriptors s
  = filter (fun d => match d with DStruct st => match s_disp st with SdInline => false | _ => true end | _ => true end) s.
Proof. exact type_descriptors_spec. Qed.
Print Assumptions type_descriptors_omit_inline.

(* ---- expand_frame *)
(* a declaration that is not itself a user (in particular every template) is left untouched by the named pass, for ANY schema *)
Theorem expand_frame_template_unchanged : forall s s' i d,
  NoDup (map decl_name s) -> expand_named s = Ok s' ->
  nth_error s i = Some d -> is_struct_with has_named_inline d = false -> nth_error s' i = Some d.
Proof. exact named_template_unchanged. Qed.
Print Assumptions expand_frame_template_unchanged.

(* two schemas that agree on a struct and on the templates its sites name give the same expansion of that struct *)
Theorem expand_frame_named : forall s1 s2 d,
  named_wf s1 -> flat_templates s1 -> named_wf s2 -> flat_templates s2 ->
  (forall st m t, d = DStruct st -> In m (s_fields st) -> site_target m = Some t -> lookup s1 t = lookup s2 t) ->
  exists s1' s2', expand_named s1 = Ok s1' /\ expand_named s2 = Ok s2' /\
  forall i j, nth_error s1 i = Some d -> nth_error s2 j = Some d ->
    nth_error s1' i = nth_error s2' j /\ nth_error s1' i = Some (expand_decl s1 d).
Proof. exact named_site_frame. Qed.
Print Assumptions expand_frame_named.

(* ... and on everything it transitively inlines give the same layout after the unnamed pass *)
Theorem expand_frame_unnamed : forall s1 s2 X0,
  NoDup (map decl_name s1) -> acyclic s1 = true -> NoDup (map decl_name s2) -> acyclic s2 = true ->
  (forall t, Reach s1 (s_fields X0) t -> lookup s2 t = lookup s1 t) ->
  exists s1' s2', expand_unnamed s1 = Ok s1' /\ expand_unnamed s2 = Ok s2' /\
  forall i j, nth_error s1 i = Some (DStruct X0) -> nth_error s2 j = Some (DStruct X0) ->
    exists X1 X2, nth_error s1' i = Some (DStruct X1) /\ nth_error s2' j = Some (DStruct X2) /\ s_fields X1 = s_fields X2.
Proof. exact unnamed_site_frame. Qed.
Print Assumptions expand_frame_unnamed.

(* ---- non-vacuity: a concrete schema (as parsed by the repo parser: two sites of one template with a sort-keyed counted array,
        a fill array, a conditional, a sizeref integer and a sizeof member; an unnamed chain Leaf -> Upper -> Mid -> abstract Root) and the
        descriptors the repaired implementation produces for it *)
Definition example_schema : list decl :=
 [(DAlias "Amt" (LInt {| it_unsigned := true; it_size := (8)%Z; it_sizeref := None |}) None);
 (DEnum "Kind" {| it_unsigned := true; it_size := (1)%Z; it_sizeref := None |} [{| ev_name := "FOO"; ev_value := (1)%Z; ev_comment := None |}; {| ev_name := "BAR"; ev_value := (2)%Z; ev_comment := None |}] None None);
 (DStruct {| s_name := "Elem"; s_disp := SdNone; s_fields := [(Field "first_key" (FInt {| it_unsigned := true; it_size := (4)%Z; it_sizeref := None |}) VNone DispNone None None); (Field "other_key" (FName "Amt") VNone DispNone None None)]; s_factory_type := None; s_attrs := None; s_comment := None; s_requires_unaligned := false |});
 (DStruct {| s_name := "Tmpl"; s_disp := SdInline; s_fields := [(Field "count" (FInt {| it_unsigned := true; it_size := (1)%Z; it_sizeref := None |}) VNone DispNone None None); (Field "items" (FArray {| a_elem := (ElName "Elem"); a_size := (SzName "count"); a_sort_key := None; a_byte_constrained := false; a_alignment := None; a_last_padded := None |}) VNone DispNone (Some [{| at_name := "sort_key"; at_values := [(AvStr "first_key")] |}; {| at_name := "alignment"; at_values := [(AvNum (8)%Z); (AvStr "not"); (AvStr "pad_last")] |}]) None); (Field "kind" (FName "Kind") VNone DispNone None None); (Field "opt" (FName "Amt") (VCond {| c_value := (CvName "FOO"); c_op := "equals"; c_link := "kind" |}) DispNone None None); (Field "body_size" (FInt {| it_unsigned := true; it_size := (2)%Z; it_sizeref := None |}) VNone DispNone (Some [{| at_name := "sizeref"; at_values := [(AvStr "body"); (AvNum (2)%Z)] |}]) None); (Field "body" (FName "Elem") VNone DispNone None None); (Field "body_bytes" (FInt {| it_unsigned := true; it_size := (4)%Z; it_sizeref := None |}) (VName "body") DispSizeof None None); (Field "pad" (FInt {| it_unsigned := true; it_size := (4)%Z; it_sizeref := None |}) (VNum (0)%Z) DispReserved None None); (Field "__value__" (FName "Amt") VNone DispNone None None); (Field "tail" (FArray {| a_elem := (ElInt {| it_unsigned := true; it_size := (1)%Z; it_sizeref := None |}); a_size := SzFill; a_sort_key := None; a_byte_constrained := false; a_alignment := None; a_last_padded := None |}) VNone DispNone None None)]; s_factory_type := None; s_attrs := None; s_comment := (Some "template"); s_requires_unaligned := false |});
 (DStruct {| s_name := "User"; s_disp := SdNone; s_fields := [(Field "before" (FInt {| it_unsigned := true; it_size := (1)%Z; it_sizeref := None |}) VNone DispNone None None); (Field "first" (FName "Tmpl") VNone DispInline None (Some (bs [91; 99; 111; 117; 110; 116; 93; 32; 110; 117; 109; 98; 101; 114; 32; 111; 102; 32; 105; 116; 101; 109; 115; 10; 91; 95; 95; 118; 97; 108; 117; 101; 95; 95; 93; 32; 116; 104; 101; 32; 97; 109; 111; 117; 110; 116]%Z))); (Field "second" (FName "Tmpl") VNone DispInline None (Some "second site")); (Field "after" (FInt {| it_unsigned := true; it_size := (2)%Z; it_sizeref := None |}) VNone DispNone None None)]; s_factory_type := None; s_attrs := None; s_comment := None; s_requires_unaligned := false |});
 (DStruct {| s_name := "Root"; s_disp := SdAbstract; s_fields := [(Field "size" (FInt {| it_unsigned := true; it_size := (4)%Z; it_sizeref := None |}) VNone DispNone None None)]; s_factory_type := None; s_attrs := (Some [{| at_name := "size"; at_values := [(AvStr "size")] |}]); s_comment := None; s_requires_unaligned := false |});
 (DStruct {| s_name := "Mid"; s_disp := SdInline; s_fields := [(InlinePlaceholder "Root" None); (Field "mid_field" (FInt {| it_unsigned := true; it_size := (1)%Z; it_sizeref := None |}) VNone DispNone None None)]; s_factory_type := None; s_attrs := (Some [{| at_name := "is_aligned"; at_values := [] |}]); s_comment := None; s_requires_unaligned := false |});
 (DStruct {| s_name := "Upper"; s_disp := SdNone; s_fields := [(Field "upper_field" (FInt {| it_unsigned := true; it_size := (2)%Z; it_sizeref := None |}) VNone DispNone None None); (InlinePlaceholder "Mid" None)]; s_factory_type := None; s_attrs := None; s_comment := None; s_requires_unaligned := false |});
 (DStruct {| s_name := "Leaf"; s_disp := SdNone; s_fields := [(InlinePlaceholder "Upper" None); (Field "extra" (FName "Tmpl") VNone DispInline None None)]; s_factory_type := None; s_attrs := None; s_comment := None; s_requires_unaligned := false |})].

Definition example_expanded : list decl :=
 [(DAlias "Amt" (LInt {| it_unsigned := true; it_size := (8)%Z; it_sizeref := None |}) None);
 (DEnum "Kind" {| it_unsigned := true; it_size := (1)%Z; it_sizeref := None |} [{| ev_name := "FOO"; ev_value := (1)%Z; ev_comment := None |}; {| ev_name := "BAR"; ev_value := (2)%Z; ev_comment := None |}] None None);
 (DStruct {| s_name := "Elem"; s_disp := SdNone; s_fields := [(Field "first_key" (FInt {| it_unsigned := true; it_size := (4)%Z; it_sizeref := None |}) VNone DispNone None None); (Field "other_key" (FName "Amt") VNone DispNone None None)]; s_factory_type := None; s_attrs := None; s_comment := None; s_requires_unaligned := false |});
 (DStruct {| s_name := "Tmpl"; s_disp := SdInline; s_fields := [(Field "count" (FInt {| it_unsigned := true; it_size := (1)%Z; it_sizeref := None |}) VNone DispNone None None); (Field "items" (FArray {| a_elem := (ElName "Elem"); a_size := (SzName "count"); a_sort_key := (Some "first_key"); a_byte_constrained := false; a_alignment := (Some (8)%Z); a_last_padded := (Some false) |}) VNone DispNone (Some [{| at_name := "sort_key"; at_values := [(AvStr "first_key")] |}; {| at_name := "alignment"; at_values := [(AvNum (8)%Z); (AvStr "not"); (AvStr "pad_last")] |}]) None); (Field "kind" (FName "Kind") VNone DispNone None None); (Field "opt" (FName "Amt") (VCond {| c_value := (CvName "FOO"); c_op := "equals"; c_link := "kind" |}) DispNone None None); (Field "body_size" (FInt {| it_unsigned := true; it_size := (2)%Z; it_sizeref := (Some ("body", (Some (2)%Z))) |}) VNone DispNone (Some [{| at_name := "sizeref"; at_values := [(AvStr "body"); (AvNum (2)%Z)] |}]) None); (Field "body" (FName "Elem") VNone DispNone None None); (Field "body_bytes" (FInt {| it_unsigned := true; it_size := (4)%Z; it_sizeref := None |}) (VName "body") DispSizeof None None); (Field "pad" (FInt {| it_unsigned := true; it_size := (4)%Z; it_sizeref := None |}) (VNum (0)%Z) DispReserved None None); (Field "__value__" (FName "Amt") VNone DispNone None None); (Field "tail" (FArray {| a_elem := (ElInt {| it_unsigned := true; it_size := (1)%Z; it_sizeref := None |}); a_size := SzFill; a_sort_key := None; a_byte_constrained := false; a_alignment := None; a_last_padded := None |}) VNone DispNone None None)]; s_factory_type := None; s_attrs := None; s_comment := (Some "template"); s_requires_unaligned := false |});
 (DStruct {| s_name := "User"; s_disp := SdNone; s_fields := [(Field "before" (FInt {| it_unsigned := true; it_size := (1)%Z; it_sizeref := None |}) VNone DispNone None None); (Field "first_count" (FInt {| it_unsigned := true; it_size := (1)%Z; it_sizeref := None |}) VNone DispNone None (Some "number of items")); (Field "first_items" (FArray {| a_elem := (ElName "Elem"); a_size := (SzName "first_count"); a_sort_key := (Some "first_first_key"); a_byte_constrained := false; a_alignment := (Some (8)%Z); a_last_padded := (Some false) |}) VNone DispNone (Some [{| at_name := "sort_key"; at_values := [(AvStr "first_key")] |}; {| at_name := "alignment"; at_values := [(AvNum (8)%Z); (AvStr "not"); (AvStr "pad_last")] |}]) None); (Field "first_kind" (FName "Kind") VNone DispNone None None); (Field "first_opt" (FName "Amt") (VCond {| c_value := (CvName "FOO"); c_op := "equals"; c_link := "first_kind" |}) DispNone None None); (Field "first_body_size" (FInt {| it_unsigned := true; it_size := (2)%Z; it_sizeref := (Some ("first_body", (Some (2)%Z))) |}) VNone DispNone (Some [{| at_name := "sizeref"; at_values := [(AvStr "body"); (AvNum (2)%Z)] |}]) None); (Field "first_body" (FName "Elem") VNone DispNone None None); (Field "first_body_bytes" (FInt {| it_unsigned := true; it_size := (4)%Z; it_sizeref := None |}) (VName "first_body") DispSizeof None None); (Field "first_pad" (FInt {| it_unsigned := true; it_size := (4)%Z; it_sizeref := None |}) (VNum (0)%Z) DispReserved None None); (Field "first" (FName "Amt") VNone DispNone None (Some "the amount")); (Field "first_tail" (FArray {| a_elem := (ElInt {| it_unsigned := true; it_size := (1)%Z; it_sizeref := None |}); a_size := SzFill; a_sort_key := None; a_byte_constrained := false; a_alignment := None; a_last_padded := None |}) VNone DispNone None None); (Field "second_count" (FInt {| it_unsigned := true; it_size := (1)%Z; it_sizeref := None |}) VNone DispNone None None); (Field "second_items" (FArray {| a_elem := (ElName "Elem"); a_size := (SzName "second_count"); a_sort_key := (Some "second_first_key"); a_byte_constrained := false; a_alignment := (Some (8)%Z); a_last_padded := (Some false) |}) VNone DispNone (Some [{| at_name := "sort_key"; at_values := [(AvStr "first_key")] |}; {| at_name := "alignment"; at_values := [(AvNum (8)%Z); (AvStr "not"); (AvStr "pad_last")] |}]) None); (Field "second_kind" (FName "Kind") VNone DispNone None None); (Field "second_opt" (FName "Amt") (VCond {| c_value := (CvName "FOO"); c_op := "equals"; c_link := "second_kind" |}) DispNone None None); (Field "second_body_size" (FInt {| it_unsigned := true; it_size := (2)%Z; it_sizeref := (Some ("second_body", (Some (2)%Z))) |}) VNone DispNone (Some [{| at_name := "sizeref"; at_values := [(AvStr "body"); (AvNum (2)%Z)] |}]) None); (Field "second_body" (FName "Elem") VNone DispNone None None); (Field "second_body_bytes" (FInt {| it_unsigned := true; it_size := (4)%Z; it_sizeref := None |}) (VName "second_body") DispSizeof None None); (Field "second_pad" (FInt {| it_unsigned := true; it_size := (4)%Z; it_sizeref := None |}) (VNum (0)%Z) DispReserved None None); (Field "second" (FName "Amt") VNone DispNone None None); (Field "second_tail" (FArray {| a_elem := (ElInt {| it_unsigned := true; it_size := (1)%Z; it_sizeref := None |}); a_size := SzFill; a_sort_key := None; a_byte_constrained := false; a_alignment := None; a_last_padded := None |}) VNone DispNone None None); (Field "after" (FInt {| it_unsigned := true; it_size := (2)%Z; it_sizeref := None |}) VNone DispNone None None)]; s_factory_type := None; s_attrs := None; s_comment := None; s_requires_unaligned := false |});
 (DStruct {| s_name := "Root"; s_disp := SdAbstract; s_fields := [(Field "size" (FInt {| it_unsigned := true; it_size := (4)%Z; it_sizeref := None |}) VNone DispNone None None)]; s_factory_type := None; s_attrs := (Some [{| at_name := "size"; at_values := [(AvStr "size")] |}]); s_comment := None; s_requires_unaligned := false |});
 (DStruct {| s_name := "Mid"; s_disp := SdInline; s_fields := [(Field "size" (FInt {| it_unsigned := true; it_size := (4)%Z; it_sizeref := None |}) VNone DispNone None None); (Field "mid_field" (FInt {| it_unsigned := true; it_size := (1)%Z; it_sizeref := None |}) VNone DispNone None None)]; s_factory_type := (Some "Root"); s_attrs := (Some [{| at_name := "is_aligned"; at_values := [] |}; {| at_name := "size"; at_values := [(AvStr "size")] |}]); s_comment := None; s_requires_unaligned := false |});
 (DStruct {| s_name := "Upper"; s_disp := SdNone; s_fields := [(Field "upper_field" (FInt {| it_unsigned := true; it_size := (2)%Z; it_sizeref := None |}) VNone DispNone None None); (Field "size" (FInt {| it_unsigned := true; it_size := (4)%Z; it_sizeref := None |}) VNone DispNone None None); (Field "mid_field" (FInt {| it_unsigned := true; it_size := (1)%Z; it_sizeref := None |}) VNone DispNone None None)]; s_factory_type := (Some "Root"); s_attrs := (Some [{| at_name := "is_aligned"; at_values := [] |}; {| at_name := "size"; at_values := [(AvStr "size")] |}]); s_comment := None; s_requires_unaligned := false |});
 (DStruct {| s_name := "Leaf"; s_disp := SdNone; s_fields := [(Field "upper_field" (FInt {| it_unsigned := true; it_size := (2)%Z; it_sizeref := None |}) VNone DispNone None None); (Field "size" (FInt {| it_unsigned := true; it_size := (4)%Z; it_sizeref := None |}) VNone DispNone None None); (Field "mid_field" (FInt {| it_unsigned := true; it_size := (1)%Z; it_sizeref := None |}) VNone DispNone None None); (Field "extra_count" (FInt {| it_unsigned := true; it_size := (1)%Z; it_sizeref := None |}) VNone DispNone None None); (Field "extra_items" (FArray {| a_elem := (ElName "Elem"); a_size := (SzName "extra_count"); a_sort_key := (Some "extra_first_key"); a_byte_constrained := false; a_alignment := (Some (8)%Z); a_last_padded := (Some false) |}) VNone DispNone (Some [{| at_name := "sort_key"; at_values := [(AvStr "first_key")] |}; {| at_name := "alignment"; at_values := [(AvNum (8)%Z); (AvStr "not"); (AvStr "pad_last")] |}]) None); (Field "extra_kind" (FName "Kind") VNone DispNone None None); (Field "extra_opt" (FName "Amt") (VCond {| c_value := (CvName "FOO"); c_op := "equals"; c_link := "extra_kind" |}) DispNone None None); (Field "extra_body_size" (FInt {| it_unsigned := true; it_size := (2)%Z; it_sizeref := (Some ("extra_body", (Some (2)%Z))) |}) VNone DispNone (Some [{| at_name := "sizeref"; at_values := [(AvStr "body"); (AvNum (2)%Z)] |}]) None); (Field "extra_body" (FName "Elem") VNone DispNone None None); (Field "extra_body_bytes" (FInt {| it_unsigned := true; it_size := (4)%Z; it_sizeref := None |}) (VName "extra_body") DispSizeof None None); (Field "extra_pad" (FInt {| it_unsigned := true; it_size := (4)%Z; it_sizeref := None |}) (VNum (0)%Z) DispReserved None None); (Field "extra" (FName "Amt") VNone DispNone None None); (Field "extra_tail" (FArray {| a_elem := (ElInt {| it_unsigned := true; it_size := (1)%Z; it_sizeref := None |}); a_size := SzFill; a_sort_key := None; a_byte_constrained := false; a_alignment := None; a_last_padded := None |}) VNone DispNone None None)]; s_factory_type := (Some "Root"); s_attrs := (Some [{| at_name := "is_aligned"; at_values := [] |}; {| at_name := "size"; at_values := [(AvStr "size")] |}]); s_comment := None; s_requires_unaligned := false |})].

Definition example_after_attributes : list decl :=
  match apply_attributes example_schema with Ok s => s | _ => [] end.
Definition example_after_named : list decl :=
  match expand_named example_after_attributes with Ok s => s | _ => [] end.

Example example_pipeline : post_process example_schema = Ok example_expanded.
Proof. vm_compute. reflexivity. Qed.

Example example_hypotheses :
  named_wf example_after_attributes /\ flat_templates example_after_attributes
  /\ NoDup (map decl_name example_after_named) /\ acyclic example_after_named = true.
Proof.
  split; [apply named_wf_b_sound; vm_compute; reflexivity|]. split; [apply flat_templates_b_sound; vm_compute; reflexivity|].
  split; [apply nodup_b_sound; vm_compute; reflexivity|vm_compute; reflexivity].
Qed.

Example example_declared_before_use : targets_first example_after_named.
Proof. apply targets_first_b_sound. vm_compute. reflexivity. Qed.

(* the template is the same before and after; the two sites differ only by their prefix; fill stays fill *)
Example example_sites :
  lookup example_expanded "Tmpl" = lookup example_after_attributes "Tmpl"
  /\ (exists U, lookup example_expanded "User" = Some (DStruct U) /\
       map field_name (s_fields U)
       = [Some "before"; Some "first_count"; Some "first_items"; Some "first_kind"; Some "first_opt"; Some "first_body_size";
          Some "first_body"; Some "first_body_bytes"; Some "first_pad"; Some "first"; Some "first_tail";
          Some "second_count"; Some "second_items"; Some "second_kind"; Some "second_opt"; Some "second_body_size";
          Some "second_body"; Some "second_body_bytes"; Some "second_pad"; Some "second"; Some "second_tail"; Some "after"]
       /\ nth_error (s_fields U) 2
          = Some (Field "first_items"
                    (FArray {| a_elem := ElName "Elem"; a_size := SzName "first_count"; a_sort_key := Some "first_first_key";
                               a_byte_constrained := false; a_alignment := Some 8%Z; a_last_padded := Some false |})
                    VNone DispNone (Some [{| at_name := "sort_key"; at_values := [AvStr "first_key"] |};
                                          {| at_name := "alignment"; at_values := [AvNum 8%Z; AvStr "not"; AvStr "pad_last"] |}]) None)
       /\ nth_error (s_fields U) 12
          = Some (Field "second_items"
                    (FArray {| a_elem := ElName "Elem"; a_size := SzName "second_count"; a_sort_key := Some "second_first_key";
                               a_byte_constrained := false; a_alignment := Some 8%Z; a_last_padded := Some false |})
                    VNone DispNone (Some [{| at_name := "sort_key"; at_values := [AvStr "first_key"] |};
                                          {| at_name := "alignment"; at_values := [AvNum 8%Z; AvStr "not"; AvStr "pad_last"] |}]) None)
       /\ nth_error (s_fields U) 10
          = Some (Field "first_tail"
                    (FArray {| a_elem := ElInt {| it_unsigned := true; it_size := 1%Z; it_sizeref := None |}; a_size := SzFill;
                               a_sort_key := None; a_byte_constrained := false; a_alignment := None; a_last_padded := None |})
                    VNone DispNone None None)
       /\ nth_error (s_fields U) 1
          = Some (Field "first_count" (FInt {| it_unsigned := true; it_size := 1%Z; it_sizeref := None |}) VNone DispNone None
                    (Some "number of items"))
       /\ nth_error (s_fields U) 5
          = Some (Field "first_body_size" (FInt {| it_unsigned := true; it_size := 2%Z; it_sizeref := Some ("first_body", Some 2%Z) |})
                    VNone DispNone (Some [{| at_name := "sizeref"; at_values := [AvStr "body"; AvNum 2%Z] |}]) None)
       /\ nth_error (s_fields U) 7
          = Some (Field "first_body_bytes" (FInt {| it_unsigned := true; it_size := 4%Z; it_sizeref := None |}) (VName "first_body")
                    DispSizeof None None)
       /\ nth_error (s_fields U) 17
          = Some (Field "second_body_bytes" (FInt {| it_unsigned := true; it_size := 4%Z; it_sizeref := None |}) (VName "second_body")
                    DispSizeof None None)
       /\ nth_error (s_fields U) 4
          = Some (Field "first_opt" (FName "Amt") (VCond {| c_value := CvName "FOO"; c_op := "equals"; c_link := "first_kind" |})
                    DispNone None None)).
Proof.
  split; [vm_compute; reflexivity|]. eexists. split; [vm_compute; reflexivity|]. vm_compute. repeat split; reflexivity.
Qed.

(* the 3-deep chain: Leaf = Upper's own member, then Mid's (Root's member first), then its named site; abstract root recorded;
   attributes of Mid and Root appended; inline structs omitted from the output *)
Example example_chain :
  (exists L, lookup example_expanded "Leaf" = Some (DStruct L)
     /\ firstn 3 (map field_name (s_fields L)) = [Some "upper_field"; Some "size"; Some "mid_field"]
     /\ s_factory_type L = Some "Root"
     /\ s_attrs L = Some [{| at_name := "is_aligned"; at_values := [] |}; {| at_name := "size"; at_values := [AvStr "size"] |}])
  /\ map decl_name (type_descriptors example_expanded) = ["Amt"; "Kind"; "Elem"; "User"; "Root"; "Upper"; "Leaf"].
Proof. split; [eexists; split; [vm_compute; reflexivity|]|]; vm_compute; repeat split; reflexivity. Qed.

(* ---- non-vacuity of the remaining premises (inline_template_spec, flatten_is_the_splice, expand_frame_named, expand_frame_unnamed), on the example schema; the
        frame theorems are instantiated with a SECOND schema that differs from the first (one more declaration) ---- *)
Definition ex_extra : decl := DAlias "Extra" (LInt {| it_unsigned := true; it_size := (2)%Z; it_sizeref := None |}) None.
Definition ex_struct_named (s : list decl) (n : string) : struct :=
  match lookup s n with Some (DStruct st) => st | _ => {| s_name := ""; s_disp := SdNone; s_fields := []; s_factory_type := None; s_attrs := None; s_comment := None; s_requires_unaligned := false |} end.

Example premises_nonvacuous :
  (* inline_template_spec *)
  (let T := ex_struct_named example_after_attributes "Tmpl" in s_disp T = SdInline /\ forallb is_field (s_fields T) = true)
  (* flatten_is_the_splice: the depth bound is sufficient *)
  /\ term (length example_after_named) example_after_named (s_fields (ex_struct_named example_after_named "Leaf")) = true
  (* expand_frame_template_unchanged: the template Tmpl is not itself a user *)
  /\ (NoDup (map decl_name example_after_attributes) /\ expand_named example_after_attributes = Ok example_after_named
      /\ nth_error example_after_attributes 3 = Some (DStruct (ex_struct_named example_after_attributes "Tmpl"))
      /\ is_struct_with has_named_inline (DStruct (ex_struct_named example_after_attributes "Tmpl")) = false)
  (* expand_frame_named: a second schema (one more declaration) that agrees on the templates the sites of User name *)
  /\ (let s1 := example_after_attributes in let s2 := (example_after_attributes ++ [ex_extra])%list in
      named_wf s2 /\ flat_templates s2
      /\ forall st m t, DStruct (ex_struct_named s1 "User") = DStruct st -> In m (s_fields st) -> site_target m = Some t -> lookup s1 t = lookup s2 t)
  (* expand_frame_unnamed: the same for everything Mid transitively inlines *)
  /\ (let s1 := example_after_named in let s2 := (example_after_named ++ [ex_extra])%list in
      NoDup (map decl_name s2) /\ acyclic s2 = true
      /\ forall t, Reach s1 (s_fields (ex_struct_named s1 "Mid")) t -> lookup s2 t = lookup s1 t).
Proof.
  split; [vm_compute; split; reflexivity|]. split; [vm_compute; reflexivity|].
  split; [split; [apply nodup_b_sound; vm_compute; reflexivity|vm_compute; repeat split; reflexivity]|].
  split.
  - cbv zeta. split; [apply named_wf_b_sound; vm_compute; reflexivity|]. split; [apply flat_templates_b_sound; vm_compute; reflexivity|].
    intros st m t E Hin Ht. injection E as <-. vm_compute in Hin.
    repeat (destruct Hin as [<-|Hin]; [vm_compute in Ht; try discriminate Ht; injection Ht as <-; vm_compute; reflexivity|]). contradiction.
  - cbv zeta. split; [apply nodup_b_sound; vm_compute; reflexivity|]. split; [vm_compute; reflexivity|].
    intros t H. inversion H as [t' c fs Hin|t' c T fs u Hin Hl Hr]; subst.
    + vm_compute in Hin. destruct Hin as [E|[E|[]]]; inversion E; subst. vm_compute. reflexivity.
    + vm_compute in Hin. destruct Hin as [E|[E|[]]]; inversion E; subst. vm_compute in Hl. injection Hl as <-.
      inversion Hr as [t2 c2 fs2 Hin2|t2 c2 T2 fs2 u2 Hin2 Hl2 Hr2]; subst; cbn in Hin2; destruct Hin2 as [E2|[]]; discriminate E2.
Qed.
Print Assumptions premises_nonvacuous.

(* ---- non-vacuity of expand_unnamed_inherit / expand_unnamed_inherit_parsed: the example schema in REVERSED declaration order (Leaf
        first, its targets after it: not targets_first, the loop body runs three times for Leaf and the attributes arrive breadth-first);
        all premises hold, Leaf inlines the abstract Root three levels down, inherits the two attributes and records Root *)
Definition example_reversed : list decl := rev example_after_named.
Example inherit_nonvacuous :
  NoDup (map decl_name example_reversed) /\ acyclic example_reversed = true /\ no_declared_factory example_reversed
  /\ targets_first_b example_reversed = false
  /\ (let L0 := ex_struct_named example_reversed "Leaf" in
      nth_error example_reversed 0 = Some (DStruct L0)
      /\ inherited (length example_reversed) example_reversed (s_fields L0)
         = [{| at_name := "is_aligned"; at_values := [] |}; {| at_name := "size"; at_values := [AvStr "size"] |}]
      /\ inlines_abstract example_reversed (s_fields L0) "Root"
      /\ Cand example_reversed (s_fields L0) "Root"
      /\ match expand_unnamed example_reversed with
         | Ok s' => exists L, nth_error s' 0 = Some (DStruct L) /\ s_factory_type L = Some "Root"
                              /\ s_attrs L = Some [{| at_name := "is_aligned"; at_values := [] |}; {| at_name := "size"; at_values := [AvStr "size"] |}]
         | _ => False
         end)
  /\ (let E0 := ex_struct_named example_reversed "Elem" in
      (forall f, ~ inlines_abstract example_reversed (s_fields E0) f) /\ In (DStruct E0) example_reversed).
Proof.
  split; [apply nodup_b_sound; vm_compute; reflexivity|]. split; [vm_compute; reflexivity|].
  split.
  { intros st Hin. vm_compute in Hin. repeat (destruct Hin as [E|Hin]; [try discriminate E; injection E as <-; reflexivity|]). contradiction. }
  split; [vm_compute; reflexivity|]. split.
  - cbv zeta. split; [vm_compute; reflexivity|]. split; [vm_compute; reflexivity|].
    assert (HR : inlines_abstract example_reversed (s_fields (ex_struct_named example_reversed "Leaf")) "Root").
    { eexists. split; [|split; [vm_compute; reflexivity|reflexivity]].
      eapply Reach_deep; [vm_compute; left; reflexivity|vm_compute; reflexivity|].
      eapply Reach_deep; [vm_compute; right; left; reflexivity|vm_compute; reflexivity|].
      eapply Reach_here. vm_compute. left. reflexivity. }
    split; [exact HR|]. split; [apply inlines_abstract_Cand; exact HR|].
    vm_compute. eexists. split; [reflexivity|]. split; reflexivity.
  - cbv zeta. split; [|vm_compute; tauto].
    intros f (T & Hr & _). inversion Hr as [t c fs Hin|t c T' fs u Hin Hl Hr']; subst; vm_compute in Hin; intuition discriminate.
Qed.
Print Assumptions inherit_nonvacuous.
