(* C12 -- keyed arrays are canonical: sorting orders them and codecs refuse unordered data.
   Statements only. write_array_go / read_array_go are the model of ArrayHelpers.write_array_impl / read_array_impl instantiated
   with the comparison operators regenerated from the source (ops_now); key_lt is Python's < on sort keys (ints, bytes, tuples);
   key_lt_spec is the fixed-text order. The element codec and the key accessor are arbitrary (any schema, any comparer, any transform). *)
From Symv Require Import Base.Bytes Base.PyOps Cats.LayoutInst Cats.ArrayProofs Cats.Sort Cats.SortProofs Cats.LayoutInstProofs Cats.SortProofs2.
From Coq Require Import Permutation Sorted.
Open Scope Z_scope.

(* sorting puts the array in strictly ascending key order when the keys are pairwise distinct ... *)
Theorem sort_strict : forall (l : list (keyv * value)), shape_ok (map fst l) -> distinct_keys l ->
  StronglySorted (fun p q => key_lt_spec (fst p) (fst q) = true) (sort_pairs key_lt l).
Proof. exact (@sort_strict_now value). Qed.
Print Assumptions sort_strict.

(* ... only rearranges the entries ... *)
Theorem sort_perm : forall (l : list (keyv * value)), Permutation (sort_pairs key_lt l) l.
Proof. exact (@sort_perm_now value). Qed.
Print Assumptions sort_perm.

(* ... is idempotent ... *)
Theorem sort_idem : forall (l : list (keyv * value)), shape_ok (map fst l) ->
  sort_pairs key_lt (sort_pairs key_lt l) = sort_pairs key_lt l.
Proof. exact (@sort_idem_now value). Qed.
Print Assumptions sort_idem.

(* ... and independent of the initial order *)
Theorem sort_order_independent : forall (l l' : list (keyv * value)), shape_ok (map fst l) -> distinct_keys l -> Permutation l l' ->
  sort_pairs key_lt l = sort_pairs key_lt l'.
Proof. exact (@sort_order_independent_now value). Qed.
Print Assumptions sort_order_independent.

(* with two equal keys the stable sort keeps them adjacent in input order -- and such an array does not encode (below) *)
Theorem sort_keeps_equal_keys_in_input_order : forall (x y : keyv * value),
  key_lt (fst x) (fst y) = false -> key_lt (fst y) (fst x) = false -> sort_pairs key_lt [x; y] = [x; y].
Proof. exact (sort_stable_on_equal_keys value key_lt). Qed.
Print Assumptions sort_keeps_equal_keys_in_input_order.

(* the same for lists of ANY length (stability of sorted()): for every key k the entries with key k appear in the result exactly as they
   appear, and in the order in which they appear, in the input; key_eq is Python's == on sort keys *)
Theorem sort_stable : forall (l : list (keyv * value)) (k : keyv), shape_ok (map fst l) ->
  filter (fun p => key_eq (fst p) k) (sort_pairs key_lt l) = filter (fun p => key_eq (fst p) k) l.
Proof. exact (@sort_stable_now value). Qed.
Print Assumptions sort_stable.

(* without any premise on the keys: a class of entries none of which is < another one keeps its input order *)
Theorem sort_stable_on_unordered_class : forall (P : keyv * value -> bool) (l : list (keyv * value)),
  (forall p q, In p l -> In q l -> P p = true -> P q = true -> key_lt (fst p) (fst q) = false) ->
  filter P (sort_pairs key_lt l) = filter P l.
Proof. exact (@sort_stable_class_now value). Qed.
Print Assumptions sort_stable_on_unordered_class.

(* the standard three-part formulation: non-descending, a rearrangement, stable *)
Theorem sort_sorted_perm_stable : forall (l : list (keyv * value)), shape_ok (map fst l) ->
  Sorted (fun p q => key_lt_spec (fst q) (fst p) = false) (sort_pairs key_lt l)
  /\ Permutation (sort_pairs key_lt l) l
  /\ forall k, filter (fun p => key_eq (fst p) k) (sort_pairs key_lt l) = filter (fun p => key_eq (fst p) k) l.
Proof. exact (@sort_sorted_perm_stable_now value). Qed.
Print Assumptions sort_sorted_perm_stable.

(* relational reading: x before y in the input and equal keys => x before y in the result *)
Theorem sort_keeps_relative_order : forall (l l1 l2 l3 : list (keyv * value)) x y, shape_ok (map fst l) ->
  l = l1 ++ x :: l2 ++ y :: l3 -> fst x = fst y ->
  exists m1 m2 m3, sort_pairs key_lt l = m1 ++ x :: m2 ++ y :: m3.
Proof. exact (@sort_keeps_relative_order_now value). Qed.
Print Assumptions sort_keeps_relative_order.

(* a set of entries has at most one strictly ascending arrangement (the model-side statement of "at most one accepted encoding";
   strict ascent already makes the keys pairwise distinct) ... *)
Theorem strictly_sorted_permutation_unique : forall (l l' : list (keyv * value)),
  Sorted (fun p q => key_lt_spec (fst p) (fst q) = true) l -> Sorted (fun p q => key_lt_spec (fst p) (fst q) = true) l' ->
  Permutation l l' -> l = l'.
Proof. exact (@strict_sorted_perm_unique value). Qed.
Print Assumptions strictly_sorted_permutation_unique.

(* ... and it is the one that sort() produces *)
Theorem strictly_sorted_permutation_is_sort : forall (l l' : list (keyv * value)), shape_ok (map fst l) ->
  Sorted (fun p q => key_lt_spec (fst p) (fst q) = true) l' -> Permutation l' l -> l' = sort_pairs key_lt l.
Proof. exact (@strict_sorted_perm_is_sort value). Qed.
Print Assumptions strictly_sorted_permutation_is_sort.

(* ... so sort() leaves a canonical (strictly ascending) array exactly as it is, and never changes the number of entries *)
Theorem sort_leaves_canonical_alone : forall (l : list (keyv * value)), shape_ok (map fst l) ->
  Sorted (fun p q => key_lt_spec (fst p) (fst q) = true) l -> sort_pairs key_lt l = l.
Proof. exact (fun l Hs Hsorted => eq_sym (@strict_sorted_perm_is_sort value l l Hs Hsorted (Permutation_refl l))). Qed.
Print Assumptions sort_leaves_canonical_alone.

Theorem sort_keeps_length : forall (l : list (keyv * value)), length (sort_pairs key_lt l) = length l.
Proof. exact (fun l => Permutation_length (@sort_perm_now value l)). Qed.
Print Assumptions sort_keeps_length.

(* Python's comparisons on sort keys are the specified order: < is it, >= (the rejection test of both helpers) is its negation *)
Theorem comparer_order : forall a b, flat_key a = true -> same_shape a b = true ->
  key_cmp Lt a b = key_lt_spec a b /\ key_cmp Ge a b = negb (key_lt_spec a b).
Proof. exact (fun a b Hf Hs => conj (key_cmp_lt_spec a b Hf Hs) (key_cmp_ge_spec a b Hf Hs)). Qed.
Print Assumptions comparer_order.

Theorem key_order_is_strict_total : forall a b c,
  key_lt_spec a a = false /\ (key_lt_spec a b = true -> key_lt_spec b c = true -> key_lt_spec a c = true)
  /\ (same_shape a b = true -> key_lt_spec a b = true \/ a = b \/ key_lt_spec b a = true).
Proof. exact (fun a b c => conj (key_lt_spec_irrefl a) (conj (key_lt_spec_trans a b c) (key_trichotomy a b))). Qed.
Print Assumptions key_order_is_strict_total.

(* encoding succeeds only on strictly ascending keys *)
Theorem enc_requires_strict : forall tm R a l ks pw b,
  keys_of tm R a l ks -> shape_ok ks -> write_array_go ops_now tm R a pw l (length l) = Ok b ->
  Sorted (fun k1 k2 => key_lt_spec k1 k2 = true) ks.
Proof. exact write_keys_strict. Qed.
Print Assumptions enc_requires_strict.

Theorem enc_rejects_equal_keys : forall tm R a l1 e1 e2 l2 pw k,
  elem_key tm R a e1 = Ok (Some k) -> elem_key tm R a e2 = Ok (Some k) -> flat_key k = true -> same_shape k k = true ->
  forall b, write_array_go ops_now tm R a pw (l1 ++ e1 :: e2 :: l2) (length (l1 ++ e1 :: e2 :: l2)) <> Ok b.
Proof. exact equal_keys_rejected. Qed.
Print Assumptions enc_rejects_equal_keys.

(* decoding succeeds only on strictly ascending keys *)
Theorem dec_requires_strict : forall tm R a fuel rule i view l ks,
  read_array_go ops_now tm R a true fuel rule i None view = Ok l -> keys_of tm R a l ks -> shape_ok ks ->
  Sorted (fun k1 k2 => key_lt_spec k1 k2 = true) ks.
Proof. exact read_keys_strict. Qed.
Print Assumptions dec_requires_strict.

(* hence a set of keyed entries has at most one accepted encoding *)
Theorem canonical_encoding : forall tm R a l l' ks ks' pw pw' b b',
  keys_of tm R a l ks -> keys_of tm R a l' ks' -> shape_ok ks -> shape_ok ks' ->
  write_array_go ops_now tm R a pw l (length l) = Ok b -> write_array_go ops_now tm R a pw' l' (length l') = Ok b' ->
  Permutation (combine ks l) (combine ks' l') -> l = l'.
Proof. exact canonical_encoding_now. Qed.
Print Assumptions canonical_encoding.

(* what is written is read back (keyed or not), for any element codec that round-trips *)
Theorem keyed_array_roundtrip : forall tm R a (adm : value -> Prop),
  (forall e be rest, adm e -> elem_enc R a e = Ok be ->
     elem_dec tm R a (be ++ rest) = Ok e /\ elem_size R a e = Ok (Z.of_nat (length be)) /\ (0 < length be)%nat) ->
  forall l b rest fuel, Forall adm l -> (length l <= fuel)%nat ->
  write_array_go ops_now tm R a None l (length l) = Ok b ->
  read_array_go ops_now tm R a true fuel (StopCount (Z.of_nat (length l))) 0 None (b ++ rest) = Ok l.
Proof.
  exact (fun tm R a adm Hrt l b rest fuel Hadm Hfuel Hw =>
    write_read_count ops_now tm R a adm size_bad_now order_same_now Hrt l (length l) None None b rest 0 fuel Hadm eq_refl Hfuel (or_intror eq_refl) Hw).
Qed.
Print Assumptions keyed_array_roundtrip.

(* non-vacuity: the NEM comparer shape (bytes, int) and the Symbol shape (int) *)
Example key_examples :
  let k1 := KTuple [KBytes [1; 2]; KInt 1] in let k2 := KTuple [KBytes [1; 3]; KInt 0] in
  flat_key k1 = true /\ same_shape k1 k2 = true /\ key_lt_spec k1 k2 = true /\ key_cmp Ge k1 k2 = false /\ key_cmp Ge k2 k1 = true
  /\ key_cmp Ge k1 k1 = true /\ key_cmp Ge (KInt 5) (KInt 5) = true /\ key_cmp Ge (KInt 4) (KInt 5) = false
  /\ map snd (sort_pairs key_lt [(KInt 9, VInt 0); (KInt 2, VInt 1); (KInt 5, VInt 2)]) = [VInt 1; VInt 2; VInt 0].
Proof. vm_compute. repeat split. Qed.

(* non-vacuity on the SHIPPED Symbol schema: the keyed array `mosaics` of TransferTransactionV1 (sort key mosaic_id), the element codecs
   of the interpreter at nesting fuel 3, two mosaics with ids 1 < 2.  ALL premises of enc_requires_strict / dec_requires_strict /
   canonical_encoding (keys_of, shape_ok, a successful write and read), of sort_strict / sort_order_independent (shape_ok, distinct keys),
   of enc_rejects_equal_keys (two elements with one key) and of keyed_array_roundtrip hold together; the element round-trip premise of
   keyed_array_roundtrip is discharged, for the admissibility predicate `adm` of C01, by the C01 theorem itself (RT_dec).  The same
   elements in descending order do not encode. *)
From Coq Require Import String.
From Symv Require Import Cats.Layout Cats.StructProofs Cats.StructRoundTrip Cats.StructDecide Gen.SchemaSc.
Open Scope string_scope.
Open Scope list_scope.

Definition ex_R : rec_ops :=
  {| enc_t := enc ops_now sc_schema 3; size_t := size ops_now sc_schema 3; dec_t := dec ops_now sc_schema 3;
     decf_t := decf ops_now sc_schema 3; key_t := key ops_now sc_schema 3 |}.
Definition ex_array : array :=
  match lookup_struct sc_schema "TransferTransactionV1" with
  | Some s => match find_field (s_fields s) "mosaics" with
              | Some f => match f_type f with FArray a => a | _ => {| a_elem := ElName ""; a_size := SzFill; a_sort_key := None; a_byte_constrained := false; a_alignment := None; a_last_padded := None |} end
              | None => {| a_elem := ElName ""; a_size := SzFill; a_sort_key := None; a_byte_constrained := false; a_alignment := None; a_last_padded := None |}
              end
  | None => {| a_elem := ElName ""; a_size := SzFill; a_sort_key := None; a_byte_constrained := false; a_alignment := None; a_last_padded := None |}
  end.
Definition ex_mosaic (id amount : Z) : value := VStruct "UnresolvedMosaic" [("mosaic_id", VInt id); ("amount", VInt amount)].
Definition ex_mosaics : list value := [ex_mosaic 1 500; ex_mosaic 2 7].

Example keyed_array_premises_nonvacuous :
  a_sort_key ex_array = Some "mosaic_id"
  /\ keys_of sc_schema ex_R ex_array ex_mosaics [KInt 1; KInt 2]
  /\ shape_ok [KInt 1; KInt 2]
  /\ distinct_keys (combine [KInt 1; KInt 2] ex_mosaics)
  /\ match write_array_go ops_now sc_schema ex_R ex_array None ex_mosaics (length ex_mosaics) with
     | Ok b => read_array_go ops_now sc_schema ex_R ex_array true 2 (StopCount 2) 0 None b = Ok ex_mosaics
     | _ => False
     end
  /\ (forall b, write_array_go ops_now sc_schema ex_R ex_array None (rev ex_mosaics) (length (rev ex_mosaics)) <> Ok b)
  /\ (forall e be rest, adm sc_schema 1 "UnresolvedMosaic" e -> elem_enc ex_R ex_array e = Ok be ->
        elem_dec sc_schema ex_R ex_array (be ++ rest) = Ok e /\ elem_size ex_R ex_array e = Ok (Z.of_nat (length be)) /\ (0 < length be)%nat)
  /\ Forall (adm sc_schema 1 "UnresolvedMosaic") ex_mosaics
  /\ (elem_key sc_schema ex_R ex_array (ex_mosaic 1 5) = Ok (Some (KInt 1)) /\ elem_key sc_schema ex_R ex_array (ex_mosaic 1 6) = Ok (Some (KInt 1))
      /\ flat_key (KInt 1) = true /\ same_shape (KInt 1) (KInt 1) = true).
Proof.
  split; [vm_compute; reflexivity|].
  split; [repeat constructor; vm_compute; reflexivity|].
  split; [intros p q [<-|[<-|[]]] [<-|[<-|[]]]; split; reflexivity|].
  split; [vm_compute; repeat constructor; cbn [In]; intuition discriminate|].
  split; [vm_compute; reflexivity|].
  split; [intro b; vm_compute; discriminate|].
  split.
  - intros e be rest Ha He.
    change (elem_enc ex_R ex_array e) with (enc ops_now sc_schema 3 "UnresolvedMosaic" e) in He.
    change (elem_dec sc_schema ex_R ex_array (be ++ rest)) with (dec ops_now sc_schema 3 "UnresolvedMosaic" (be ++ rest)).
    change (elem_size ex_R ex_array e) with (size ops_now sc_schema 3 "UnresolvedMosaic" e).
    exact (RT_dec sc_schema 1 3 "UnresolvedMosaic" e be rest (le_n 3) Ha He).
  - split; [|vm_compute; repeat split; reflexivity].
    apply Forall_cons; [|apply Forall_cons; [|apply Forall_nil]]; apply admb_sound; vm_compute; reflexivity.
Qed.
Print Assumptions keyed_array_premises_nonvacuous.

(* non-vacuity of the stability and uniqueness statements: five mosaics of the shipped array, three of them with id 1 (amounts 5, 6, 7
   in input order) -- the premises shape_ok / the unordered class / the split with equal keys hold, the class of id 1 is non-empty and
   keeps its order 5, 6, 7; two different strictly ascending permutations of one list do not exist, one (of [2;1;3]) does *)
Definition ex_keyed (l : list (Z * Z)) : list (keyv * value) := map (fun p => (KInt (fst p), ex_mosaic (fst p) (snd p))) l.
Example sort_stable_nonvacuous :
  let l := ex_keyed [(3, 0); (1, 5); (2, 9); (1, 6); (0, 4); (1, 7)] in
  shape_ok (map fst l)
  /\ Forall2 (fun p k => elem_key sc_schema ex_R ex_array (snd p) = Ok (Some k)) l (map fst l)
  /\ (forall p q, In p l -> In q l -> key_eq (fst p) (KInt 1) = true -> key_eq (fst q) (KInt 1) = true -> key_lt (fst p) (fst q) = false)
  /\ filter (fun p => key_eq (fst p) (KInt 1)) l = ex_keyed [(1, 5); (1, 6); (1, 7)]
  /\ sort_pairs key_lt l = ex_keyed [(0, 4); (1, 5); (1, 6); (1, 7); (2, 9); (3, 0)]
  /\ (exists l1 l2 l3 x y, l = l1 ++ x :: l2 ++ y :: l3 /\ fst x = fst y /\ x <> y).
Proof.
  cbv zeta. split; [|split; [|split; [|split; [|split]]]].
  - assert (H : forall k, In k (map fst (ex_keyed [(3, 0); (1, 5); (2, 9); (1, 6); (0, 4); (1, 7)])) -> exists z, k = KInt z).
    { cbn. intros k Hk. repeat (destruct Hk as [<-|Hk]; [eexists; reflexivity|]). contradiction. }
    intros p q Hp Hq. destruct (H p Hp) as [zp ->]. destruct (H q Hq) as [zq ->]. split; reflexivity.
  - repeat constructor; vm_compute; reflexivity.
  - intros p q Hp Hq Pp Pq. cbn in Hp, Hq.
    repeat (destruct Hp as [<-|Hp]; [|]); try contradiction; try discriminate Pp;
    repeat (destruct Hq as [<-|Hq]; [|]); try contradiction; try discriminate Pq; reflexivity.
  - vm_compute. reflexivity.
  - vm_compute. reflexivity.
  - exists (ex_keyed [(3, 0)]), (ex_keyed [(2, 9)]), (ex_keyed [(0, 4); (1, 7)]), (KInt 1, ex_mosaic 1 5), (KInt 1, ex_mosaic 1 6).
    split; [reflexivity|]. split; [reflexivity|]. discriminate.
Qed.
Print Assumptions sort_stable_nonvacuous.

Example strictly_sorted_permutation_nonvacuous :
  let l := ex_keyed [(2, 9); (1, 5); (3, 0)] in let l' := ex_keyed [(1, 5); (2, 9); (3, 0)] in
  shape_ok (map fst l) /\ Sorted (fun p q => key_lt_spec (fst p) (fst q) = true) l' /\ Permutation l' l /\ l' = sort_pairs key_lt l.
Proof.
  cbv zeta. split; [|split; [|split]].
  - intros p q Hp Hq. cbn in Hp, Hq.
    repeat (destruct Hp as [<-|Hp]; [|]); try contradiction; repeat (destruct Hq as [<-|Hq]; [|]); try contradiction; split; reflexivity.
  - repeat constructor.
  - cbn. apply perm_swap.
  - vm_compute. reflexivity.
Qed.
Print Assumptions strictly_sorted_permutation_nonvacuous.
