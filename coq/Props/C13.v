(* C13 -- mosaic, namespace and metadata identifiers equal their hash definitions.
   Only statements; each closed by `exact` of a lemma proved in Sym/IdsProofs.v.  The left-hand functions are the model of
   IdGenerator.py / Metadata.py / symbol.Network.Address instantiated with the constants regenerated from /repo (Gen/IdsOps.v)
   and with the Gallina SHA3-256; the right-hand specifications are fixed text. *)
From Symv Require Import Base.Bytes Base.PyOps Sym.Keccak Sym.KeccakProofs Sym.Ids Sym.IdsProofs Sym.IdsProofs2.
Open Scope Z_scope.

Theorem mosaic_id_def : forall addr nonce,
  generate_mosaic_id sha3_256 addr nonce = from_le (firstn 8 (sha3_256 (to_le 4 nonce ++ addr))) mod 2 ^ 63.
Proof. exact (IdsProofs.mosaic_id_def sha3_256 sha3_256_wf). Qed.
Print Assumptions mosaic_id_def.

Theorem mosaic_id_lt_2_63 : forall addr nonce, 0 <= generate_mosaic_id sha3_256 addr nonce < 2 ^ 63.
Proof. exact (IdsProofs.mosaic_id_range sha3_256 sha3_256_wf). Qed.
Print Assumptions mosaic_id_lt_2_63.

Theorem namespace_id_def : forall name parent,
  generate_namespace_id sha3_256 name parent = from_le (firstn 8 (sha3_256 (to_le 8 parent ++ name))) mod 2 ^ 63 + 2 ^ 63.
Proof. exact (IdsProofs.namespace_id_def sha3_256 sha3_256_wf). Qed.
Print Assumptions namespace_id_def.

Theorem namespace_id_ge_2_63 : forall name parent, 2 ^ 63 <= generate_namespace_id sha3_256 name parent < 2 ^ 64.
Proof. exact (IdsProofs.namespace_id_range sha3_256 sha3_256_wf). Qed.
Print Assumptions namespace_id_ge_2_63.

(* a dotted path resolves level by level, each level's id being the next parent; any invalid part rejects the whole path *)
Theorem path_fold : forall fqn,
  generate_namespace_path sha3_256 fqn =
  if forallb valid_name_spec (split_on 46 fqn) then Some (path_spec sha3_256 0 (split_on 46 fqn)) else None.
Proof. exact (IdsProofs.namespace_path_def sha3_256 sha3_256_wf). Qed.
Print Assumptions path_fold.

Theorem path_split_is_str_split : forall s, join 46 (split_on 46 s) = s /\ Forall (fun p => ~ In 46 p) (split_on 46 s).
Proof. exact (fun s => conj (IdsProofs.join_split 46 s) (IdsProofs.split_no_sep 46 s)). Qed.
Print Assumptions path_split_is_str_split.

(* valid names are exactly [a-z0-9][a-z0-9_-]* (code points), hence ASCII, hence their utf8 encoding is the same sequence *)
Theorem path_rejects : forall n, is_valid_namespace_name n = valid_name_spec n.
Proof. exact IdsProofs.valid_name_def. Qed.
Print Assumptions path_rejects.

Theorem valid_names_are_ascii : forall n, is_valid_namespace_name n = true -> forallb (fun ch => (0 <=? ch) && (ch <? 128)) n = true.
Proof. exact IdsProofs.valid_name_ascii. Qed.
Print Assumptions valid_names_are_ascii.

Theorem metadata_key_def : forall seed,
  metadata_generate_key sha3_256 seed = from_le (firstn 8 (sha3_256 seed)) mod 2 ^ 63 + 2 ^ 63
  /\ 2 ^ 63 <= metadata_generate_key sha3_256 seed < 2 ^ 64.
Proof.
  exact (fun seed => conj (IdsProofs.metadata_key_def sha3_256 sha3_256_wf seed (sha3_256_len8 seed))
                          (IdsProofs.metadata_key_range sha3_256 sha3_256_wf seed (sha3_256_len8 seed))).
Qed.
Print Assumptions metadata_key_def.

Theorem xor_update_law : forall old_value new_value,
  apply_update old_value (metadata_update_value old_value new_value) (length new_value) = new_value.
Proof. exact IdsProofs.xor_update_law. Qed.
Print Assumptions xor_update_law.

Theorem alias_address_roundtrip : forall id net, 0 <= id < 2 ^ 64 -> Z.even net = true ->
  address_to_namespace_id (address_from_namespace_id id net) = Some id /\ length (address_from_namespace_id id net) = 24%nat.
Proof. exact (fun id net Hid Hnet => conj (IdsProofs.alias_address_roundtrip id net Hid Hnet) (IdsProofs.alias_address_length id net)). Qed.
Print Assumptions alias_address_roundtrip.

Theorem non_alias_address_has_no_id : forall addr, Z.land (nth 0 addr 0) 1 = 0 -> address_to_namespace_id addr = None.
Proof. exact IdsProofs.non_alias_address. Qed.
Print Assumptions non_alias_address_has_no_id.

(* level by level, as an equation: appending a level appends the id of that name under the last id so far (the root parent when
   there is none); and a path of parts ps ++ qs is the path of ps followed by the path of qs under the last id of ps *)
Theorem path_level_by_level : forall parent parts name,
  path_spec sha3_256 parent (parts ++ [name]) =
  path_spec sha3_256 parent parts ++ [namespace_id_spec sha3_256 name (last (path_spec sha3_256 parent parts) parent)].
Proof. exact (IdsProofs2.path_spec_snoc sha3_256). Qed.
Print Assumptions path_level_by_level.

Theorem path_composes : forall parent ps qs,
  path_spec sha3_256 parent (ps ++ qs) =
  path_spec sha3_256 parent ps ++ path_spec sha3_256 (last (path_spec sha3_256 parent ps) parent) qs.
Proof. exact (IdsProofs2.path_spec_app sha3_256). Qed.
Print Assumptions path_composes.

Theorem path_has_one_id_per_part : forall fqn p,
  generate_namespace_path sha3_256 fqn = Some p -> length p = length (split_on 46 fqn) /\ Forall (fun id => 2 ^ 63 <= id < 2 ^ 64) p.
Proof. exact (IdsProofs2.namespace_path_shape sha3_256 sha3_256_wf). Qed.
Print Assumptions path_has_one_id_per_part.

(* the alias id of a mosaic is the last id of its namespace path, defined exactly when the path is, and always a namespace id *)
Theorem mosaic_alias_id_is_last_level : forall fqn,
  generate_mosaic_alias_id sha3_256 fqn =
  if forallb valid_name_spec (split_on 46 fqn) then Some (last (path_spec sha3_256 0 (split_on 46 fqn)) 0) else None.
Proof. exact (IdsProofs2.mosaic_alias_id_def sha3_256 sha3_256_wf). Qed.
Print Assumptions mosaic_alias_id_is_last_level.

Theorem mosaic_alias_id_is_namespace_id : forall fqn id, generate_mosaic_alias_id sha3_256 fqn = Some id -> 2 ^ 63 <= id < 2 ^ 64.
Proof. exact (IdsProofs2.mosaic_alias_id_range sha3_256 sha3_256_wf). Qed.
Print Assumptions mosaic_alias_id_is_namespace_id.

(* the flag bit separates the two identifier spaces: no mosaic id is a namespace id *)
Theorem mosaic_and_namespace_ids_disjoint : forall addr nonce name parent,
  generate_mosaic_id sha3_256 addr nonce <> generate_namespace_id sha3_256 name parent.
Proof. exact (IdsProofs.mosaic_namespace_disjoint sha3_256 sha3_256_wf). Qed.
Print Assumptions mosaic_and_namespace_ids_disjoint.

(* the exact shape of the update payload: its length, every byte of the overlap, every byte beyond it; and the self-update *)
Theorem xor_update_length : forall old_value new_value,
  length (metadata_update_value old_value new_value) =
  match old_value with [] => length new_value | _ => Nat.max (length old_value) (length new_value) end.
Proof. exact IdsProofs2.update_value_length. Qed.
Print Assumptions xor_update_length.

Theorem xor_update_overlap : forall old_value new_value i,
  old_value <> [] -> (i < Nat.min (length old_value) (length new_value))%nat ->
  nth i (metadata_update_value old_value new_value) 0 = Z.lxor (nth i old_value 0) (nth i new_value 0).
Proof. exact IdsProofs2.update_value_overlap. Qed.
Print Assumptions xor_update_overlap.

Theorem xor_update_tail : forall old_value new_value i,
  old_value <> [] -> (Nat.min (length old_value) (length new_value) <= i)%nat ->
  nth i (metadata_update_value old_value new_value) 0 =
  if (length new_value <? length old_value)%nat then nth i old_value 0 else nth i new_value 0.
Proof. exact IdsProofs2.update_value_tail. Qed.
Print Assumptions xor_update_tail.

Theorem xor_update_self : forall v, metadata_update_value v v = repeat 0 (length v).
Proof. exact IdsProofs2.update_value_self. Qed.
Print Assumptions xor_update_self.

(* non-vacuity *)
Example path_example :
  generate_namespace_path sha3_256 [102; 111; 111; 46; 98; 97; 114] <> None
  /\ generate_namespace_path sha3_256 [102; 111; 111; 46; 46; 98] = None
  /\ Z.even 104 = true /\ Z.even 152 = true.
Proof. vm_compute. repeat split; discriminate. Qed.

(* non-vacuity of the implications above (valid_names_are_ascii, alias_address_roundtrip, non_alias_address_has_no_id): a valid name,
   an identifier / network pair in range with its alias address, and a non-alias address meet the premises *)
Example premises_nonvacuous :
  is_valid_namespace_name [102; 111; 111] = true
  /\ (0 <= 2 ^ 63 + 5 < 2 ^ 64 /\ Z.even 104 = true
      /\ address_to_namespace_id (address_from_namespace_id (2 ^ 63 + 5) 104) = Some (2 ^ 63 + 5))
  /\ (Z.land (nth 0 (104 :: repeat 7 23) 0) 1 = 0 /\ address_to_namespace_id (104 :: repeat 7 23) = None).
Proof. vm_compute. repeat split; try reflexivity; discriminate. Qed.
Print Assumptions premises_nonvacuous.

Example premises_nonvacuous_2 :
  generate_mosaic_alias_id sha3_256 [102; 111; 111; 46; 98] <> None
  /\ ([1; 2; 3] <> ([] : list Z) /\ (1 < Nat.min 3 2)%nat /\ (Nat.min 3 2 <= 2)%nat
      /\ metadata_update_value [1; 2; 3] [7; 7] = [6; 5; 3]).
Proof. vm_compute. repeat split; try discriminate; repeat constructor. Qed.
Print Assumptions premises_nonvacuous_2.
