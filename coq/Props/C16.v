(* C16 -- hierarchical key derivation composes and matches SLIP-10; facades map accounts to coin-type paths and nodes to key pairs.
   Only statements; each closed by `exact` of a lemma proved in Sym/Bip32Proofs.v.  The left-hand functions are the model of
   Bip32.py / BufferWriter.write_int / {Symbol,Nem}Facade.bip32_path / bip32_node_to_key_pair / nem KeyPair instantiated with the
   constants and operators regenerated from /repo (Gen/Bip32Ops.v) and with the Gallina HMAC-SHA512; the right-hand
   specifications are fixed text.  Outcomes are `result`: Ok v | Reject (ValueError) | Crash kind. *)
From Symv Require Import Base.Bytes Base.PyOps Sym.Sha2 Sym.Hmac Sym.Bip32 Sym.Bip32Proofs Sym.Bip32Proofs2.
Open Scope Z_scope.

(* ---- composition: deriving along p ++ q is deriving along p, then along q from the node reached (all nodes, all paths,
        including paths with an unwritable index, where the exception of the first part is the outcome of the whole) ---- *)
Theorem derive_path_app : forall p q n,
  derive_path_sha512 (p ++ q) n = derive_path_from hmac_sha512 q (derive_path_sha512 p n).
Proof. exact (Bip32Proofs.derive_path_app hmac_sha512). Qed.
Print Assumptions derive_path_app.

Theorem derive_path_app_bind : forall p q n,
  derive_path_sha512 (p ++ q) n = bind (derive_path_sha512 p n) (derive_path_sha512 q).
Proof. exact (Bip32Proofs.derive_path_app_bind hmac_sha512). Qed.
Print Assumptions derive_path_app_bind.

Theorem derive_path_app_ok : forall p q n m,
  derive_path_sha512 p n = Ok m -> derive_path_sha512 (p ++ q) n = derive_path_sha512 q m.
Proof. exact (Bip32Proofs.derive_path_app_ok hmac_sha512). Qed.
Print Assumptions derive_path_app_ok.

Theorem derive_path_empty_and_step : forall n i p,
  derive_path_sha512 [] n = Ok n /\ derive_path_sha512 (i :: p) n = bind (derive_one_sha512 n i) (derive_path_sha512 p).
Proof. exact (fun n i p => conj (Bip32Proofs.derive_path_nil hmac_sha512 n) (Bip32Proofs.derive_path_cons hmac_sha512 i p n)). Qed.
Print Assumptions derive_path_empty_and_step.

(* ---- 0x80000000 | i ---- *)
Theorem harden_is_add : forall i, 0 <= i < 2 ^ 31 -> Z.lor (2 ^ 31) i = 2 ^ 31 + i.
Proof. exact Bip32Proofs.lor_harden. Qed.
Print Assumptions harden_is_add.

Theorem harden_keeps_hardened : forall i, 2 ^ 31 <= i < 2 ^ 32 -> Z.lor (2 ^ 31) i = i.
Proof. exact Bip32Proofs.lor_harden_high. Qed.
Print Assumptions harden_keeps_hardened.

(* ---- each step is the SLIP-10 hardened child ---- *)
Theorem derive_one_slip10 : forall n i, 0 <= i < 2 ^ 31 ->
  derive_one_sha512 n i =
  Ok (let r := hmac_sha512 (chain_code n) (0 :: private_key n ++ to_be 4 (2 ^ 31 + i)) in
      {| private_key := firstn 32 r; chain_code := skipn 32 r |}).
Proof. exact (Bip32Proofs.derive_one_slip10 hmac_sha512). Qed.
Print Assumptions derive_one_slip10.

(* outside [0, 2^31): an index that already has bit 31 set is NOT rejected and is not hardened a second time -- it yields the same
   child as the index without the bit; anything outside [0, 2^32) raises OverflowError in BufferWriter.write_int *)
Theorem derive_one_not_hardened_twice : forall n i, 2 ^ 31 <= i < 2 ^ 32 ->
  derive_one_sha512 n i = derive_one_sha512 n (i - 2 ^ 31).
Proof. exact (Bip32Proofs.derive_one_not_hardened_twice hmac_sha512). Qed.
Print Assumptions derive_one_not_hardened_twice.

Theorem derive_one_out_of_range : forall n i, ~ 0 <= i < 2 ^ 32 -> derive_one_sha512 n i = Crash "OverflowError".
Proof. exact (Bip32Proofs.derive_one_out_of_range hmac_sha512). Qed.
Print Assumptions derive_one_out_of_range.

Theorem derive_path_slip10 : forall p n, Forall (fun i => 0 <= i < 2 ^ 31) p ->
  derive_path_sha512 p n = Ok (fold_left (slip10_child hmac_sha512) p n).
Proof. exact (Bip32Proofs.derive_path_slip10 hmac_sha512). Qed.
Print Assumptions derive_path_slip10.

Theorem derive_path_total : forall p n,
  (Forall (fun i => 0 <= i < 2 ^ 32) p -> exists m, derive_path_sha512 p n = Ok m)
  /\ (Exists (fun i => ~ 0 <= i < 2 ^ 32) p -> derive_path_sha512 p n = Crash "OverflowError").
Proof. exact (fun p n => conj (Bip32Proofs.derive_path_writable hmac_sha512 p n) (Bip32Proofs.derive_path_out_of_range hmac_sha512 p n)). Qed.
Print Assumptions derive_path_total.

(* ---- roots ---- *)
Theorem root_label : forall curve seed,
  from_seed_sha512 curve seed =
  let r := hmac_sha512 (curve ++ of_string " seed") seed in {| private_key := firstn 32 r; chain_code := skipn 32 r |}.
Proof. exact (Bip32Proofs.root_label hmac_sha512). Qed.
Print Assumptions root_label.

Theorem from_mnemonic_eq_from_seed : forall curve mnemonic passphrase,
  from_mnemonic_sha512 curve mnemonic passphrase
  = from_seed_sha512 curve (pbkdf2 (hmac_sha512 mnemonic) 64 (of_string "mnemonic" ++ passphrase) 2048 64).
Proof. exact (Bip32Proofs.from_mnemonic_eq_from_seed hmac_sha512). Qed.
Print Assumptions from_mnemonic_eq_from_seed.

(* the evaluation-speed variant (HMAC with pre-absorbed key blocks) used by the correspondence run is the same function *)
Theorem from_mnemonic_fast_is_from_mnemonic : forall curve mnemonic passphrase,
  from_mnemonic_sha512_fast curve mnemonic passphrase = from_mnemonic_sha512 curve mnemonic passphrase.
Proof. exact Bip32Proofs.from_mnemonic_fast_eq. Qed.
Print Assumptions from_mnemonic_fast_is_from_mnemonic.

(* every node made by the model has a 32-byte key and a 32-byte chain code, so PrivateKey(...) in Bip32Node.__init__ never rejects *)
Theorem node_sizes : forall curve seed p m,
  length (private_key (from_seed_sha512 curve seed)) = 32%nat
  /\ (derive_path_sha512 p (from_seed_sha512 curve seed) = Ok m -> length (private_key m) = 32%nat).
Proof.
  exact (fun curve seed p m => conj (Bip32Proofs.from_seed_wf hmac_sha512 hmac_sha512_length curve seed)
    (Bip32Proofs.derive_path_wf hmac_sha512 hmac_sha512_length p _ m (Bip32Proofs.from_seed_wf hmac_sha512 hmac_sha512_length curve seed))).
Qed.
Print Assumptions node_sizes.

(* ---- facades: account index -> coin-type path of the network; curve labels ---- *)
Theorem facade_paths : forall network_name account,
  symbol_bip32_path network_name account
    = [44; if list_eq_dec Z.eq_dec network_name (of_string "mainnet") then 4343 else 1; account; 0; 0]
  /\ nem_bip32_path network_name account
    = [44; if list_eq_dec Z.eq_dec network_name (of_string "mainnet") then 43 else 1; account; 0; 0].
Proof. exact (fun name account => conj (Bip32Proofs.symbol_path name account) (Bip32Proofs.nem_path name account)). Qed.
Print Assumptions facade_paths.

Theorem facade_curve_labels :
  sym_curve = of_string "ed25519" /\ nem_curve = of_string "ed25519-keccak" /\ default_curve = of_string "ed25519".
Proof. exact Bip32Proofs.facade_curves. Qed.
Print Assumptions facade_curve_labels.

(* ---- facades: node -> key pair.  pubkey_sha512 / pubkey_keccak (the network's Ed25519 public key of a 32-byte secret) are
        parameters here; the Ed25519 model is a separate development ---- *)
Theorem nem_double_reversal : forall k,
  bind (step_slice (- nem_facade_step_abs) k) (step_slice (- nem_keypair_step_abs)) = Ok k /\ rev (rev k) = k.
Proof. exact Bip32Proofs.nem_double_reversal. Qed.
Print Assumptions nem_double_reversal.

Theorem key_pair_secret_is_node_key_symbol : forall (pubkey_sha512 : bytes -> bytes) n,
  symbol_bip32_node_to_key_pair pubkey_sha512 n
  = {| signing_secret := private_key n; public_key := pubkey_sha512 (private_key n) |}.
Proof. exact Bip32Proofs.symbol_key_pair_of_node. Qed.
Print Assumptions key_pair_secret_is_node_key_symbol.

Theorem key_pair_secret_is_node_key_nem : forall (pubkey_keccak : bytes -> bytes) n,
  (length (private_key n) = 32%nat ->
     nem_bip32_node_to_key_pair pubkey_keccak n
     = Ok {| signing_secret := private_key n; public_key := pubkey_keccak (private_key n) |})
  /\ (length (private_key n) <> 32%nat -> nem_bip32_node_to_key_pair pubkey_keccak n = Reject).
Proof. exact (fun pk n => conj (Bip32Proofs.nem_key_pair_of_node pk n) (Bip32Proofs.nem_key_pair_of_bad_node pk n)). Qed.
Print Assumptions key_pair_secret_is_node_key_nem.

(* the public `private_key` property of a NEM key pair shows the secret reversed (so, for a facade-made pair, the node key reversed) *)
Theorem nem_private_key_property_is_reversed : forall kp, length (signing_secret kp) = 32%nat ->
  nem_key_pair_private_key kp = Ok (rev (signing_secret kp)).
Proof. exact Bip32Proofs.nem_private_key_property. Qed.
Print Assumptions nem_private_key_property_is_reversed.

(* ---- composition at full strength: ANY split of a path into consecutive segments (any number of them, empty ones included),
        derived segment after segment, gives the node -- or the exception -- of the whole path; two splits of one path agree;
        the step-by-step derivation is the split into singletons ---- *)
Theorem derive_path_any_split : forall segs n,
  derive_path_sha512 (concat segs) n = derive_segments hmac_sha512 segs (Ok n).
Proof. exact (Bip32Proofs2.derive_path_any_split hmac_sha512). Qed.
Print Assumptions derive_path_any_split.

Theorem derive_path_two_splits_agree : forall segs1 segs2 n,
  concat segs1 = concat segs2 -> derive_segments hmac_sha512 segs1 (Ok n) = derive_segments hmac_sha512 segs2 (Ok n).
Proof. exact (Bip32Proofs2.derive_path_two_splits hmac_sha512). Qed.
Print Assumptions derive_path_two_splits_agree.

Theorem derive_path_stepwise : forall p n,
  derive_path_sha512 p n = derive_segments hmac_sha512 (map (fun i => [i]) p) (Ok n).
Proof. exact (Bip32Proofs2.derive_path_stepwise hmac_sha512). Qed.
Print Assumptions derive_path_stepwise.

(* ---- the facades end to end: the node of account i (< 2^31) is the SLIP-10 hardened chain 44 / coin type / i / 0 / 0 under the
        root of the seed with the network's curve label ---- *)
Theorem symbol_account_node : forall name account seed, 0 <= account < 2 ^ 31 ->
  derive_path_sha512 (symbol_bip32_path name account) (from_seed_sha512 sym_curve seed) =
  Ok (fold_left (slip10_child hmac_sha512)
        [44; if list_eq_dec Z.eq_dec name (of_string "mainnet") then 4343 else 1; account; 0; 0]
        (slip10_root hmac_sha512 (of_string "ed25519") seed)).
Proof. exact (Bip32Proofs2.symbol_account_node hmac_sha512). Qed.
Print Assumptions symbol_account_node.

Theorem nem_account_node : forall name account seed, 0 <= account < 2 ^ 31 ->
  derive_path_sha512 (nem_bip32_path name account) (from_seed_sha512 nem_curve seed) =
  Ok (fold_left (slip10_child hmac_sha512)
        [44; if list_eq_dec Z.eq_dec name (of_string "mainnet") then 43 else 1; account; 0; 0]
        (slip10_root hmac_sha512 (of_string "ed25519-keccak") seed)).
Proof. exact (Bip32Proofs2.nem_account_node hmac_sha512). Qed.
Print Assumptions nem_account_node.

Theorem account_paths_injective : forall name a b,
  (symbol_bip32_path name a = symbol_bip32_path name b -> a = b) /\ (nem_bip32_path name a = nem_bip32_path name b -> a = b).
Proof. exact (fun name a b => conj (Bip32Proofs2.symbol_path_injective name a b) (Bip32Proofs2.nem_path_injective name a b)). Qed.
Print Assumptions account_paths_injective.

Theorem hardened_index_bytes_injective : forall i j, 0 <= i < 2 ^ 31 -> 0 <= j < 2 ^ 31 ->
  to_be 4 (2 ^ 31 + i) = to_be 4 (2 ^ 31 + j) -> i = j.
Proof. exact Bip32Proofs2.hardened_index_bytes_injective. Qed.
Print Assumptions hardened_index_bytes_injective.

(* non-vacuity: SLIP-10 test vector 1 for ed25519 (seed 000102..0f, chain m/0H), and an out-of-range index *)
Example slip10_vector_1 :
  let root := from_seed_sha512 default_curve (of_hex "000102030405060708090a0b0c0d0e0f") in
  to_hex (private_key root) = "2b4be7f19ee27bbf30c667b642d5f4aa69fd169872f8fc3059c08ebae2eb19e7"%string
  /\ (match derive_path_sha512 [0] root with
      | Ok m => to_hex (private_key m) = "68e0fe46dfb67e368c75379acec591dad19df3cde26e63b93a8e704f1dade7a3"%string
                /\ to_hex (chain_code m) = "8b59aa11380b624e81507a27fedda59fea6d0b779a778918a2fd3590e16e9c69"%string
      | _ => False
      end)
  /\ derive_path_sha512 [0; 2 ^ 32] root = Crash "OverflowError"
  /\ derive_path_sha512 [2 ^ 31] root = derive_path_sha512 [0] root.
Proof. vm_compute. repeat split. Qed.

(* non-vacuity of the implications above: a path prefix that derives (derive_path_app_ok), a facade path whose indices are all in
   [0, 2^31) (derive_one_slip10 / derive_path_slip10 / harden_is_add), a node with a 32-byte key and the NEM key pair made of it
   (key_pair_secret_is_node_key_nem, nem_private_key_property_is_reversed) *)
Example premises_nonvacuous :
  let root := from_seed_sha512 default_curve (of_hex "000102030405060708090a0b0c0d0e0f") in
  match derive_path_sha512 [44] root with
  | Ok m => derive_path_sha512 ([44] ++ [7]) root = derive_path_sha512 [7] m
  | _ => False
  end
  /\ forallb (fun i => (0 <=? i) && (i <? 2 ^ 31)) (symbol_bip32_path (of_string "mainnet") 7) = true
  /\ length (private_key root) = 32%nat
  /\ nem_bip32_node_to_key_pair (fun k => k) root = Ok {| signing_secret := private_key root; public_key := private_key root |}
  /\ nem_key_pair_private_key {| signing_secret := private_key root; public_key := [] |} = Ok (rev (private_key root)).
Proof. vm_compute. repeat split; reflexivity. Qed.
Print Assumptions premises_nonvacuous.

(* non-vacuity of the split theorems: a three-way split with an empty segment, and two different splits of one path *)
Example splits_nonvacuous :
  let root := from_seed_sha512 default_curve (of_hex "000102030405060708090a0b0c0d0e0f") in
  derive_segments hmac_sha512 [[44]; []; [1; 2]] (Ok root) = derive_path_sha512 [44; 1; 2] root
  /\ concat [[44; 1]; [2]] = concat [[44]; [1; 2]]
  /\ (exists m, derive_path_sha512 [44; 1; 2] root = Ok m).
Proof. vm_compute. repeat split. eexists. reflexivity. Qed.
Print Assumptions splits_nonvacuous.
