(* C09 -- transaction hashes and Merkle roots match their definitions; proofs sound.
   Only statements; each closed by `exact` of a lemma proved in Sym/MerkleProofs.v.  The left-hand functions are the model of
   symbol/Merkle.py, BufferReader.py and the hashing half of SymbolFacade.py / NemFacade.py, instantiated with the constants
   and operators regenerated from /repo (Gen/MerkleOps.v) and with the Gallina SHA3-256 / Keccak-256; the right-hand
   specifications are fixed text. *)
From Symv Require Import Base.Bytes Base.PyOps Sym.Keccak Sym.KeccakProofs Sym.Merkle Sym.MerkleProofs Sym.MerkleProofs2.
From Coq Require Import Lia.
Open Scope Z_scope.

(* ---------------------------------------------------------------------------------------------------------------- *)
(* Symbol transaction hash *)

(* the hashed window of a serialized transaction b starts after the 108-byte header and runs to the end -- except for the
   two aggregate types (16-bit little-endian type at offset 110), where it stops after 52 bytes (at byte 160) *)
Theorem data_window : forall b, (112 <= length b)%nat ->
  transaction_data_buffer b =
  Ok (if (nth 110 b 0 + 256 * nth 111 b 0 =? 16705) || (nth 110 b 0 + 256 * nth 111 b 0 =? 16961)
      then firstn 52 (skipn 108 b) else skipn 108 b).
Proof. exact MerkleProofs.data_window. Qed.
Print Assumptions data_window.

(* hash = SHA3-256(signature || signer public key || generation-hash seed || window) *)
Theorem hash_input_def : forall signature signer seed b, (112 <= length b)%nat ->
  tx_hash_input signature signer seed b = Ok (signature ++ signer ++ seed ++ data_window_spec b)
  /\ hash_transaction_bytes sha3_256 signature signer seed b = Ok (sha3_256 (signature ++ signer ++ seed ++ data_window_spec b)).
Proof. exact (fun s k g b L => conj (tx_hash_input_def s k g b L) (hash_transaction_def sha3_256 s k g b L)). Qed.
Print Assumptions hash_input_def.

(* equal covered bytes => equal hash.  Of the serialized transaction nothing before byte 108 is covered (size, reserved words;
   signature and signer enter through the transaction's own fields); for an aggregate nothing from byte 160 on is covered:
   embedded transactions only through transactions_hash, cosignatures not at all *)
Theorem hash_ignores_uncovered : forall signature signer seed b b', (112 <= length b)%nat -> (112 <= length b')%nat ->
  skipn 108 b = skipn 108 b'
  \/ (is_aggregate_spec b = true /\ firstn 52 (skipn 108 b) = firstn 52 (skipn 108 b')) ->
  hash_transaction_bytes sha3_256 signature signer seed b = hash_transaction_bytes sha3_256 signature signer seed b'.
Proof. exact (MerkleProofs.hash_ignores_uncovered sha3_256). Qed.
Print Assumptions hash_ignores_uncovered.

(* the hash INPUT determines every covered part, and a changed byte at a covered position changes the input.  That the
   DIGEST then differs is collision resistance of SHA3-256, which is not a theorem; see prove_merkle_sound_or_collision for
   the shape such statements take *)
Theorem hash_input_injective_on_covered :
  (forall sig signer seed b sig' signer' seed' b',
     (112 <= length b)%nat -> (112 <= length b')%nat ->
     length sig = length sig' -> length signer = length signer' -> length seed = length seed' ->
     tx_hash_input sig signer seed b = tx_hash_input sig' signer' seed' b' ->
     sig = sig' /\ signer = signer' /\ seed = seed' /\ data_window_spec b = data_window_spec b')
  /\ (forall sig signer seed b b' p,
     (112 <= length b)%nat -> length b = length b' ->
     (108 <= p < length b)%nat /\ (is_aggregate_spec b = true -> (p < 160)%nat) ->
     nth p b 0 <> nth p b' 0 ->
     tx_hash_input sig signer seed b <> tx_hash_input sig signer seed b').
Proof. exact (conj hash_input_injective covered_byte_changes_input). Qed.
Print Assumptions hash_input_injective_on_covered.

(* NEM: Keccak-256 of the non-verifiable serialization (which bytes that serialization contains is the codec's matter) *)
Theorem nem_hash_def : forall non_verifiable,
  nem_hash_transaction keccak_256 non_verifiable = keccak_256 non_verifiable
  /\ length (nem_hash_transaction keccak_256 non_verifiable) = 32%nat.
Proof. exact (fun nv => conj eq_refl (keccak_256_length nv)). Qed.
Print Assumptions nem_hash_def.

(* ---------------------------------------------------------------------------------------------------------------- *)
(* Merkle roots *)

(* the in-place level loop of MerkleHashBuilder.final computes, for EVERY leaf count, the root of the pairwise tree with the
   last node duplicated at odd levels; the all-zero hash for no leaves.  (Fuel never runs out.) *)
Theorem merkle_loop_eq_tree : forall leaves, merkle_final sha3_256 leaves = Ok (merkle_root_spec sha3_256 leaves).
Proof. exact (merkle_final_eq_tree sha3_256). Qed.
Print Assumptions merkle_loop_eq_tree.

(* ... where the reference tree is the unique function with these three equations *)
Theorem merkle_tree_equations :
  merkle_root_spec sha3_256 [] = repeat 0 32%nat
  /\ (forall x, merkle_root_spec sha3_256 [x] = x)
  /\ (forall a b r, merkle_root_spec sha3_256 (a :: b :: r) = merkle_root_spec sha3_256 (pair_up sha3_256 (a :: b :: r)))
  /\ (forall a b r, pair_up sha3_256 (a :: b :: r) = sha3_256 (a ++ b) :: pair_up sha3_256 r)
  /\ (forall a, pair_up sha3_256 [a] = [sha3_256 (a ++ a)]) /\ pair_up sha3_256 [] = [].
Proof.
  exact (conj (merkle_root_spec_nil sha3_256) (conj (merkle_root_spec_one sha3_256) (conj (merkle_root_spec_step sha3_256)
        (conj (fun a b r => eq_refl) (conj (fun a => eq_refl) eq_refl))))).
Qed.
Print Assumptions merkle_tree_equations.

(* the shape of the tree, as equations between roots: two leaves hash together; two balanced halves of 2^k leaves each give the
   hash of the two half roots (so 2^(k+1) leaves form the full binary tree); an odd number (>= 3) of leaves gives the root of the
   list with its last leaf repeated -- while a single leaf is its own root and is not hashed with itself; pairing is local to
   even-length prefixes *)
Theorem merkle_root_of_pair : forall a b, merkle_root_spec sha3_256 [a; b] = sha3_256 (a ++ b).
Proof. exact (MerkleProofs2.root_pair sha3_256). Qed.
Print Assumptions merkle_root_of_pair.

Theorem merkle_root_of_balanced_halves : forall k l1 l2, length l1 = (2 ^ k)%nat -> length l2 = (2 ^ k)%nat ->
  merkle_root_spec sha3_256 (l1 ++ l2) = sha3_256 (merkle_root_spec sha3_256 l1 ++ merkle_root_spec sha3_256 l2).
Proof. exact (MerkleProofs2.root_balanced sha3_256). Qed.
Print Assumptions merkle_root_of_balanced_halves.

Theorem merkle_root_odd_duplicates_last : forall l x, Nat.even (length l) = true -> l <> [] ->
  merkle_root_spec sha3_256 (l ++ [x]) = merkle_root_spec sha3_256 (l ++ [x; x]).
Proof. exact (MerkleProofs2.root_dup_last sha3_256). Qed.
Print Assumptions merkle_root_odd_duplicates_last.

Theorem merkle_pairing_is_local : forall l1 l2, Nat.even (length l1) = true ->
  pair_up sha3_256 (l1 ++ l2) = pair_up sha3_256 l1 ++ pair_up sha3_256 l2.
Proof. exact (MerkleProofs2.pair_up_app_even sha3_256). Qed.
Print Assumptions merkle_pairing_is_local.

(* the builder itself, composed with the above: for 2^(k+1) leaves the loop returns the hash of the roots of the two halves *)
Theorem merkle_loop_of_balanced_halves : forall k l1 l2, length l1 = (2 ^ k)%nat -> length l2 = (2 ^ k)%nat ->
  merkle_final sha3_256 (l1 ++ l2) = Ok (sha3_256 (merkle_root_spec sha3_256 l1 ++ merkle_root_spec sha3_256 l2)).
Proof.
  exact (fun k l1 l2 H1 H2 => eq_trans (merkle_final_eq_tree sha3_256 (l1 ++ l2))
                                       (f_equal Ok (MerkleProofs2.root_balanced sha3_256 k l1 l2 H1 H2))).
Qed.
Print Assumptions merkle_loop_of_balanced_halves.

Example merkle_shape_nonvacuous :
  length [[1]; [2]] = (2 ^ 1)%nat /\ Nat.even (length [[1]; [2]]) = true /\ [[1]; [2]] <> ([] : list bytes)
  /\ merkle_final sha3_256 ([[1]; [2]] ++ [[3]]) = merkle_final sha3_256 ([[1]; [2]] ++ [[3]; [3]]).
Proof. vm_compute. repeat split; discriminate. Qed.
Print Assumptions merkle_shape_nonvacuous.

Theorem embedded_transactions_hash_def : forall embedded,
  hash_embedded_transactions sha3_256 embedded = Ok (merkle_root_spec sha3_256 (map sha3_256 embedded)).
Proof. exact (hash_embedded_eq_tree sha3_256). Qed.
Print Assumptions embedded_transactions_hash_def.

(* for every non-empty leaf list and every position the honest audit path verifies against the root *)
Theorem prove_merkle_complete : forall leaves i, (i < length leaves)%nat ->
  exists root, merkle_final sha3_256 leaves = Ok root
               /\ prove_merkle sha3_256 (nth i leaves []) (merkle_path sha3_256 leaves i) root = true.
Proof. exact (MerkleProofs.prove_merkle_complete sha3_256). Qed.
Print Assumptions prove_merkle_complete.

(* a verifying path with the side flags of position i is the honest path of exactly that leaf -- or it exhibits two
   different byte strings with the same SHA3-256 digest.
   The side flags are the position the path claims.  Without fixing them the statement ("any verifying path of the honest
   length other than the honest path yields a collision") is false for two collision-free reasons: swapping the sides of a
   node that is its own sibling (the duplicated last node of an odd level) names the same pair, and when a leaf VALUE occurs
   at two positions the honest path of the other position verifies as well. *)
Theorem prove_merkle_sound_or_collision : forall leaves i x path root,
  Forall (fun l => length l = 32%nat) leaves -> (i < length leaves)%nat -> length x = 32%nat ->
  Forall (fun p => length (part_hash p) = 32%nat) path ->
  map part_is_left path = map part_is_left (merkle_path sha3_256 leaves i) ->
  merkle_final sha3_256 leaves = Ok root -> prove_merkle sha3_256 x path root = true ->
  (x = nth i leaves [] /\ path = merkle_path sha3_256 leaves i)
  \/ (exists a b : bytes, a <> b /\ sha3_256 a = sha3_256 b).
Proof. exact (MerkleProofs.prove_merkle_sound_or_collision sha3_256 sha3_256_length). Qed.
Print Assumptions prove_merkle_sound_or_collision.

(* ---------------------------------------------------------------------------------------------------------------- *)
(* Patricia tree nodes *)

(* _encode_path is the hex-prefix encoding: first nibble = 2 (leaf) + 1 (odd nibble count), an even path is preceded by a
   zero nibble, nibbles packed two per byte *)
Theorem encode_path_def : forall p is_leaf, wf_path p -> encode_path p is_leaf = Ok (hp_encode is_leaf (path_nibbles p)).
Proof. exact encode_path_spec. Qed.
Print Assumptions encode_path_def.

Theorem encode_path_laws :
  (forall is_leaf ns, Forall is_nibble ns ->
     exists b rest, hp_encode is_leaf ns = b :: rest
                    /\ b / 16 = (if is_leaf then 2 else 0) + (if Nat.odd (length ns) then 1 else 0))
  /\ (forall is_leaf ns, length (hp_encode is_leaf ns) = S (Nat.div2 (length ns)))
  /\ (forall l1 ns1 l2 ns2, Forall is_nibble ns1 -> Forall is_nibble ns2 ->
        hp_encode l1 ns1 = hp_encode l2 ns2 -> l1 = l2 /\ ns1 = ns2).
Proof. exact (conj hp_encode_first_byte (conj hp_encode_length hp_encode_inj)). Qed.
Print Assumptions encode_path_laws.

(* parsing the serialized form of well-formed nodes gives the nodes back (and the loop's fuel suffices) *)
Theorem deserialize_serialize : forall nodes, Forall wf_node nodes ->
  deserialize_patricia_tree_nodes (serialize_nodes nodes) = Ok nodes.
Proof. exact MerkleProofs.deserialize_serialize. Qed.
Print Assumptions deserialize_serialize.

(* the verdict of prove_patricia_merkle on ALL inputs, read from the root (chain_fn: a branch spells its own path, then the
   index of the link to its child, then what the child spells -- the tree format) *)
Theorem patricia_verdict_def : forall key value path state_hash roots,
  prove_patricia_merkle sha3_256 key value path state_hash roots = verdict_spec sha3_256 key value path state_hash roots.
Proof. exact (MerkleProofs.patricia_verdict_def sha3_256). Qed.
Print Assumptions patricia_verdict_def.

Theorem patricia_positive_iff : forall key value path state_hash roots,
  prove_patricia_merkle sha3_256 key value path state_hash roots = Ok 1 <->
  state_hash = sha3_256 (concat roots) /\
  exists front lp h, path = front ++ [LeafNode lp value] /\ chain_fn sha3_256 path = COk h (nibbles_of key) /\ In h roots.
Proof. exact (MerkleProofs.patricia_positive_iff sha3_256). Qed.
Print Assumptions patricia_positive_iff.

Theorem patricia_negative_iff : forall key value path state_hash roots code, code = 2 \/ code = 0x4001 ->
  prove_patricia_merkle sha3_256 key value path state_hash roots = Ok code <->
  state_hash = sha3_256 (concat roots) /\
  exists front lp links h actual next_nibble link,
    path = front ++ [BranchNode lp links] /\ chain_fn sha3_256 path = COk h actual /\ In h roots /\
    is_prefix actual (nibbles_of key) = true /\ nth_error (nibbles_of key) (length actual) = Some next_nibble /\
    py_get links next_nibble = Some link /\ (code = 2 <-> link = None).
Proof. exact (MerkleProofs.patricia_negative_iff sha3_256). Qed.
Print Assumptions patricia_negative_iff.

(* THE VERDICT A TREE IMPLIES, for every proof cut from a tree along the key (branches with arbitrary, also non-empty,
   paths; `follows` is that notion, see Sym/MerkleProofs.v): ending in a leaf it is POSITIVE when the leaf's path is the rest
   of the key and its value the tested one, LEAF_VALUE_MISMATCH for another value, PATH_MISMATCH for another path; ending in a
   branch it is NEGATIVE when the branch's path is followed in the key by a nibble without link, INCONCLUSIVE when that link
   exists, PATH_MISMATCH when the key leaves the branch's path.  (Premise inside `follows`: the child's hash is not also
   carried by an earlier link of the same branch -- list.index returns the first.) *)
Theorem patricia_verdict_of_cut_proof : forall key value path roots above krest,
  follows sha3_256 path (nibbles_of key)
    (above ++ hex_path (node_path (last path (LeafNode {| pp_bytes := []; pp_size := 0 |} [])))) ->
  nibbles_of key = above ++ krest ->
  (forall first rest h, path = first :: rest -> node_hash sha3_256 first = Ok h -> In h roots) ->
  prove_patricia_merkle sha3_256 key value path (sha3_256 (concat roots)) roots =
  match last path (LeafNode {| pp_bytes := []; pp_size := 0 |} []) with
  | LeafNode lp lv =>
    if negb (bytes_eqb value lv) then Ok 0x8003
    else Ok (if bytes_eqb (hex_path lp) krest then 0x0001 else 0x8005)
  | BranchNode lp links =>
    if negb (is_prefix (hex_path lp) krest) then Ok 0x8005
    else match nth_error krest (length (hex_path lp)) with
         | None => Crash index_error
         | Some next_nibble =>
           match py_get links next_nibble with
           | None => Crash index_error
           | Some (Some _) => Ok 0x4001
           | Some None => Ok 0x0002
           end
         end
  end.
Proof. exact (MerkleProofs.patricia_verdict_of_cut_proof sha3_256). Qed.
Print Assumptions patricia_verdict_of_cut_proof.

(* every chain that follows a key splits the key that way: the consumed prefix `above` always exists *)
Theorem cut_proof_splits_key : forall nodes key spelled, follows sha3_256 nodes key spelled ->
  exists above krest, key = above ++ krest
    /\ spelled = above ++ hex_path (node_path (last nodes (LeafNode {| pp_bytes := []; pp_size := 0 |} []))).
Proof. exact (MerkleProofs.follows_prefix sha3_256). Qed.
Print Assumptions cut_proof_splits_key.

(* ---------------------------------------------------------------------------------------------------------------- *)
(* non-vacuity *)
Definition ex_tx (t_lo t_hi : Z) : bytes := repeat 7 110 ++ [t_lo; t_hi] ++ repeat 9 100.
Example window_examples :
  transaction_data_buffer (ex_tx 0x54 0x41) = Ok (skipn 108 (ex_tx 0x54 0x41))                (* transfer 0x4154 *)
  /\ transaction_data_buffer (ex_tx 0x41 0x41) = Ok (firstn 52 (skipn 108 (ex_tx 0x41 0x41)))  (* aggregate complete 0x4141 *)
  /\ transaction_data_buffer (ex_tx 0x41 0x42) = Ok (firstn 52 (skipn 108 (ex_tx 0x41 0x42)))  (* aggregate bonded 0x4241 *)
  /\ transaction_data_buffer (repeat 7 111) = Crash index_error.
Proof. vm_compute. repeat split; reflexivity. Qed.

Definition ex_leaf (k : Z) : bytes := repeat k 32.
Example merkle_example_3 :
  merkle_root_spec sha3_256 [ex_leaf 1; ex_leaf 2; ex_leaf 3]
  = sha3_256 (sha3_256 (ex_leaf 1 ++ ex_leaf 2) ++ sha3_256 (ex_leaf 3 ++ ex_leaf 3))
  /\ prove_merkle sha3_256 (ex_leaf 3) (merkle_path sha3_256 [ex_leaf 1; ex_leaf 2; ex_leaf 3] 2)
       (merkle_root_spec sha3_256 [ex_leaf 1; ex_leaf 2; ex_leaf 3]) = true
  /\ prove_merkle sha3_256 (ex_leaf 2) (merkle_path sha3_256 [ex_leaf 1; ex_leaf 2; ex_leaf 3] 2)
       (merkle_root_spec sha3_256 [ex_leaf 1; ex_leaf 2; ex_leaf 3]) = false.
Proof. vm_compute. repeat split; reflexivity. Qed.

(* regression of a repaired defect: a branch with the one-nibble path 5 whose link 7 leads to a leaf with path AB holds the
   key 57AB; the honest two-node proof is POSITIVE for key bytes [0x57; 0xAB] (before the repair the code spelled the chain
   75AB and answered PATH_MISMATCH), and it is an instance of `follows` *)
Definition cx_value : bytes := repeat 17 32.
Definition cx_leaf : node := LeafNode {| pp_bytes := [0xAB]; pp_size := 2 |} cx_value.
Definition cx_leaf_hash : bytes := match node_hash sha3_256 cx_leaf with Ok h => h | _ => [] end.
Definition cx_branch_links : list (option bytes) := repeat None 7 ++ [Some cx_leaf_hash] ++ repeat None 8.
Definition cx_branch : node := BranchNode {| pp_bytes := [0x50]; pp_size := 1 |} cx_branch_links.
Definition cx_root : bytes := match node_hash sha3_256 cx_branch with Ok h => h | _ => [] end.
Example branch_path_regression :
  prove_patricia_merkle sha3_256 [0x57; 0xAB] cx_value [cx_branch; cx_leaf] (sha3_256 cx_root) [cx_root] = Ok 1
  /\ prove_patricia_merkle sha3_256 [0x75; 0xAB] cx_value [cx_branch; cx_leaf] (sha3_256 cx_root) [cx_root] = Ok 0x8005
  /\ prove_patricia_merkle sha3_256 [0x57; 0xAB] cx_value [cx_branch] (sha3_256 cx_root) [cx_root] = Ok 0x4001
  /\ prove_patricia_merkle sha3_256 [0x53; 0xAB] cx_value [cx_branch] (sha3_256 cx_root) [cx_root] = Ok 2.
Proof. vm_compute. repeat split; reflexivity. Qed.
Example branch_path_follows :
  follows sha3_256 [cx_branch; cx_leaf] (hex_path (node_path cx_branch) ++ 7 :: [10; 11])
    (hex_path (node_path cx_branch) ++ 7 :: hex_path (node_path cx_leaf))
  /\ hex_path (node_path cx_branch) ++ 7 :: [10; 11] = [5; 7; 10; 11] /\ hex_path (node_path cx_leaf) = [10; 11].
Proof.
  split; [|split; vm_compute; reflexivity].
  unfold cx_branch. cbn [node_path].
  apply (follows_step sha3_256 _ cx_branch_links cx_leaf [] 7 [10; 11] cx_root cx_leaf_hash).
  - vm_compute. reflexivity.
  - vm_compute. reflexivity.
  - lia.
  - vm_compute. reflexivity.
  - apply (follows_last sha3_256 cx_leaf cx_leaf_hash). vm_compute. reflexivity.
Qed.

(* non-vacuity of the remaining implications: the well-formedness premises of encode_path_def and deserialize_serialize, ALL premises of
   prove_merkle_sound_or_collision together (honest path of position 2 of three leaves), and ALL premises of patricia_verdict_of_cut_proof
   together (key 57AB, above = 57, krest = AB, the two-node proof of branch_path_follows under the root cx_root) *)
Example premises_nonvacuous :
  (* encode_path_def *)
  (wf_path {| pp_bytes := [0xAB]; pp_size := 2 |} /\ encode_path {| pp_bytes := [0xAB]; pp_size := 2 |} true = Ok [0x20; 0xAB])
  (* deserialize_serialize *)
  /\ (Forall wf_node [cx_branch; cx_leaf] /\ deserialize_patricia_tree_nodes (serialize_nodes [cx_branch; cx_leaf]) = Ok [cx_branch; cx_leaf])
  (* prove_merkle_sound_or_collision, with the honest path of position 2 *)
  /\ (let leaves := [ex_leaf 1; ex_leaf 2; ex_leaf 3] in
      Forall (fun l => length l = 32%nat) leaves /\ (2 < length leaves)%nat /\ length (ex_leaf 3) = 32%nat
      /\ Forall (fun p => length (part_hash p) = 32%nat) (merkle_path sha3_256 leaves 2)
      /\ merkle_final sha3_256 leaves = Ok (merkle_root_spec sha3_256 leaves)
      /\ prove_merkle sha3_256 (ex_leaf 3) (merkle_path sha3_256 leaves 2) (merkle_root_spec sha3_256 leaves) = true)
  (* patricia_verdict_of_cut_proof: key 57AB, above = 57, krest = AB, the two-node proof of branch_path_follows *)
  /\ (follows sha3_256 [cx_branch; cx_leaf] (nibbles_of [0x57; 0xAB])
        ([5; 7] ++ hex_path (node_path (last [cx_branch; cx_leaf] (LeafNode {| pp_bytes := []; pp_size := 0 |} []))))
      /\ nibbles_of [0x57; 0xAB] = [5; 7] ++ [10; 11]
      /\ (forall first rest h, [cx_branch; cx_leaf] = first :: rest -> node_hash sha3_256 first = Ok h -> In h [cx_root])).
Proof.
  split; [split; [split; [reflexivity|vm_compute; split; discriminate]|vm_compute; reflexivity]|].
  split; [split; [|vm_compute; reflexivity]|].
  { repeat constructor; vm_compute; reflexivity. }
  split; [vm_compute; repeat split; repeat constructor|].
  split; [exact (proj1 branch_path_follows)|]. split; [vm_compute; reflexivity|].
  intros first rest h E Hh. injection E as <- _. left. vm_compute in Hh. injection Hh as <-. vm_compute. reflexivity.
Qed.
Print Assumptions premises_nonvacuous.
