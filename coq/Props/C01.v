(* C01 -- model codecs round-trip every admissible value and report its exact size.
   Statements only; proofs are in Cats/LayoutProofs.v (primitives) and Cats/LayoutRoundTrip.v (members and structs).
   Left-hand sides: the layout interpreter instantiated with the operators regenerated from ArrayHelpers.py / BaseValue.py (ops_now)
   and the schemas regenerated from the .cats files; right-hand sides: fixed text. *)
From Symv Require Import Base.Bytes Base.PyOps Cats.LayoutInst Cats.LayoutProofs.
Open Scope Z_scope.

(* boundary integers of every width and signedness: what to_bytes writes, from_bytes reads back, whatever follows *)
Theorem int_roundtrip : forall w signed x b rest,
  py_to_bytes w signed x = Ok b -> py_from_bytes w signed (b ++ rest) = x /\ length b = w.
Proof. exact py_int_roundtrip. Qed.
Print Assumptions int_roundtrip.

(* every decoded integer re-encodes (decode-encode-decode stability at the leaves) *)
Theorem decoded_int_in_range : forall w signed buf,
  wf_bytes buf = true -> (1 <= w)%nat -> (w <= length buf)%nat -> int_in_range w signed (py_from_bytes w signed buf) = true.
Proof. exact py_from_bytes_in_range. Qed.
Print Assumptions decoded_int_in_range.

(* ArrayHelpers.align_up (operators regenerated from the source) is the least multiple of the alignment >= size *)
Theorem align_up_is_least_multiple : forall s a, 0 <= s -> 0 < a ->
  align_up_now s a mod a = 0 /\ s <= align_up_now s a < s + a /\ (forall m, m mod a = 0 -> s <= m -> align_up_now s a <= m).
Proof.
  exact (fun s a Hs Ha => conj (proj1 (align_up_spec s a Hs Ha)) (conj (proj2 (align_up_spec s a Hs Ha)) (fun m => align_up_least s a m Hs Ha))).
Qed.
Print Assumptions align_up_is_least_multiple.

(* BaseValue's constructor check (constants and comparisons regenerated) is exactly the declared integer range *)
Theorem base_value_range : forall w signed x, (1 <= w)%nat ->
  base_value_bad_now (Z.of_nat w) signed x = negb (int_in_range w signed x).
Proof. exact base_value_bad_spec. Qed.
Print Assumptions base_value_range.

(* ---- structs: decode (encode v ++ anything) = v, size v = |encode v|, encodings are non-empty ----
   PARTIAL: proved for the FLAT fragment of ANY schema (flat_struct / adm in Cats/StructRoundTrip.v): aliases, enums and structs
   without parent, @size window, conditional / sizeof / sizeref / fill / aligned members, whose members are plain or reserved
   integers, count / byte-size members, named members, byte arrays and counted typed arrays (keyed or not) - nested to any depth n,
   for every interpreter fuel >= 2n + 1.  Full statement (dec_enc for every wf schema incl. parent headers with the @size window,
   factories, fill / aligned arrays, conditionals, sizeof, sizeref): not yet proved; those constructs are covered by the
   correspondence with the generated codecs only. *)
From Symv Require Import Cats.StructProofs Cats.StructRoundTrip Cats.StructDecide Gen.SchemaSc Gen.SchemaNc.
Open Scope string_scope.
Open Scope list_scope.
Open Scope Z_scope.

Theorem dec_enc_flat_partial : forall tm n k t v b rest, (2 * n + 1 <= k)%nat -> adm tm n t v -> enc ops_now tm k t v = Ok b ->
  dec ops_now tm k t (b ++ rest) = Ok v /\ size ops_now tm k t v = Ok (Z.of_nat (length b)) /\ (0 < length b)%nat.
Proof. exact (fun tm n k t v b rest Hk => RT_all tm n k Hk t v b rest). Qed.
Print Assumptions dec_enc_flat_partial.

(* the fragment is decidable: membership of a concrete struct / value is a kernel computation *)
Theorem fragment_decidable : forall tm n t v, admb tm n t v = true -> adm tm n t v.
Proof. exact admb_sound. Qed.
Print Assumptions fragment_decidable.

(* non-vacuity on the shipped schemas: a Symbol mosaic, a Symbol address-resolution statement with two entries (counted array of structs),
   a NEM mosaic id (nested struct with a byte array sized by a count member) are admissible values and round-trip *)
Definition flat_names (tm : list decl) : list string :=
  flat_map (fun d => match d with DStruct s => if flat_structb tm s then [s_name s] else [] | _ => [] end) tm.

Example fragment_examples :
  admb sc_schema 1 "UnresolvedMosaic" (VStruct "UnresolvedMosaic" [("mosaic_id", VInt 5); ("amount", VInt 18446744073709551615)]) = true
  /\ admb sc_schema 3 "AddressResolutionStatement"
       (VStruct "AddressResolutionStatement"
          [("unresolved", VBytes (repeat 7 24));
           ("resolution_entries",
            VArr [VStruct "AddressResolutionEntry" [("source", VStruct "ReceiptSource" [("primary_id", VInt 1); ("secondary_id", VInt 2)]); ("resolved_value", VBytes (repeat 1 24))];
                  VStruct "AddressResolutionEntry" [("source", VStruct "ReceiptSource" [("primary_id", VInt 3); ("secondary_id", VInt 4)]); ("resolved_value", VBytes (repeat 2 24))]])]) = true
  /\ admb nc_schema 2 "MosaicId"
       (VStruct "MosaicId" [("namespace_id", VStruct "NamespaceId" [("name", VBytes [110; 101; 109])]); ("name", VBytes [120; 101; 109])]) = true
  /\ Nat.leb 10 (length (flat_names sc_schema)) = true /\ Nat.leb 5 (length (flat_names nc_schema)) = true.
Proof. vm_compute. repeat split; reflexivity. Qed.
