(* C01 -- model codecs round-trip every admissible value and report its exact size.
   Statements only; proofs are in Cats/LayoutProofs.v (primitives), Cats/StructProofs.v (members, member loops, unions), Cats/StructRoundTrip.v
   (structs, factories, induction on depth) and Cats/StructDecide.v (deciders).
   Left-hand sides: the layout interpreter instantiated with the operators regenerated from ArrayHelpers.py / BaseValue.py (ops_now)
   and the schemas regenerated from the .cats files; right-hand sides: fixed text. *)
From Symv Require Import Base.Bytes Base.PyOps Cats.LayoutInst Cats.LayoutProofs.
Open Scope Z_scope.

(* boundary integers of every width and signedness: what to_bytes writes, from_bytes reads back, whatever follows *)
Theorem int_roundtrip : forall w signed x b rest,
  py_to_bytes w signed x = Ok b -> py_from_bytes w signed (b ++ rest) = x /\ length b = w.
Proof. exact py_int_roundtrip. Qed.
Print Assumptions int_roundtrip.

(* every decoded integer re-encodes (decode-encode-decode stability at the leaves) *)
Theorem decoded_int_in_range : forall w signed buf,
  wf_bytes buf = true -> (1 <= w)%nat -> (w <= length buf)%nat -> int_in_range w signed (py_from_bytes w signed buf) = true.
Proof. exact py_from_bytes_in_range. Qed.
Print Assumptions decoded_int_in_range.

(* ArrayHelpers.align_up (operators regenerated from the source) is the least multiple of the alignment >= size *)
Theorem align_up_is_least_multiple : forall s a, 0 <= s -> 0 < a ->
  align_up_now s a mod a = 0 /\ s <= align_up_now s a < s + a /\ (forall m, m mod a = 0 -> s <= m -> align_up_now s a <= m).
Proof.
  exact (fun s a Hs Ha => conj (proj1 (align_up_spec s a Hs Ha)) (conj (proj2 (align_up_spec s a Hs Ha)) (fun m => align_up_least s a m Hs Ha))).
Qed.
Print Assumptions align_up_is_least_multiple.

(* BaseValue's constructor check (constants and comparisons regenerated) is exactly the declared integer range *)
Theorem base_value_range : forall w signed x, (1 <= w)%nat ->
  base_value_bad_now (Z.of_nat w) signed x = negb (int_in_range w signed x).
Proof. exact base_value_bad_spec. Qed.
Print Assumptions base_value_range.

(* ---- structs: decode (encode v ++ anything) = v, size v = |encode v|, encodings are non-empty ----
   PARTIAL: proved for the fragment `adm` / `admf` of ANY schema (Cats/StructRoundTrip.v), nested to any depth n, for every interpreter
   fuel >= 2n + 1: aliases, enums and CONCRETE structs that are
   - without a parent (flat_struct), or
   - children of an abstract parent whose first member is the @size member (based_struct: the decoder's window [4:size_] and the
     (window_start, window_end) hand-over to the child are part of the proof), or
   - children of an abstract parent WITHOUT @size member (based_nosize_struct, NEM: window [consumed, len(buffer))),
   provided every member is of one of the kinds of Cats/StructProofs.v (`classify`):
     plain / reserved integers; count and byte-size members of arrays; named members of the fragment; byte arrays; counted typed arrays
     (keyed or not) of the fragment;
     sizeof members and the named member they measure (decoded from its first <sizeof> bytes);
     computed (@sizeref) members and the named struct member conditional on them (`X if 0 not equals X_size`: absent <-> None <-> size 0);
     byte arrays conditional on their own size member (`X if N not equals X_size`: absent <-> None <-> size member = N);
     aligned variable-size arrays with their byte-size member (Symbol aggregates' transactions: padding, last-element padding rule);
     fill arrays, aligned or not, as the LAST own member of a struct with a @size window (Symbol blocks' transactions, aggregates'
     cosignatures: inside the window nothing follows the array; from outside the struct still round-trips with anything appended);
     unions guarded by a LATER member (Symbol namespace registration: `X = T if NAME equals link`, T unsigned integer aliases of one
     width, link an enum member, pairwise different constants, exactly the arm selected by the link value present): the dummy read of the
     first arm's type, the queue and the temporary buffer of deserialize are part of the proof (union_ok, fields_rt); the arms must open
     the member list they belong to.
   Members / elements of ABSTRACT static type are decoded through the factory: `admf` accepts a struct value at the abstract parent of its
   class when the discriminator members are plain header members and the factory's lookup (last declared child with the value's
   discriminator constants) yields the value's class; decf_enc_partial is the statement for TFactory.deserialize itself.
   The proof also shows that the size of an admissible value is positive whenever it is defined.
   On the shipped schemas every concrete struct is in the fragment: 80 of the 84 Symbol structs and 33 of the 35 NEM structs (the others
   are the abstract parents Transaction / EmbeddedTransaction / Block / Receipt and Transaction / NonVerifiableTransaction, reached
   through decf_enc_partial); see fragment_examples.
   NOT proved (full statement: the same for every wf schema): constructs no shipped schema uses - fill arrays in structs without @size
   window, unions elsewhere than at the front of a member list or with arms that are not integer aliases, other conditional forms
   (`in` / `not in`, conditions on members of other kinds), conditional members guarded by an inherited member; and the statement
   is about values with in-fuel array lengths (<= 65536 elements).
   The last sentence of the property (decode-encode-decode stability for ANY byte string that decodes) is at the end of this file
   (decoded_admissible_partial ... dec_enc_dec_stable_partial): a decoded value IS admissible, so the theorems below apply to it.
   What remains open there: that the encoding of a decoded value always succeeds (`enc v = Ok b'` is a premise; at the leaves it is
   decoded_int_in_range). *)
From Symv Require Import Cats.StructProofs Cats.StructRoundTrip Cats.StructDecide Cats.StructStable Cats.StructStable2 Gen.SchemaSc Gen.SchemaNc.
Open Scope string_scope.
Open Scope list_scope.
Open Scope Z_scope.

Theorem dec_enc_flat_partial : forall tm n k t v b rest, (2 * n + 1 <= k)%nat -> adm tm n t v -> enc ops_now tm k t v = Ok b ->
  dec ops_now tm k t (b ++ rest) = Ok v /\ size ops_now tm k t v = Ok (Z.of_nat (length b)) /\ (0 < length b)%nat.
Proof. exact (fun tm n k t v b rest Hk => RT_dec tm n k t v b rest Hk). Qed.
Print Assumptions dec_enc_flat_partial.

(* the same through TFactory.deserialize, for values whose static type is an abstract struct of which their class is a child *)
Theorem decf_enc_partial : forall tm n k t v b rest, (2 * n + 1 <= k)%nat -> admf tm n t v -> is_abs tm t = true -> enc ops_now tm k t v = Ok b ->
  decf ops_now tm k t (b ++ rest) = Ok v /\ size ops_now tm k t v = Ok (Z.of_nat (length b)) /\ (0 < length b)%nat.
Proof. exact (fun tm n k t v b rest Hk => RT_decf tm n k t v b rest Hk). Qed.
Print Assumptions decf_enc_partial.

(* the fragment is decidable: membership of a concrete struct / value is a kernel computation *)
Theorem fragment_decidable : forall tm n t v, admb tm n t v = true -> adm tm n t v.
Proof. exact admb_sound. Qed.
Print Assumptions fragment_decidable.
Theorem fragment_decidable_factory : forall tm n t v, admfb tm n t v = true -> admf tm n t v.
Proof. exact admfb_sound. Qed.
Print Assumptions fragment_decidable_factory.

(* non-vacuity on the shipped schemas: a Symbol mosaic, a Symbol address-resolution statement with two entries (counted array of structs),
   a NEM mosaic id (nested struct with a byte array sized by a count member), two Symbol transactions (@size window), a NEM cosignature
   (parent without @size), a NEM mosaic (sizeof + sized member), NEM transfers with and without message (@sizeref + conditional),
   a NEM mosaic definition (levy), NEM namespace registrations with and without parent name (conditional byte array),
   Symbol aggregates (embedded transactions through the factory, padding, cosignatures), a Symbol block with a transaction, a NEM multisig
   transaction (sized inner transaction through the factory), an embedded Symbol / a NEM transfer at their abstract types, Symbol namespace
   registrations with either arm of the union, and an aggregate embedding one are admissible *)
Definition flat_names (tm : list decl) : list string :=
  flat_map (fun d => match d with DStruct s => if flat_structb tm s then [s_name s] else [] | _ => [] end) tm.

Definition ok_names (tm : list decl) : list string :=
  flat_map (fun d => match d with DStruct s => if struct_okb tm s then [s_name s] else [] | _ => [] end) tm.

Example fragment_examples :
  admb sc_schema 1 "UnresolvedMosaic" (VStruct "UnresolvedMosaic" [("mosaic_id", VInt 5); ("amount", VInt 18446744073709551615)]) = true
  /\ admb sc_schema 3 "AddressResolutionStatement"
       (VStruct "AddressResolutionStatement"
          [("unresolved", VBytes (repeat 7 24));
           ("resolution_entries",
            VArr [VStruct "AddressResolutionEntry" [("source", VStruct "ReceiptSource" [("primary_id", VInt 1); ("secondary_id", VInt 2)]); ("resolved_value", VBytes (repeat 1 24))];
                  VStruct "AddressResolutionEntry" [("source", VStruct "ReceiptSource" [("primary_id", VInt 3); ("secondary_id", VInt 4)]); ("resolved_value", VBytes (repeat 2 24))]])]) = true
  /\ admb nc_schema 2 "MosaicId"
       (VStruct "MosaicId" [("namespace_id", VStruct "NamespaceId" [("name", VBytes [110; 101; 109])]); ("name", VBytes [120; 101; 109])]) = true
  /\ admb sc_schema 3 "TransferTransactionV1" (VStruct "TransferTransactionV1" [("signature", (VBytes [69; 207; 232; 97; 12; 136; 121; 72; 24; 59; 228; 55; 188; 39; 101; 102; 243; 131; 91; 5; 241; 18; 91; 115; 139; 177; 81; 201; 114; 44; 210; 198; 66; 230; 232; 100; 3; 192; 175; 237; 167; 104; 50; 63; 109; 124; 199; 44; 158; 164; 134; 8; 178; 42; 19; 225; 175; 215; 140; 249; 14; 111; 32; 219])); ("signer_public_key", (VBytes [17; 88; 171; 71; 240; 76; 225; 252; 44; 113; 224; 148; 84; 131; 159; 195; 106; 155; 72; 139; 254; 102; 210; 58; 2; 193; 14; 22; 205; 62; 251; 47])); ("version", (VInt (1))); ("network", (VInt (104))); ("type", (VInt (16724))); ("fee", (VInt (18446744073709551615))); ("deadline", (VInt (18446744073709551614))); ("recipient_address", (VBytes [126; 242; 252; 65; 173; 222; 243; 162; 55; 98; 214; 15; 133; 66; 11; 18; 99; 79; 116; 6; 145; 164; 181; 125])); ("mosaics", (VArr [(VStruct "UnresolvedMosaic" [("mosaic_id", (VInt (0))); ("amount", (VInt (1)))]); (VStruct "UnresolvedMosaic" [("mosaic_id", (VInt (1))); ("amount", (VInt (0)))]); (VStruct "UnresolvedMosaic" [("mosaic_id", (VInt (8057095391049714991))); ("amount", (VInt (1)))])])); ("message", (VBytes [110; 69; 119; 177; 92; 161; 161]))]) = true
  /\ admb sc_schema 3 "HashLockTransactionV1" (VStruct "HashLockTransactionV1" [("signature", (VBytes [199; 27; 161; 203; 25; 163; 37; 114; 219; 244; 128; 124; 23; 50; 239; 73; 125; 58; 25; 213; 233; 60; 104; 26; 182; 79; 63; 186; 226; 71; 213; 233; 134; 214; 186; 70; 148; 65; 122; 246; 58; 158; 183; 140; 139; 97; 142; 122; 97; 127; 100; 20; 31; 4; 138; 132; 217; 13; 19; 52; 113; 142; 37; 44])); ("signer_public_key", (VBytes [82; 120; 191; 247; 245; 181; 107; 173; 175; 253; 68; 38; 61; 229; 109; 227; 217; 132; 199; 77; 188; 78; 166; 148; 94; 218; 189; 49; 236; 165; 40; 42])); ("version", (VInt (1))); ("network", (VInt (152))); ("type", (VInt (16712))); ("fee", (VInt (18446744073709551614))); ("deadline", (VInt (5721180215677939408))); ("mosaic", (VStruct "UnresolvedMosaic" [("mosaic_id", (VInt (0))); ("amount", (VInt (5604217448433870570)))])); ("duration", (VInt (1))); ("hash", (VBytes [167; 144; 73; 112; 183; 167; 187; 60; 165; 225; 142; 224; 156; 234; 162; 113; 204; 127; 43; 185; 187; 12; 186; 202; 198; 99; 188; 199; 79; 90; 90; 45]))]) = true
  /\ admb nc_schema 3 "CosignatureV1" (VStruct "CosignatureV1" [("type", (VInt (4098))); ("version", (VInt (1))); ("network", (VInt (152))); ("timestamp", (VInt (1930549411))); ("signer_public_key", (VBytes [194; 107; 48; 249; 14; 199; 221; 1; 228; 136; 117; 52; 162; 15; 11; 13; 4; 195; 110; 216; 14; 113; 224; 253; 119; 176; 118; 112; 235; 148; 11; 213])); ("signature", (VBytes [51; 95; 151; 61; 170; 216; 97; 155; 145; 255; 201; 17; 245; 124; 206; 212; 88; 187; 191; 44; 224; 55; 83; 201; 189; 250; 15; 240; 22; 157; 201; 87; 86; 116; 6; 102; 118; 207; 176; 180; 235; 137; 2; 196; 66; 105; 218; 28; 246; 186; 102; 211; 248; 182; 212; 177; 0; 169; 234; 14; 117; 90; 92; 46])); ("fee", (VInt (18446744073709551614))); ("deadline", (VInt (2891000577))); ("other_transaction_hash", (VBytes [42; 8; 231; 7; 143; 127; 137; 56; 94; 176; 148; 35; 85; 81; 130; 86; 139; 150; 232; 164; 254; 242; 58; 12; 159; 197; 175; 215; 96; 132; 55; 129])); ("multisig_account_address", (VBytes [107; 221; 10; 115; 9; 203; 74; 18; 82; 228; 218; 112; 230; 114; 15; 202; 164; 218; 30; 152; 64; 108; 24; 156; 36; 39; 158; 152; 81; 213; 129; 66; 4; 19; 111; 235; 87; 19; 193; 102]))]) = true
  /\ admb nc_schema 3 "Mosaic" (VStruct "Mosaic" [("mosaic_id", (VStruct "MosaicId" [("namespace_id", (VStruct "NamespaceId" [("name", (VBytes [32; 130]))])); ("name", (VBytes [253]))])); ("amount", (VInt (18446744073709551615)))]) = true
  /\ admb nc_schema 4 "TransferTransactionV1" (VStruct "TransferTransactionV1" [("type", (VInt (257))); ("version", (VInt (1))); ("network", (VInt (152))); ("timestamp", (VInt (1930549411))); ("signer_public_key", (VBytes [194; 107; 48; 249; 14; 199; 221; 1; 228; 136; 117; 52; 162; 15; 11; 13; 4; 195; 110; 216; 14; 113; 224; 253; 119; 176; 118; 112; 235; 148; 11; 213])); ("signature", (VBytes [51; 95; 151; 61; 170; 216; 97; 155; 145; 255; 201; 17; 245; 124; 206; 212; 88; 187; 191; 44; 224; 55; 83; 201; 189; 250; 15; 240; 22; 157; 201; 87; 86; 116; 6; 102; 118; 207; 176; 180; 235; 137; 2; 196; 66; 105; 218; 28; 246; 186; 102; 211; 248; 182; 212; 177; 0; 169; 234; 14; 117; 90; 92; 46])); ("fee", (VInt (18446744073709551614))); ("deadline", (VInt (2891000577))); ("recipient_address", (VBytes [42; 8; 231; 7; 143; 127; 137; 56; 94; 176; 148; 35; 85; 81; 130; 86; 139; 150; 232; 164; 254; 242; 58; 12; 159; 197; 175; 215; 96; 132; 55; 129; 107; 221; 10; 115; 9; 203; 74; 18])); ("amount", (VInt (1))); ("message", (VStruct "Message" [("message_type", (VInt (2))); ("message", (VBytes [112; 230; 114; 15; 202; 164; 218; 30; 152; 64; 108; 24; 156; 36; 39; 158]))]))]) = true
  /\ admb nc_schema 4 "TransferTransactionV1" (VStruct "TransferTransactionV1" [("type", (VInt (257))); ("version", (VInt (1))); ("network", (VInt (152))); ("timestamp", (VInt (4294967294))); ("signer_public_key", (VBytes [66; 4; 19; 111; 235; 87; 19; 193; 102; 177; 50; 105; 221; 99; 252; 53; 199; 151; 255; 8; 166; 205; 144; 9; 80; 102; 167; 69; 173; 219; 109; 136])); ("signature", (VBytes [49; 194; 176; 248; 120; 33; 20; 43; 68; 86; 85; 109; 137; 170; 130; 188; 173; 174; 58; 149; 120; 250; 69; 53; 164; 20; 208; 37; 194; 75; 64; 174; 58; 193; 39; 114; 41; 136; 186; 151; 58; 234; 141; 55; 23; 151; 6; 7; 46; 211; 58; 20; 96; 122; 215; 82; 59; 230; 85; 123; 81; 52; 222; 193])); ("fee", (VInt (18446744073709551614))); ("deadline", (VInt (4294967294))); ("recipient_address", (VBytes [244; 161; 51; 106; 162; 20; 13; 5; 151; 163; 230; 200; 160; 204; 32; 32; 162; 233; 57; 128; 110; 240; 182; 132; 93; 106; 157; 101; 126; 184; 41; 143; 45; 229; 46; 173; 116; 199; 157; 21])); ("amount", (VInt (1))); ("message", VNull)]) = true
  /\ admb nc_schema 5 "MosaicDefinition" (VStruct "MosaicDefinition" [("owner_public_key", (VBytes [68; 32; 130; 60; 253; 230; 241; 194; 107; 48; 249; 14; 199; 221; 1; 228; 136; 117; 52; 162; 15; 11; 13; 4; 195; 110; 216; 14; 113; 224; 253; 119])); ("id", (VStruct "MosaicId" [("namespace_id", (VStruct "NamespaceId" [("name", (VBytes [118; 112; 235; 148; 11; 213; 51; 95; 151]))])); ("name", (VBytes [170]))])); ("description", (VBytes [97; 155; 145; 255; 201; 17; 245; 124; 206; 212; 88; 187; 191; 44; 224; 55])); ("properties", (VArr [(VStruct "SizePrefixedMosaicProperty" [("property", (VStruct "MosaicProperty" [("name", (VBytes [189; 250; 15; 240; 22; 157; 201; 87; 86; 116; 6; 102; 118; 207; 176; 180])); ("value", (VBytes [137; 2; 196; 66; 105; 218; 28; 246; 186; 102; 211; 248; 182; 212; 177; 0; 169; 234; 14; 117; 90; 92; 46; 130; 16; 36; 42; 8; 231; 7; 143]))]))]); (VStruct "SizePrefixedMosaicProperty" [("property", (VStruct "MosaicProperty" [("name", (VBytes [137; 56; 94; 176; 148; 35; 85])); ("value", (VBytes [130; 86]))]))])])); ("levy", (VStruct "MosaicLevy" [("transfer_fee_type", (VInt (2))); ("recipient_address", (VBytes [150; 232; 164; 254; 242; 58; 12; 159; 197; 175; 215; 96; 132; 55; 129; 107; 221; 10; 115; 9; 203; 74; 18; 82; 228; 218; 112; 230; 114; 15; 202; 164; 218; 30; 152; 64; 108; 24; 156; 36])); ("mosaic_id", (VStruct "MosaicId" [("namespace_id", (VStruct "NamespaceId" [("name", (VBytes [158]))])); ("name", (VBytes [81; 213; 129; 66; 4; 19; 111; 235]))])); ("fee", (VInt (9387063791620619695)))]))]) = true
  /\ admb nc_schema 3 "NamespaceRegistrationTransactionV1" (VStruct "NamespaceRegistrationTransactionV1" [("type", (VInt (8193))); ("version", (VInt (1))); ("network", (VInt (152))); ("timestamp", (VInt (1930549411))); ("signer_public_key", (VBytes [194; 107; 48; 249; 14; 199; 221; 1; 228; 136; 117; 52; 162; 15; 11; 13; 4; 195; 110; 216; 14; 113; 224; 253; 119; 176; 118; 112; 235; 148; 11; 213])); ("signature", (VBytes [51; 95; 151; 61; 170; 216; 97; 155; 145; 255; 201; 17; 245; 124; 206; 212; 88; 187; 191; 44; 224; 55; 83; 201; 189; 250; 15; 240; 22; 157; 201; 87; 86; 116; 6; 102; 118; 207; 176; 180; 235; 137; 2; 196; 66; 105; 218; 28; 246; 186; 102; 211; 248; 182; 212; 177; 0; 169; 234; 14; 117; 90; 92; 46])); ("fee", (VInt (18446744073709551614))); ("deadline", (VInt (2891000577))); ("rental_fee_sink", (VBytes [42; 8; 231; 7; 143; 127; 137; 56; 94; 176; 148; 35; 85; 81; 130; 86; 139; 150; 232; 164; 254; 242; 58; 12; 159; 197; 175; 215; 96; 132; 55; 129; 107; 221; 10; 115; 9; 203; 74; 18])); ("rental_fee", (VInt (1))); ("name", (VBytes [218; 112; 230; 114; 15; 202; 164; 218; 30; 152; 64; 108; 24; 156; 36; 39; 158; 152; 81; 213; 129; 66; 4; 19; 111; 235; 87; 19; 193; 102; 177])); ("parent_name", (VBytes [105]))]) = true
  /\ admb nc_schema 3 "NamespaceRegistrationTransactionV1" (VStruct "NamespaceRegistrationTransactionV1" [("type", (VInt (8193))); ("version", (VInt (1))); ("network", (VInt (152))); ("timestamp", (VInt (1675297276))); ("signer_public_key", (VBytes [255; 8; 166; 205; 144; 9; 80; 102; 167; 69; 173; 219; 109; 136; 49; 194; 176; 248; 120; 33; 20; 43; 68; 86; 85; 109; 137; 170; 130; 188; 173; 174])); ("signature", (VBytes [58; 149; 120; 250; 69; 53; 164; 20; 208; 37; 194; 75; 64; 174; 58; 193; 39; 114; 41; 136; 186; 151; 58; 234; 141; 55; 23; 151; 6; 7; 46; 211; 58; 20; 96; 122; 215; 82; 59; 230; 85; 123; 81; 52; 222; 193; 150; 129; 244; 161; 51; 106; 162; 20; 13; 5; 151; 163; 230; 200; 160; 204; 32; 32])); ("fee", (VInt (0))); ("deadline", (VInt (0))); ("rental_fee_sink", (VBytes [128; 110; 240; 182; 132; 93; 106; 157; 101; 126; 184; 41; 143; 45; 229; 46; 173; 116; 199; 157; 21; 167; 95; 162; 155; 125; 171; 51; 47; 125; 112; 10; 124; 205; 37; 137; 36; 38; 11; 5])); ("rental_fee", (VInt (18446744073709551614))); ("name", (VBytes [240; 78; 51; 167; 39; 88; 91; 76; 72; 163; 156; 54; 150; 64; 105; 72; 16; 161; 105; 91; 153; 221; 80; 24; 126; 129; 32; 228; 220; 128; 224])); ("parent_name", VNull)]) = true
  /\ admb sc_schema 5 "AggregateCompleteTransactionV2" (VStruct "AggregateCompleteTransactionV2" [("signature", (VBytes [121; 66; 189; 242; 33; 6; 240; 132; 119; 98; 240; 243; 203; 77; 118; 77; 199; 7; 32; 81; 21; 154; 15; 137; 242; 198; 218; 202; 227; 68; 187; 49; 18; 69; 253; 111; 132; 223; 154; 215; 197; 179; 208; 118; 172; 14; 143; 83; 167; 53; 108; 136; 145; 63; 32; 246; 247; 45; 176; 34; 210; 77; 10; 150])); ("signer_public_key", (VBytes [218; 212; 60; 22; 23; 193; 169; 142; 120; 18; 158; 3; 39; 55; 16; 101; 208; 149; 134; 79; 21; 173; 160; 184; 70; 193; 192; 235; 197; 52; 138; 220])); ("version", (VInt (2))); ("network", (VInt (104))); ("type", (VInt (16705))); ("fee", (VInt (18446744073709551614))); ("deadline", (VInt (18446744073709551614))); ("transactions_hash", (VBytes [173; 5; 212; 161; 10; 192; 68; 30; 170; 238; 180; 180; 142; 250; 11; 31; 10; 189; 128; 233; 152; 163; 90; 186; 94; 160; 189; 135; 153; 193; 53; 13])); ("transactions", (VArr [(VStruct "EmbeddedHashLockTransactionV1" [("signer_public_key", (VBytes [158; 113; 137; 122; 167; 95; 222; 49; 52; 164; 170; 114; 224; 86; 40; 172; 111; 230; 138; 115; 61; 17; 97; 161; 93; 142; 174; 43; 176; 66; 215; 149])); ("version", (VInt (1))); ("network", (VInt (152))); ("type", (VInt (16712))); ("mosaic", (VStruct "UnresolvedMosaic" [("mosaic_id", (VInt (18446744073709551615))); ("amount", (VInt (18446744073709551615)))])); ("duration", (VInt (18446744073709551615))); ("hash", (VBytes [18; 211; 79; 102; 2; 244; 222; 113; 16; 233; 147; 174; 116; 34; 146; 61; 125; 23; 17; 101; 220; 25; 6; 246; 61; 87; 153; 122; 10; 211; 27; 58]))]); (VStruct "EmbeddedMosaicDefinitionTransactionV1" [("signer_public_key", (VBytes [64; 129; 244; 31; 180; 113; 101; 62; 61; 87; 122; 140; 65; 3; 249; 204; 25; 138; 127; 137; 216; 26; 242; 165; 0; 28; 64; 23; 63; 25; 35; 247])); ("version", (VInt (1))); ("network", (VInt (152))); ("type", (VInt (16717))); ("id", (VInt (1324017674292317508))); ("duration", (VInt (1))); ("nonce", (VInt (0))); ("flags", (VInt (3))); ("divisibility", (VInt (255)))])])); ("cosignatures", (VArr []))]) = true
  /\ admb sc_schema 5 "AggregateCompleteTransactionV2" (VStruct "AggregateCompleteTransactionV2" [("signature", (VBytes [237; 191; 136; 70; 95; 3; 173; 237; 41; 171; 20; 194; 86; 231; 216; 80; 86; 121; 26; 56; 67; 32; 196; 52; 149; 104; 114; 215; 44; 136; 107; 203; 143; 174; 22; 102; 2; 210; 28; 193; 251; 71; 12; 121; 217; 57; 1; 62; 101; 103; 169; 4; 42; 68; 8; 43; 254; 101; 215; 35; 203; 98; 47; 74])); ("signer_public_key", (VBytes [88; 21; 27; 138; 76; 137; 17; 62; 206; 121; 82; 22; 187; 44; 177; 56; 187; 231; 107; 205; 101; 9; 194; 168; 0; 221; 57; 109; 113; 227; 138; 166])); ("version", (VInt (2))); ("network", (VInt (152))); ("type", (VInt (16705))); ("fee", (VInt (0))); ("deadline", (VInt (7906979794053207490))); ("transactions_hash", (VBytes [177; 127; 33; 217; 118; 49; 205; 190; 189; 71; 148; 87; 132; 15; 25; 88; 134; 84; 61; 75; 6; 24; 31; 230; 106; 199; 150; 7; 181; 145; 72; 246])); ("transactions", (VArr [(VStruct "EmbeddedHashLockTransactionV1" [("signer_public_key", (VBytes [44; 151; 60; 33; 215; 231; 72; 196; 86; 140; 253; 178; 50; 24; 141; 65; 88; 43; 83; 113; 6; 103; 90; 242; 233; 198; 42; 88; 246; 134; 34; 14])); ("version", (VInt (1))); ("network", (VInt (152))); ("type", (VInt (16712))); ("mosaic", (VStruct "UnresolvedMosaic" [("mosaic_id", (VInt (0))); ("amount", (VInt (0)))])); ("duration", (VInt (0))); ("hash", (VBytes [153; 32; 114; 70; 52; 51; 251; 232; 30; 250; 27; 14; 191; 124; 234; 118; 190; 253; 124; 18; 43; 24; 209; 208; 35; 41; 96; 17; 92; 43; 33; 15]))])])); ("cosignatures", (VArr [(VStruct "Cosignature" [("version", (VInt (0))); ("signer_public_key", (VBytes [243; 13; 38; 170; 43; 164; 4; 237; 229; 76; 197; 244; 70; 54; 178; 118; 231; 66; 98; 113; 55; 56; 26; 61; 38; 42; 190; 53; 12; 239; 102; 189])); ("signature", (VBytes [41; 120; 2; 131; 101; 7; 224; 129; 11; 52; 213; 29; 128; 243; 161; 112; 30; 140; 67; 153; 19; 95; 180; 206; 3; 154; 48; 15; 162; 224; 126; 213; 164; 251; 177; 204; 220; 106; 40; 141; 154; 236; 238; 233; 225; 197; 95; 168; 205; 30; 166; 47; 87; 162; 13; 96; 108; 186; 70; 43; 172; 228; 197; 108]))]); (VStruct "Cosignature" [("version", (VInt (0))); ("signer_public_key", (VBytes [171; 38; 9; 215; 240; 116; 165; 50; 237; 1; 145; 105; 36; 114; 5; 161; 21; 46; 76; 168; 83; 49; 206; 202; 199; 69; 182; 183; 138; 103; 164; 197])); ("signature", (VBytes [93; 91; 87; 4; 156; 10; 142; 245; 218; 47; 139; 145; 73; 231; 245; 118; 91; 169; 75; 177; 26; 142; 176; 13; 95; 49; 232; 68; 174; 107; 68; 216; 110; 103; 216; 5; 25; 181; 254; 190; 31; 190; 204; 237; 223; 97; 50; 85; 43; 181; 133; 126; 240; 95; 6; 171; 114; 88; 14; 28; 102; 173; 145; 66]))])]))]) = true
  /\ admb sc_schema 5 "NormalBlockV1" (VStruct "NormalBlockV1" [("signature", (VBytes [68; 32; 130; 60; 253; 230; 241; 194; 107; 48; 249; 14; 199; 221; 1; 228; 136; 117; 52; 162; 15; 11; 13; 4; 195; 110; 216; 14; 113; 224; 253; 119; 176; 118; 112; 235; 148; 11; 213; 51; 95; 151; 61; 170; 216; 97; 155; 145; 255; 201; 17; 245; 124; 206; 212; 88; 187; 191; 44; 224; 55; 83; 201; 189])); ("signer_public_key", (VBytes [250; 15; 240; 22; 157; 201; 87; 86; 116; 6; 102; 118; 207; 176; 180; 235; 137; 2; 196; 66; 105; 218; 28; 246; 186; 102; 211; 248; 182; 212; 177; 0])); ("version", (VInt (1))); ("network", (VInt (152))); ("type", (VInt (33091))); ("height", (VInt (0))); ("timestamp", (VInt (4709343824866098614))); ("difficulty", (VInt (0))); ("generation_hash_proof", (VStruct "VrfProof" [("gamma", (VBytes [42; 8; 231; 7; 143; 127; 137; 56; 94; 176; 148; 35; 85; 81; 130; 86; 139; 150; 232; 164; 254; 242; 58; 12; 159; 197; 175; 215; 96; 132; 55; 129])); ("verification_hash", (VBytes [107; 221; 10; 115; 9; 203; 74; 18; 82; 228; 218; 112; 230; 114; 15; 202])); ("scalar", (VBytes [164; 218; 30; 152; 64; 108; 24; 156; 36; 39; 158; 152; 81; 213; 129; 66; 4; 19; 111; 235; 87; 19; 193; 102; 177; 50; 105; 221; 99; 252; 53; 199]))])); ("previous_block_hash", (VBytes [151; 255; 8; 166; 205; 144; 9; 80; 102; 167; 69; 173; 219; 109; 136; 49; 194; 176; 248; 120; 33; 20; 43; 68; 86; 85; 109; 137; 170; 130; 188; 173])); ("transactions_hash", (VBytes [174; 58; 149; 120; 250; 69; 53; 164; 20; 208; 37; 194; 75; 64; 174; 58; 193; 39; 114; 41; 136; 186; 151; 58; 234; 141; 55; 23; 151; 6; 7; 46])); ("receipts_hash", (VBytes [211; 58; 20; 96; 122; 215; 82; 59; 230; 85; 123; 81; 52; 222; 193; 150; 129; 244; 161; 51; 106; 162; 20; 13; 5; 151; 163; 230; 200; 160; 204; 32])); ("state_hash", (VBytes [32; 162; 233; 57; 128; 110; 240; 182; 132; 93; 106; 157; 101; 126; 184; 41; 143; 45; 229; 46; 173; 116; 199; 157; 21; 167; 95; 162; 155; 125; 171; 51])); ("beneficiary_address", (VBytes [47; 125; 112; 10; 124; 205; 37; 137; 36; 38; 11; 5; 148; 183; 252; 240; 78; 51; 167; 39; 88; 91; 76; 72])); ("fee_multiplier", (VInt (4294967294))); ("transactions", (VArr [(VStruct "MosaicSupplyRevocationTransactionV1" [("signature", (VBytes [150; 64; 105; 72; 16; 161; 105; 91; 153; 221; 80; 24; 126; 129; 32; 228; 220; 128; 224; 232; 5; 202; 173; 87; 132; 248; 12; 213; 9; 31; 181; 70; 64; 70; 132; 141; 203; 205; 88; 45; 119; 248; 3; 90; 162; 224; 115; 122; 160; 253; 245; 115; 211; 172; 140; 112; 24; 36; 188; 81; 104; 159; 152; 153])); ("signer_public_key", (VBytes [190; 84; 237; 43; 63; 193; 90; 79; 128; 218; 111; 26; 253; 201; 178; 196; 84; 20; 46; 130; 51; 136; 42; 71; 41; 227; 123; 195; 221; 203; 84; 166])); ("version", (VInt (1))); ("network", (VInt (152))); ("type", (VInt (17229))); ("fee", (VInt (16773551385332506586))); ("deadline", (VInt (18446744073709551614))); ("source_address", (VBytes [142; 127; 193; 2; 97; 224; 10; 15; 124; 133; 105; 88; 145; 75; 102; 139; 159; 128; 228; 86; 182; 251; 215; 62])); ("mosaic", (VStruct "UnresolvedMosaic" [("mosaic_id", (VInt (16213394913697412707))); ("amount", (VInt (14952222691354432833)))]))]); (VStruct "MosaicGlobalRestrictionTransactionV1" [("signature", (VBytes [12; 60; 6; 151; 69; 38; 191; 159; 223; 182; 165; 0; 63; 226; 230; 179; 156; 204; 173; 252; 57; 193; 195; 104; 1; 142; 101; 236; 209; 156; 87; 230; 101; 184; 1; 199; 218; 207; 172; 34; 252; 126; 148; 10; 208; 79; 203; 138; 91; 37; 5; 178; 135; 210; 155; 77; 236; 132; 248; 86; 239; 23; 138; 50])); ("signer_public_key", (VBytes [216; 35; 181; 34; 226; 10; 84; 82; 47; 205; 141; 155; 106; 106; 121; 170; 137; 35; 38; 188; 239; 25; 86; 152; 138; 182; 118; 200; 204; 88; 247; 132])); ("version", (VInt (1))); ("network", (VInt (104))); ("type", (VInt (16721))); ("fee", (VInt (1))); ("deadline", (VInt (12190350145933724424))); ("mosaic_id", (VInt (18446744073709551615))); ("reference_mosaic_id", (VInt (18446744073709551615))); ("restriction_key", (VInt (4963861507437806081))); ("previous_restriction_value", (VInt (13508985356333750549))); ("new_restriction_value", (VInt (18446744073709551615))); ("previous_restriction_type", (VInt (4))); ("new_restriction_type", (VInt (5)))])]))]) = true
  /\ admb nc_schema 7 "MultisigTransactionV1" (VStruct "MultisigTransactionV1" [("type", (VInt (4100))); ("version", (VInt (1))); ("network", (VInt (152))); ("timestamp", (VInt (1930549411))); ("signer_public_key", (VBytes [194; 107; 48; 249; 14; 199; 221; 1; 228; 136; 117; 52; 162; 15; 11; 13; 4; 195; 110; 216; 14; 113; 224; 253; 119; 176; 118; 112; 235; 148; 11; 213])); ("signature", (VBytes [51; 95; 151; 61; 170; 216; 97; 155; 145; 255; 201; 17; 245; 124; 206; 212; 88; 187; 191; 44; 224; 55; 83; 201; 189; 250; 15; 240; 22; 157; 201; 87; 86; 116; 6; 102; 118; 207; 176; 180; 235; 137; 2; 196; 66; 105; 218; 28; 246; 186; 102; 211; 248; 182; 212; 177; 0; 169; 234; 14; 117; 90; 92; 46])); ("fee", (VInt (18446744073709551614))); ("deadline", (VInt (2891000577))); ("inner_transaction", (VStruct "NonVerifiableMosaicDefinitionTransactionV1" [("type", (VInt (16385))); ("version", (VInt (1))); ("network", (VInt (152))); ("timestamp", (VInt (1153807478))); ("signer_public_key", (VBytes [94; 176; 148; 35; 85; 81; 130; 86; 139; 150; 232; 164; 254; 242; 58; 12; 159; 197; 175; 215; 96; 132; 55; 129; 107; 221; 10; 115; 9; 203; 74; 18])); ("fee", (VInt (1))); ("deadline", (VInt (1))); ("mosaic_definition", (VStruct "MosaicDefinition" [("owner_public_key", (VBytes [218; 112; 230; 114; 15; 202; 164; 218; 30; 152; 64; 108; 24; 156; 36; 39; 158; 152; 81; 213; 129; 66; 4; 19; 111; 235; 87; 19; 193; 102; 177; 50])); ("id", (VStruct "MosaicId" [("namespace_id", (VStruct "NamespaceId" [("name", (VBytes [221; 99; 252; 53; 199; 151; 255]))])); ("name", (VBytes []))])); ("description", (VBytes [205; 144; 9; 80; 102; 167; 69; 173; 219])); ("properties", (VArr [(VStruct "SizePrefixedMosaicProperty" [("property", (VStruct "MosaicProperty" [("name", (VBytes [194])); ("value", (VBytes [248; 120; 33; 20; 43; 68; 86; 85; 109]))]))])])); ("levy", (VStruct "MosaicLevy" [("transfer_fee_type", (VInt (2))); ("recipient_address", (VBytes [170; 130; 188; 173; 174; 58; 149; 120; 250; 69; 53; 164; 20; 208; 37; 194; 75; 64; 174; 58; 193; 39; 114; 41; 136; 186; 151; 58; 234; 141; 55; 23; 151; 6; 7; 46; 211; 58; 20; 96])); ("mosaic_id", (VStruct "MosaicId" [("namespace_id", (VStruct "NamespaceId" [("name", (VBytes [215; 82; 59; 230; 85; 123; 81]))])); ("name", (VBytes [222]))])); ("fee", (VInt (0)))]))])); ("rental_fee_sink", (VBytes [150; 129; 244; 161; 51; 106; 162; 20; 13; 5; 151; 163; 230; 200; 160; 204; 32; 32; 162; 233; 57; 128; 110; 240; 182; 132; 93; 106; 157; 101; 126; 184; 41; 143; 45; 229; 46; 173; 116; 199])); ("rental_fee", (VInt (0)))])); ("cosignatures", (VArr []))]) = true
  /\ admfb sc_schema 4 "EmbeddedTransaction" (VStruct "EmbeddedTransferTransactionV1" [("signer_public_key", (VBytes [68; 32; 130; 60; 253; 230; 241; 194; 107; 48; 249; 14; 199; 221; 1; 228; 136; 117; 52; 162; 15; 11; 13; 4; 195; 110; 216; 14; 113; 224; 253; 119])); ("version", (VInt (1))); ("network", (VInt (104))); ("type", (VInt (16724))); ("recipient_address", (VBytes [235; 148; 11; 213; 51; 95; 151; 61; 170; 216; 97; 155; 145; 255; 201; 17; 245; 124; 206; 212; 88; 187; 191; 44])); ("mosaics", (VArr [(VStruct "UnresolvedMosaic" [("mosaic_id", (VInt (0))); ("amount", (VInt (15494371178580817988)))]); (VStruct "UnresolvedMosaic" [("mosaic_id", (VInt (18446744073709551615))); ("amount", (VInt (0)))])])); ("message", (VBytes [22; 157; 201; 87; 86; 116; 6; 102; 118; 207; 176; 180; 235; 137; 2; 196; 66; 105; 218; 28; 246; 186; 102; 211; 248; 182; 212; 177; 0; 169; 234]))]) = true
  /\ admfb nc_schema 5 "Transaction" (VStruct "TransferTransactionV1" [("type", (VInt (257))); ("version", (VInt (1))); ("network", (VInt (152))); ("timestamp", (VInt (1930549411))); ("signer_public_key", (VBytes [194; 107; 48; 249; 14; 199; 221; 1; 228; 136; 117; 52; 162; 15; 11; 13; 4; 195; 110; 216; 14; 113; 224; 253; 119; 176; 118; 112; 235; 148; 11; 213])); ("signature", (VBytes [51; 95; 151; 61; 170; 216; 97; 155; 145; 255; 201; 17; 245; 124; 206; 212; 88; 187; 191; 44; 224; 55; 83; 201; 189; 250; 15; 240; 22; 157; 201; 87; 86; 116; 6; 102; 118; 207; 176; 180; 235; 137; 2; 196; 66; 105; 218; 28; 246; 186; 102; 211; 248; 182; 212; 177; 0; 169; 234; 14; 117; 90; 92; 46])); ("fee", (VInt (18446744073709551614))); ("deadline", (VInt (2891000577))); ("recipient_address", (VBytes [42; 8; 231; 7; 143; 127; 137; 56; 94; 176; 148; 35; 85; 81; 130; 86; 139; 150; 232; 164; 254; 242; 58; 12; 159; 197; 175; 215; 96; 132; 55; 129; 107; 221; 10; 115; 9; 203; 74; 18])); ("amount", (VInt (1))); ("message", (VStruct "Message" [("message_type", (VInt (2))); ("message", (VBytes [112; 230; 114; 15; 202; 164; 218; 30; 152; 64; 108; 24; 156; 36; 39; 158]))]))]) = true
  /\ admb sc_schema 3 "NamespaceRegistrationTransactionV1" (VStruct "NamespaceRegistrationTransactionV1" [("signature", (VBytes [68; 32; 130; 60; 253; 230; 241; 194; 107; 48; 249; 14; 199; 221; 1; 228; 136; 117; 52; 162; 15; 11; 13; 4; 195; 110; 216; 14; 113; 224; 253; 119; 176; 118; 112; 235; 148; 11; 213; 51; 95; 151; 61; 170; 216; 97; 155; 145; 255; 201; 17; 245; 124; 206; 212; 88; 187; 191; 44; 224; 55; 83; 201; 189])); ("signer_public_key", (VBytes [250; 15; 240; 22; 157; 201; 87; 86; 116; 6; 102; 118; 207; 176; 180; 235; 137; 2; 196; 66; 105; 218; 28; 246; 186; 102; 211; 248; 182; 212; 177; 0])); ("version", (VInt (1))); ("network", (VInt (152))); ("type", (VInt (16718))); ("fee", (VInt (0))); ("deadline", (VInt (4709343824866098614))); ("duration", (VInt (0))); ("parent_id", VNull); ("id", (VInt (0))); ("registration_type", (VInt (0))); ("name", (VBytes []))]) = true
  /\ admb sc_schema 3 "NamespaceRegistrationTransactionV1" (VStruct "NamespaceRegistrationTransactionV1" [("signature", (VBytes [28; 46; 43; 184; 86; 157; 128; 108; 18; 81; 220; 201; 190; 227; 137; 18; 14; 186; 238; 163; 194; 216; 84; 90; 120; 118; 12; 90; 166; 88; 69; 184; 93; 228; 212; 186; 181; 185; 228; 82; 204; 236; 127; 250; 142; 255; 181; 232; 236; 179; 233; 249; 113; 166; 85; 137; 245; 158; 155; 208; 159; 106; 250; 187])); ("signer_public_key", (VBytes [38; 174; 4; 97; 54; 30; 25; 139; 116; 54; 69; 136; 125; 107; 30; 216; 16; 29; 185; 184; 88; 127; 12; 42; 58; 34; 12; 20; 10; 191; 130; 65])); ("version", (VInt (1))); ("network", (VInt (104))); ("type", (VInt (16718))); ("fee", (VInt (0))); ("deadline", (VInt (17908417473389230017))); ("duration", VNull); ("parent_id", (VInt (18446744073709551615))); ("id", (VInt (5276260142712953131))); ("registration_type", (VInt (1))); ("name", (VBytes []))]) = true
  /\ admb sc_schema 5 "AggregateCompleteTransactionV1" (VStruct "AggregateCompleteTransactionV1" [("signature", (VBytes [68; 32; 130; 60; 253; 230; 241; 194; 107; 48; 249; 14; 199; 221; 1; 228; 136; 117; 52; 162; 15; 11; 13; 4; 195; 110; 216; 14; 113; 224; 253; 119; 176; 118; 112; 235; 148; 11; 213; 51; 95; 151; 61; 170; 216; 97; 155; 145; 255; 201; 17; 245; 124; 206; 212; 88; 187; 191; 44; 224; 55; 83; 201; 189])); ("signer_public_key", (VBytes [250; 15; 240; 22; 157; 201; 87; 86; 116; 6; 102; 118; 207; 176; 180; 235; 137; 2; 196; 66; 105; 218; 28; 246; 186; 102; 211; 248; 182; 212; 177; 0])); ("version", (VInt (1))); ("network", (VInt (152))); ("type", (VInt (16705))); ("fee", (VInt (0))); ("deadline", (VInt (4709343824866098614))); ("transactions_hash", (VBytes [36; 42; 8; 231; 7; 143; 127; 137; 56; 94; 176; 148; 35; 85; 81; 130; 86; 139; 150; 232; 164; 254; 242; 58; 12; 159; 197; 175; 215; 96; 132; 55])); ("transactions", (VArr [(VStruct "EmbeddedNamespaceRegistrationTransactionV1" [("signer_public_key", (VBytes [107; 221; 10; 115; 9; 203; 74; 18; 82; 228; 218; 112; 230; 114; 15; 202; 164; 218; 30; 152; 64; 108; 24; 156; 36; 39; 158; 152; 81; 213; 129; 66])); ("version", (VInt (1))); ("network", (VInt (104))); ("type", (VInt (16718))); ("duration", (VInt (15818760844368091717))); ("parent_id", VNull); ("id", (VInt (1))); ("registration_type", (VInt (0))); ("name", (VBytes [102; 177; 50; 105; 221; 99; 252; 53; 199; 151; 255; 8; 166; 205; 144; 9]))]); (VStruct "EmbeddedAccountMosaicRestrictionTransactionV1" [("signer_public_key", (VBytes [69; 173; 219; 109; 136; 49; 194; 176; 248; 120; 33; 20; 43; 68; 86; 85; 109; 137; 170; 130; 188; 173; 174; 58; 149; 120; 250; 69; 53; 164; 20; 208])); ("version", (VInt (1))); ("network", (VInt (104))); ("type", (VInt (16976))); ("restriction_flags", (VInt (32768))); ("restriction_additions", (VArr [(VInt (10150777614497660134))])); ("restriction_deletions", (VArr []))])])); ("cosignatures", (VArr [(VStruct "Cosignature" [("version", (VInt (0))); ("signer_public_key", (VBytes [58; 234; 141; 55; 23; 151; 6; 7; 46; 211; 58; 20; 96; 122; 215; 82; 59; 230; 85; 123; 81; 52; 222; 193; 150; 129; 244; 161; 51; 106; 162; 20])); ("signature", (VBytes [13; 5; 151; 163; 230; 200; 160; 204; 32; 32; 162; 233; 57; 128; 110; 240; 182; 132; 93; 106; 157; 101; 126; 184; 41; 143; 45; 229; 46; 173; 116; 199; 157; 21; 167; 95; 162; 155; 125; 171; 51; 47; 125; 112; 10; 124; 205; 37; 137; 36; 38; 11; 5; 148; 183; 252; 240; 78; 51; 167; 39; 88; 91; 76]))])]))]) = true
  /\ Nat.leb 10 (length (flat_names sc_schema)) = true /\ Nat.leb 5 (length (flat_names nc_schema)) = true
  /\ Nat.leb 80 (length (ok_names sc_schema)) = true /\ Nat.leb 33 (length (ok_names nc_schema)) = true.
Proof. vm_compute. repeat split; reflexivity. Qed.

(* non-vacuity of the theorems above with ALL their premises together (fragment_examples shows admissibility only): the fuel bound, an
   admissible value AND a successful encoding for dec_enc_flat_partial (a Symbol mosaic) and for decf_enc_partial (an embedded hash lock
   at the abstract type EmbeddedTransaction, which is abstract); the premises of int_roundtrip (a signed 16-bit value),
   decoded_int_in_range, align_up_is_least_multiple and base_value_range *)
Example roundtrip_premises_nonvacuous :
  (let v := VStruct "UnresolvedMosaic" [("mosaic_id", VInt 5); ("amount", VInt 18446744073709551615)] in
   (2 * 1 + 1 <= 3)%nat /\ admb sc_schema 1 "UnresolvedMosaic" v = true
   /\ enc ops_now sc_schema 3 "UnresolvedMosaic" v = Ok ([5; 0; 0; 0; 0; 0; 0; 0] ++ repeat 255 8))
  /\ (let v := VStruct "EmbeddedHashLockTransactionV1"
                 [("signer_public_key", VBytes (repeat 7 32)); ("version", VInt 1); ("network", VInt 152); ("type", VInt 16712);
                  ("mosaic", VStruct "UnresolvedMosaic" [("mosaic_id", VInt 5); ("amount", VInt 9)]); ("duration", VInt 1);
                  ("hash", VBytes (repeat 9 32))] in
      (2 * 3 + 1 <= 7)%nat /\ admfb sc_schema 3 "EmbeddedTransaction" v = true /\ is_abs sc_schema "EmbeddedTransaction" = true
      /\ match enc ops_now sc_schema 7 "EmbeddedTransaction" v with Ok b => length b = 104%nat | _ => False end)
  /\ (py_to_bytes 2 true (-2) = Ok [254; 255] /\ py_from_bytes 2 true ([254; 255] ++ [7]) = -2)
  /\ (wf_bytes [254; 255; 7] = true /\ (1 <= 2)%nat /\ (2 <= length [254; 255; 7])%nat)
  /\ (0 <= 83 /\ 0 < 8 /\ align_up_now 83 8 = 88) /\ (1 <= 2)%nat.
Proof. vm_compute. repeat split; try reflexivity; try discriminate; repeat constructor. Qed.
Print Assumptions roundtrip_premises_nonvacuous.

(* ---- decode - encode - decode: the last sentence of the property ("for any byte string that decodes at all ...") ----
   Proofs: Cats/StructStable.v (members and member loops in the decode direction, unions included: whatever deserialize reads for a
   member has the shape its kind demands of values) and Cats/StructStable2.v (structs with and without parent, factories, induction on
   the fuel).
   Premise on the SCHEMA only, pres_schemab tm = true (a kernel computation; true of both shipped schemas, shipped_schemas_stable_fragment):
   integer aliases are unsigned and of positive width, byte aliases and enums of positive width; every CONCRETE struct is in the
   round-trip fragment above (struct_okb), is found under its own name, is found by the factory of its parent when it has one
   (factory_okb), and each of its members satisfies pres_memberb: the members a value carries are settable; count / byte-size / sizeof /
   sizeref members point to a member of the expected kind; conditional struct members have a struct type; the "absent" constant of a
   conditional byte array is not 0; every member of the (non-bitwise) link enum of a union selects one of its arms.
   decoded_admissible_partial / decoded_admissible_factory_partial: whatever T.deserialize / TFactory.deserialize return for ANY buffer
   (no well-formedness premise on the bytes, any fuel k) is an admissible value (admf, depth k / 2) -- all member kinds of the fragment.
   dec_enc_dec_stable_partial / decf_enc_decf_stable_partial: hence, IF the decoded value re-encodes (to b', at any fuel
   K >= 2 (k / 2) + 1, e.g. K = k for odd k), then b' followed by anything decodes to the SAME value, whose size is |b'|; in
   dec_enc_dec_stable_odd_fuel_partial the fuel is the same odd number everywhere and the statement reads as in the property: the second
   decode equals the first and re-encodes to the same bytes.
   PARTIAL because (1) the schema premise is the fragment, not every wf schema; (2) `enc v = Ok b'` is a premise: that the encoding of
   a decoded value always succeeds is NOT proved (in the model it can fail only by OverflowError of a computed size / count member,
   which needs buffers or decoded arrays larger than the member's width - 2^32 bytes for the shipped schemas - or buffers whose
   elements are not bytes); (3) the interpreter's fuel appears: the round-trip theorem needs one level more than decoding (the value
   may have been decoded at a fuel at which dec_enc_flat_partial does not apply), so the two fuels agree only for odd k.
   The re-encoded bytes need not be the decoded ones (stable_premises_nonvacuous: a 3-byte buffer decodes as a 16-byte mosaic; an
   embedded transaction whose size member says 105 re-encodes with 104). *)
Theorem decoded_admissible_partial : forall tm k t buf v, pres_schemab tm = true ->
  dec ops_now tm k t buf = Ok v -> admf tm (Nat.div2 k) t v.
Proof. exact (fun tm k t buf v Hs => dec_admissible tm Hs k t buf v). Qed.
Print Assumptions decoded_admissible_partial.

Theorem decoded_admissible_factory_partial : forall tm k t buf v, pres_schemab tm = true ->
  decf ops_now tm k t buf = Ok v -> admf tm (Nat.div2 k) t v.
Proof. exact (fun tm k t buf v Hs => decf_admissible tm Hs k t buf v). Qed.
Print Assumptions decoded_admissible_factory_partial.

Theorem dec_enc_dec_stable_partial : forall tm k K t buf v b' rest, pres_schemab tm = true ->
  (2 * Nat.div2 k + 1 <= K)%nat -> is_abs tm t = false ->
  dec ops_now tm k t buf = Ok v -> enc ops_now tm K t v = Ok b' ->
  dec ops_now tm K t (b' ++ rest) = Ok v /\ size ops_now tm K t v = Ok (Z.of_nat (length b')) /\ (0 < length b')%nat.
Proof. exact (fun tm k K t buf v b' rest Hs => stable_dec tm Hs k K t buf v b' rest). Qed.
Print Assumptions dec_enc_dec_stable_partial.

Theorem decf_enc_decf_stable_partial : forall tm k K t buf v b' rest, pres_schemab tm = true ->
  (2 * Nat.div2 k + 1 <= K)%nat -> is_abs tm t = true ->
  decf ops_now tm k t buf = Ok v -> enc ops_now tm K t v = Ok b' ->
  decf ops_now tm K t (b' ++ rest) = Ok v /\ size ops_now tm K t v = Ok (Z.of_nat (length b')) /\ (0 < length b')%nat.
Proof. exact (fun tm k K t buf v b' rest Hs => stable_decf tm Hs k K t buf v b' rest). Qed.
Print Assumptions decf_enc_decf_stable_partial.

Theorem dec_enc_dec_stable_odd_fuel_partial : forall tm m t buf v b', pres_schemab tm = true -> is_abs tm t = false ->
  dec ops_now tm (2 * m + 1)%nat t buf = Ok v -> enc ops_now tm (2 * m + 1)%nat t v = Ok b' ->
  (forall rest, dec ops_now tm (2 * m + 1)%nat t (b' ++ rest) = Ok v) /\
  (forall v2, dec ops_now tm (2 * m + 1)%nat t b' = Ok v2 -> v2 = v /\ enc ops_now tm (2 * m + 1)%nat t v2 = Ok b') /\
  size ops_now tm (2 * m + 1)%nat t v = Ok (Z.of_nat (length b')).
Proof. exact (fun tm m t buf v b' Hs => stable_dec_odd tm Hs m t buf v b'). Qed.
Print Assumptions dec_enc_dec_stable_odd_fuel_partial.

(* both shipped schemas meet the schema premise: every concrete struct of Symbol and NEM is covered *)
Example shipped_schemas_stable_fragment : pres_schemab sc_schema = true /\ pres_schemab nc_schema = true.
Proof. vm_compute. split; reflexivity. Qed.
Print Assumptions shipped_schemas_stable_fragment.

(* non-vacuity with ALL premises together, on shipped structs and concrete buffers:
   - a 3-byte buffer decodes as a Symbol UnresolvedMosaic (int.from_bytes of short slices) and re-encodes to 16 bytes
     (dec_enc_dec_stable_partial with k = K = 3, dec_enc_dec_stable_odd_fuel_partial with m = 1; decoded_admissible_partial);
   - an embedded hash lock whose size member says 105, followed by 3 more bytes, decodes through EmbeddedTransactionFactory at the
     fuel of the differential checks (24) and re-encodes at fuel 25 with size 104 (decf_enc_decf_stable_partial,
     decoded_admissible_factory_partial) *)
Example stable_premises_nonvacuous :
  pres_schemab sc_schema = true
  /\ ((2 * Nat.div2 3 + 1 <= 3)%nat /\ is_abs sc_schema "UnresolvedMosaic" = false
      /\ dec ops_now sc_schema 3 "UnresolvedMosaic" [5; 1; 2] = Ok (VStruct "UnresolvedMosaic" [("mosaic_id", VInt 131333); ("amount", VInt 0)])
      /\ enc ops_now sc_schema 3 "UnresolvedMosaic" (VStruct "UnresolvedMosaic" [("mosaic_id", VInt 131333); ("amount", VInt 0)])
         = Ok ([5; 1; 2] ++ repeat 0 13))
  /\ (let buf := [105; 0; 0; 0; 0; 0; 0; 0] ++ repeat 7 32 ++ [0; 0; 0; 0; 1; 152; 72; 65]
                 ++ [6; 0; 0; 0; 0; 0; 0; 0; 9; 0; 0; 0; 0; 0; 0; 0; 1; 0; 0; 0; 0; 0; 0; 0] ++ repeat 9 32 ++ [1; 2; 3] in
      let v := VStruct "EmbeddedHashLockTransactionV1"
                 [("signer_public_key", VBytes (repeat 7 32)); ("version", VInt 1); ("network", VInt 152); ("type", VInt 16712);
                  ("mosaic", VStruct "UnresolvedMosaic" [("mosaic_id", VInt 6); ("amount", VInt 9)]); ("duration", VInt 1);
                  ("hash", VBytes (repeat 9 32))] in
      (2 * Nat.div2 24 + 1 <= 25)%nat /\ is_abs sc_schema "EmbeddedTransaction" = true
      /\ decf ops_now sc_schema 24 "EmbeddedTransaction" buf = Ok v
      /\ match enc ops_now sc_schema 25 "EmbeddedTransaction" v with Ok b' => firstn 8 b' = [104; 0; 0; 0; 0; 0; 0; 0] /\ length b' = 104%nat | _ => False end).
Proof. vm_compute. repeat split; try reflexivity; repeat constructor. Qed.
Print Assumptions stable_premises_nonvacuous.

(* why `enc v = Ok b'` cannot simply be dropped from the theorems above: `bytes` is `list Z` in the model and nothing above asks the
   buffer to consist of bytes; an element outside 0..255 decodes (plain integer members are not range-checked on read) to a value
   that does not re-encode.  For buffers of bytes (wf_bytes) the question is open in the development (see (2) above). *)
Example decoded_reencodes_refuted_for_non_bytes :
  exists buf v, wf_bytes buf = false /\ dec ops_now sc_schema 3 "ReceiptSource" buf = Ok v
                /\ enc ops_now sc_schema 3 "ReceiptSource" v = Crash "OverflowError".
Proof.
  exists [4294967296], (VStruct "ReceiptSource" [("primary_id", VInt 4294967296); ("secondary_id", VInt 0)]).
  vm_compute. repeat split; reflexivity.
Qed.
Print Assumptions decoded_reencodes_refuted_for_non_bytes.

(* ---- the premise `enc v = Ok b'` settled for buffers of BYTES ----
   Proofs: Cats/StructReencode.v (integers read from bytes are in range of their width, also from short slices; sub-buffers; arrays: what
   the readers accepted the writers accept - same keys and order test, padding below the alignment, count = number of elements, byte size
   of a variable-size array <= the view it was read from), Cats/StructReencode2.v (what the member loops leave in the environment, unions
   included), Cats/StructReencode3.v (every member kind of the fragment serialises again), Cats/StructReencode4.v (structs with and
   without parent, factories, induction on the odd fuel).
   Premises on the SCHEMA only: pres_schemab tm = true (above) and reenc_schemab tm lim = true (a kernel computation; true of both
   shipped schemas for lim = 2^32, shipped_schemas_reencode_fragment): member widths are positive; a count / byte-size member names the
   array it is bound to; sizeof, @sizeref and @size members hold every number below lim (+ the sizeref delta); alignments are <= 65536.
   Premise on the BUFFER: wf_bytes buf = true (every element in 0..255).
   Premise on the decoded VALUE: small tm lim v - every sub-object of v (v itself, members, array elements, at any depth) has, whenever
   its size is defined (any fuel, any static type), a size below lim.  For the shipped schemas lim = 2^32: all size-carrying members
   (Symbol: the @size member of transactions, embedded transactions, blocks and receipts, payload_size of aggregates; NEM: the 13 sizeof
   members, message_envelope_size, levy_size) are 4 bytes wide.
   decoded_reencodes_partial / decoded_reencodes_factory_partial: then the decoded value re-encodes at the same (odd) fuel.  Every check
   serialize performs is covered: integer ranges (plain, reserved, enum, alias), count and conditional count members (the count that was
   read, or 0), byte size of aligned variable-size arrays (<= the byte-size member that was read), sizeof / @sizeref / @size members
   (below lim by the premise), sort order of keyed arrays (the reader's test is the writer's), padding, conditional members, union arms.
   dec_enc_dec_stable_bytes_partial / decf_enc_decf_stable_bytes_partial: hence decode - encode - decode is stable WITHOUT the premise
   `enc v = Ok b'`: the decoded value re-encodes to some b', b' (followed by anything) decodes to the same value, which re-encodes to b'.
   The size premise cannot be dropped, and no bound on the buffer length below 2^32 + (a few hundred) replaces it for free: replayed
   on the real codec, nc.TransferTransactionV1.deserialize accepts a buffer of 4294967480 bytes (a valid transfer whose message_size is
   2^32 - 8, followed by that many zero bytes: message.size = 2^32) and serialize() of the result raises OverflowError (int too big to
   convert) at message_envelope_size; with one message byte fewer it re-encodes.  In the model the same needs a list of 2^32 elements,
   which cannot be evaluated; lenient short reads (int.from_bytes of a short slice, elements of counted arrays read from an exhausted
   buffer) make a decoded value LARGER than its buffer, so "length buf < 2^32" alone does not imply small; a bound
   length buf + slack(schema) < 2^32 does (not proved here).
   PARTIAL because (1) the schema premises are the fragment; (2) the fuel is odd and the same on both sides (for even fuels and for
   K > k fuel monotonicity of enc / dec is needed, not proved); (3) small is a premise on the decoded value, not derived from the buffer
   length. *)
From Symv Require Import Cats.StructReencode Cats.StructReencode2 Cats.StructReencode3 Cats.StructReencode4.

Theorem decoded_reencodes_partial : forall tm lim m t buf v, pres_schemab tm = true -> reenc_schemab tm lim = true ->
  is_abs tm t = false -> wf_bytes buf = true -> dec ops_now tm (2 * m + 1) t buf = Ok v -> small tm lim v ->
  exists b', enc ops_now tm (2 * m + 1) t v = Ok b'.
Proof. exact (fun tm lim m t buf v Hs Hr => dec_reencodes tm lim Hs Hr m t buf v). Qed.
Print Assumptions decoded_reencodes_partial.

Theorem decoded_reencodes_factory_partial : forall tm lim m t buf v, pres_schemab tm = true -> reenc_schemab tm lim = true ->
  is_abs tm t = true -> wf_bytes buf = true -> decf ops_now tm (2 * m + 1) t buf = Ok v -> small tm lim v ->
  exists b', enc ops_now tm (2 * m + 1) t v = Ok b'.
Proof. exact (fun tm lim m t buf v Hs Hr => decf_reencodes tm lim Hs Hr m t buf v). Qed.
Print Assumptions decoded_reencodes_factory_partial.

Theorem dec_enc_dec_stable_bytes_partial : forall tm lim m t buf v, pres_schemab tm = true -> reenc_schemab tm lim = true ->
  is_abs tm t = false -> wf_bytes buf = true -> dec ops_now tm (2 * m + 1) t buf = Ok v -> small tm lim v ->
  exists b', enc ops_now tm (2 * m + 1) t v = Ok b' /\
    (forall rest, dec ops_now tm (2 * m + 1) t (b' ++ rest) = Ok v) /\
    (forall v2, dec ops_now tm (2 * m + 1) t b' = Ok v2 -> v2 = v /\ enc ops_now tm (2 * m + 1) t v2 = Ok b') /\
    size ops_now tm (2 * m + 1) t v = Ok (Z.of_nat (length b')).
Proof. exact (fun tm lim m t buf v Hs Hr => dec_stable_bytes tm lim Hs Hr m t buf v). Qed.
Print Assumptions dec_enc_dec_stable_bytes_partial.

Theorem decf_enc_decf_stable_bytes_partial : forall tm lim m t buf v rest, pres_schemab tm = true -> reenc_schemab tm lim = true ->
  is_abs tm t = true -> wf_bytes buf = true -> decf ops_now tm (2 * m + 1) t buf = Ok v -> small tm lim v ->
  exists b', enc ops_now tm (2 * m + 1) t v = Ok b' /\ decf ops_now tm (2 * m + 1) t (b' ++ rest) = Ok v /\
    size ops_now tm (2 * m + 1) t v = Ok (Z.of_nat (length b')) /\ (0 < length b')%nat.
Proof. exact (fun tm lim m t buf v rest Hs Hr => decf_stable_bytes tm lim Hs Hr m t buf v rest). Qed.
Print Assumptions decf_enc_decf_stable_bytes_partial.

(* both shipped schemas meet the second schema premise for lim = 2^32, and their leaf types are smaller than that *)
Example shipped_schemas_reencode_fragment :
  reenc_schemab sc_schema (2 ^ 32) = true /\ reenc_schemab nc_schema (2 ^ 32) = true
  /\ leaf_sizes_below sc_schema (2 ^ 32) = true /\ leaf_sizes_below nc_schema (2 ^ 32) = true.
Proof. vm_compute. repeat split; reflexivity. Qed.
Print Assumptions shipped_schemas_reencode_fragment.

(* the size premise at integers and byte arrays follows from the declared sizes *)
Theorem small_at_leaves : forall tm lim x, leaf_sizes_below tm lim = true -> match x with VInt _ | VBytes _ => True | _ => False end ->
  forall K t sz, size ops_now tm K t x = Ok sz -> sz < lim.
Proof. exact small_leaf. Qed.
Print Assumptions small_at_leaves.

(* non-vacuity with ALL premises together, on shipped structs and concrete buffers of bytes:
   - the 3-byte buffer of stable_premises_nonvacuous decodes as a Symbol UnresolvedMosaic (m = 1) whose sub-objects have sizes 16, 8, 8;
   - the embedded hash lock (size member 105, 3 trailing bytes) decodes through EmbeddedTransactionFactory at fuel 25 (m = 12); its
     sub-objects have sizes 104, 32, 1, 1, 2, 16, 8, 8, 8, 32 *)
Example reencodes_premises_nonvacuous :
  pres_schemab sc_schema = true /\ reenc_schemab sc_schema (2 ^ 32) = true
  /\ (let v := VStruct "UnresolvedMosaic" [("mosaic_id", VInt 131333); ("amount", VInt 0)] in
      is_abs sc_schema "UnresolvedMosaic" = false /\ wf_bytes [5; 1; 2] = true
      /\ dec ops_now sc_schema (2 * 1 + 1) "UnresolvedMosaic" [5; 1; 2] = Ok v /\ small sc_schema (2 ^ 32) v)
  /\ (let buf := [105; 0; 0; 0; 0; 0; 0; 0] ++ repeat 7 32 ++ [0; 0; 0; 0; 1; 152; 72; 65]
                 ++ [6; 0; 0; 0; 0; 0; 0; 0; 9; 0; 0; 0; 0; 0; 0; 0; 1; 0; 0; 0; 0; 0; 0; 0] ++ repeat 9 32 ++ [1; 2; 3] in
      let v := VStruct "EmbeddedHashLockTransactionV1"
                 [("signer_public_key", VBytes (repeat 7 32)); ("version", VInt 1); ("network", VInt 152); ("type", VInt 16712);
                  ("mosaic", VStruct "UnresolvedMosaic" [("mosaic_id", VInt 6); ("amount", VInt 9)]); ("duration", VInt 1);
                  ("hash", VBytes (repeat 9 32))] in
      is_abs sc_schema "EmbeddedTransaction" = true /\ wf_bytes buf = true
      /\ decf ops_now sc_schema (2 * 12 + 1) "EmbeddedTransaction" buf = Ok v /\ small sc_schema (2 ^ 32) v).
Proof.
  assert (Hleaf : leaf_sizes_below sc_schema (2 ^ 32) = true) by (vm_compute; reflexivity).
  split; [vm_compute; reflexivity|]. split; [vm_compute; reflexivity|]. split.
  - cbv zeta. split; [vm_compute; reflexivity|]. split; [vm_compute; reflexivity|]. split; [vm_compute; reflexivity|].
    intros x K t sz Hx Hsz. cbn [subvalues flat_map snd app] in Hx.
    destruct Hx as [<-|Hx].
    { destruct K as [|[|[|K]]]; vm_compute in Hsz; try discriminate. injection Hsz as <-. reflexivity. }
    repeat (destruct Hx as [<-|Hx]; [refine (small_leaf sc_schema (2 ^ 32) _ Hleaf _ K t sz Hsz); exact I|]). destruct Hx.
  - cbv zeta. split; [vm_compute; reflexivity|]. split; [vm_compute; reflexivity|]. split; [vm_compute; reflexivity|].
    intros x K t sz Hx Hsz. cbn [subvalues flat_map snd app] in Hx.
    destruct Hx as [<-|Hx].
    { destruct K as [|[|[|[|[|K]]]]]; vm_compute in Hsz; try discriminate. injection Hsz as <-. reflexivity. }
    do 4 (destruct Hx as [<-|Hx]; [refine (small_leaf sc_schema (2 ^ 32) _ Hleaf _ K t sz Hsz); exact I|]).
    destruct Hx as [<-|Hx].
    { destruct K as [|[|[|K]]]; vm_compute in Hsz; try discriminate. injection Hsz as <-. reflexivity. }
    repeat (destruct Hx as [<-|Hx]; [refine (small_leaf sc_schema (2 ^ 32) _ Hleaf _ K t sz Hsz); exact I|]). destruct Hx.
Qed.
Print Assumptions reencodes_premises_nonvacuous.
