(* C01 -- model codecs round-trip every admissible value and report its exact size.
   Statements only; proofs are in Cats/LayoutProofs.v (primitives) and Cats/LayoutRoundTrip.v (members and structs).
   Left-hand sides: the layout interpreter instantiated with the operators regenerated from ArrayHelpers.py / BaseValue.py (ops_now)
   and the schemas regenerated from the .cats files; right-hand sides: fixed text. *)
From Symv Require Import Base.Bytes Base.PyOps Cats.LayoutInst Cats.LayoutProofs.
Open Scope Z_scope.

(* boundary integers of every width and signedness: what to_bytes writes, from_bytes reads back, whatever follows *)
Theorem int_roundtrip : forall w signed x b rest,
  py_to_bytes w signed x = Ok b -> py_from_bytes w signed (b ++ rest) = x /\ length b = w.
Proof. exact py_int_roundtrip. Qed.
Print Assumptions int_roundtrip.

(* every decoded integer re-encodes (decode-encode-decode stability at the leaves) *)
Theorem decoded_int_in_range : forall w signed buf,
  wf_bytes buf = true -> (1 <= w)%nat -> (w <= length buf)%nat -> int_in_range w signed (py_from_bytes w signed buf) = true.
Proof. exact py_from_bytes_in_range. Qed.
Print Assumptions decoded_int_in_range.

(* ArrayHelpers.align_up (operators regenerated from the source) is the least multiple of the alignment >= size *)
Theorem align_up_is_least_multiple : forall s a, 0 <= s -> 0 < a ->
  align_up_now s a mod a = 0 /\ s <= align_up_now s a < s + a /\ (forall m, m mod a = 0 -> s <= m -> align_up_now s a <= m).
Proof.
  exact (fun s a Hs Ha => conj (proj1 (align_up_spec s a Hs Ha)) (conj (proj2 (align_up_spec s a Hs Ha)) (fun m => align_up_least s a m Hs Ha))).
Qed.
Print Assumptions align_up_is_least_multiple.

(* BaseValue's constructor check (constants and comparisons regenerated) is exactly the declared integer range *)
Theorem base_value_range : forall w signed x, (1 <= w)%nat ->
  base_value_bad_now (Z.of_nat w) signed x = negb (int_in_range w signed x).
Proof. exact base_value_bad_spec. Qed.
Print Assumptions base_value_range.
