(* C01 -- model codecs round-trip every admissible value and report its exact size.
   Statements only; proofs are in Cats/LayoutProofs.v (primitives) and Cats/LayoutRoundTrip.v (members and structs).
   Left-hand sides: the layout interpreter instantiated with the operators regenerated from ArrayHelpers.py / BaseValue.py (ops_now)
   and the schemas regenerated from the .cats files; right-hand sides: fixed text. *)
From Symv Require Import Base.Bytes Base.PyOps Cats.LayoutInst Cats.LayoutProofs.
Open Scope Z_scope.

(* boundary integers of every width and signedness: what to_bytes writes, from_bytes reads back, whatever follows *)
Theorem int_roundtrip : forall w signed x b rest,
  py_to_bytes w signed x = Ok b -> py_from_bytes w signed (b ++ rest) = x /\ length b = w.
Proof. exact py_int_roundtrip. Qed.
Print Assumptions int_roundtrip.

(* every decoded integer re-encodes (decode-encode-decode stability at the leaves) *)
Theorem decoded_int_in_range : forall w signed buf,
  wf_bytes buf = true -> (1 <= w)%nat -> (w <= length buf)%nat -> int_in_range w signed (py_from_bytes w signed buf) = true.
Proof. exact py_from_bytes_in_range. Qed.
Print Assumptions decoded_int_in_range.

(* ArrayHelpers.align_up (operators regenerated from the source) is the least multiple of the alignment >= size *)
Theorem align_up_is_least_multiple : forall s a, 0 <= s -> 0 < a ->
  align_up_now s a mod a = 0 /\ s <= align_up_now s a < s + a /\ (forall m, m mod a = 0 -> s <= m -> align_up_now s a <= m).
Proof.
  exact (fun s a Hs Ha => conj (proj1 (align_up_spec s a Hs Ha)) (conj (proj2 (align_up_spec s a Hs Ha)) (fun m => align_up_least s a m Hs Ha))).
Qed.
Print Assumptions align_up_is_least_multiple.

(* BaseValue's constructor check (constants and comparisons regenerated) is exactly the declared integer range *)
Theorem base_value_range : forall w signed x, (1 <= w)%nat ->
  base_value_bad_now (Z.of_nat w) signed x = negb (int_in_range w signed x).
Proof. exact base_value_bad_spec. Qed.
Print Assumptions base_value_range.

(* ---- structs: decode (encode v ++ anything) = v, size v = |encode v|, encodings are non-empty ----
   PARTIAL: proved for the fragment `adm` of ANY schema (Cats/StructRoundTrip.v), nested to any depth n, for every interpreter fuel >= 2n + 1:
   aliases, enums and CONCRETE structs that are
   - without a parent (flat_struct), or
   - children of an abstract parent whose first member is the @size member (based_struct: the decoder's window [4:size_] and the
     (window_start, window_end) hand-over to the child are part of the proof), or
   - children of an abstract parent WITHOUT @size member (based_nosize_struct, NEM: window [consumed, len(buffer))),
   provided every member is of one of the kinds of Cats/StructProofs.v (`classify`):
     plain / reserved integers; count and byte-size members of arrays; named members of the fragment; byte arrays; counted typed arrays
     (keyed or not) of the fragment;
     sizeof members and the named member they measure (decoded from its first <sizeof> bytes);
     computed (@sizeref) members and the named struct member conditional on them (`X if 0 not equals X_size`: absent <-> None <-> size 0);
     byte arrays conditional on their own size member (`X if N not equals X_size`: absent <-> None <-> size member = N).
   The proof also shows that the size of an admissible value is positive whenever it is defined.
   On the shipped schemas this covers 71 of the 84 Symbol structs (every transaction except the aggregates and namespace
   registration; 4 of the others are abstract) and all 33 concrete NEM structs (35 with the 2 abstract ones); see fragment_examples.
   NOT yet proved (full statement: the same for every wf schema, and TFactory.deserialize for abstract types):
   factory decoding (hence values holding a member / element of ABSTRACT static type: NEM multisig inner transactions, Symbol aggregates
   and blocks), fill arrays, aligned / byte-constrained arrays, conditionals guarded by a LATER member (Symbol namespace registration)
   - those constructs are covered by the correspondence with the generated codecs only. *)
From Symv Require Import Cats.StructProofs Cats.StructRoundTrip Cats.StructDecide Gen.SchemaSc Gen.SchemaNc.
Open Scope string_scope.
Open Scope list_scope.
Open Scope Z_scope.

Theorem dec_enc_flat_partial : forall tm n k t v b rest, (2 * n + 1 <= k)%nat -> adm tm n t v -> enc ops_now tm k t v = Ok b ->
  dec ops_now tm k t (b ++ rest) = Ok v /\ size ops_now tm k t v = Ok (Z.of_nat (length b)) /\ (0 < length b)%nat.
Proof. exact (fun tm n k t v b rest Hk Hadm => proj1 (RT_all tm n k Hk t v Hadm) b rest). Qed.
Print Assumptions dec_enc_flat_partial.

(* the fragment is decidable: membership of a concrete struct / value is a kernel computation *)
Theorem fragment_decidable : forall tm n t v, admb tm n t v = true -> adm tm n t v.
Proof. exact admb_sound. Qed.
Print Assumptions fragment_decidable.

(* non-vacuity on the shipped schemas: a Symbol mosaic, a Symbol address-resolution statement with two entries (counted array of structs),
   a NEM mosaic id (nested struct with a byte array sized by a count member), two Symbol transactions (@size window), a NEM cosignature
   (parent without @size), a NEM mosaic (sizeof + sized member), NEM transfers with and without message (@sizeref + conditional),
   a NEM mosaic definition (levy), NEM namespace registrations with and without parent name (conditional byte array) are admissible *)
Definition flat_names (tm : list decl) : list string :=
  flat_map (fun d => match d with DStruct s => if flat_structb tm s then [s_name s] else [] | _ => [] end) tm.

Definition ok_names (tm : list decl) : list string :=
  flat_map (fun d => match d with DStruct s => if struct_okb tm s then [s_name s] else [] | _ => [] end) tm.

Example fragment_examples :
  admb sc_schema 1 "UnresolvedMosaic" (VStruct "UnresolvedMosaic" [("mosaic_id", VInt 5); ("amount", VInt 18446744073709551615)]) = true
  /\ admb sc_schema 3 "AddressResolutionStatement"
       (VStruct "AddressResolutionStatement"
          [("unresolved", VBytes (repeat 7 24));
           ("resolution_entries",
            VArr [VStruct "AddressResolutionEntry" [("source", VStruct "ReceiptSource" [("primary_id", VInt 1); ("secondary_id", VInt 2)]); ("resolved_value", VBytes (repeat 1 24))];
                  VStruct "AddressResolutionEntry" [("source", VStruct "ReceiptSource" [("primary_id", VInt 3); ("secondary_id", VInt 4)]); ("resolved_value", VBytes (repeat 2 24))]])]) = true
  /\ admb nc_schema 2 "MosaicId"
       (VStruct "MosaicId" [("namespace_id", VStruct "NamespaceId" [("name", VBytes [110; 101; 109])]); ("name", VBytes [120; 101; 109])]) = true
  /\ admb sc_schema 3 "TransferTransactionV1" (VStruct "TransferTransactionV1" [("signature", (VBytes [69; 207; 232; 97; 12; 136; 121; 72; 24; 59; 228; 55; 188; 39; 101; 102; 243; 131; 91; 5; 241; 18; 91; 115; 139; 177; 81; 201; 114; 44; 210; 198; 66; 230; 232; 100; 3; 192; 175; 237; 167; 104; 50; 63; 109; 124; 199; 44; 158; 164; 134; 8; 178; 42; 19; 225; 175; 215; 140; 249; 14; 111; 32; 219])); ("signer_public_key", (VBytes [17; 88; 171; 71; 240; 76; 225; 252; 44; 113; 224; 148; 84; 131; 159; 195; 106; 155; 72; 139; 254; 102; 210; 58; 2; 193; 14; 22; 205; 62; 251; 47])); ("version", (VInt (1))); ("network", (VInt (104))); ("type", (VInt (16724))); ("fee", (VInt (18446744073709551615))); ("deadline", (VInt (18446744073709551614))); ("recipient_address", (VBytes [126; 242; 252; 65; 173; 222; 243; 162; 55; 98; 214; 15; 133; 66; 11; 18; 99; 79; 116; 6; 145; 164; 181; 125])); ("mosaics", (VArr [(VStruct "UnresolvedMosaic" [("mosaic_id", (VInt (0))); ("amount", (VInt (1)))]); (VStruct "UnresolvedMosaic" [("mosaic_id", (VInt (1))); ("amount", (VInt (0)))]); (VStruct "UnresolvedMosaic" [("mosaic_id", (VInt (8057095391049714991))); ("amount", (VInt (1)))])])); ("message", (VBytes [110; 69; 119; 177; 92; 161; 161]))]) = true
  /\ admb sc_schema 3 "HashLockTransactionV1" (VStruct "HashLockTransactionV1" [("signature", (VBytes [199; 27; 161; 203; 25; 163; 37; 114; 219; 244; 128; 124; 23; 50; 239; 73; 125; 58; 25; 213; 233; 60; 104; 26; 182; 79; 63; 186; 226; 71; 213; 233; 134; 214; 186; 70; 148; 65; 122; 246; 58; 158; 183; 140; 139; 97; 142; 122; 97; 127; 100; 20; 31; 4; 138; 132; 217; 13; 19; 52; 113; 142; 37; 44])); ("signer_public_key", (VBytes [82; 120; 191; 247; 245; 181; 107; 173; 175; 253; 68; 38; 61; 229; 109; 227; 217; 132; 199; 77; 188; 78; 166; 148; 94; 218; 189; 49; 236; 165; 40; 42])); ("version", (VInt (1))); ("network", (VInt (152))); ("type", (VInt (16712))); ("fee", (VInt (18446744073709551614))); ("deadline", (VInt (5721180215677939408))); ("mosaic", (VStruct "UnresolvedMosaic" [("mosaic_id", (VInt (0))); ("amount", (VInt (5604217448433870570)))])); ("duration", (VInt (1))); ("hash", (VBytes [167; 144; 73; 112; 183; 167; 187; 60; 165; 225; 142; 224; 156; 234; 162; 113; 204; 127; 43; 185; 187; 12; 186; 202; 198; 99; 188; 199; 79; 90; 90; 45]))]) = true
  /\ admb nc_schema 3 "CosignatureV1" (VStruct "CosignatureV1" [("type", (VInt (4098))); ("version", (VInt (1))); ("network", (VInt (152))); ("timestamp", (VInt (1930549411))); ("signer_public_key", (VBytes [194; 107; 48; 249; 14; 199; 221; 1; 228; 136; 117; 52; 162; 15; 11; 13; 4; 195; 110; 216; 14; 113; 224; 253; 119; 176; 118; 112; 235; 148; 11; 213])); ("signature", (VBytes [51; 95; 151; 61; 170; 216; 97; 155; 145; 255; 201; 17; 245; 124; 206; 212; 88; 187; 191; 44; 224; 55; 83; 201; 189; 250; 15; 240; 22; 157; 201; 87; 86; 116; 6; 102; 118; 207; 176; 180; 235; 137; 2; 196; 66; 105; 218; 28; 246; 186; 102; 211; 248; 182; 212; 177; 0; 169; 234; 14; 117; 90; 92; 46])); ("fee", (VInt (18446744073709551614))); ("deadline", (VInt (2891000577))); ("other_transaction_hash", (VBytes [42; 8; 231; 7; 143; 127; 137; 56; 94; 176; 148; 35; 85; 81; 130; 86; 139; 150; 232; 164; 254; 242; 58; 12; 159; 197; 175; 215; 96; 132; 55; 129])); ("multisig_account_address", (VBytes [107; 221; 10; 115; 9; 203; 74; 18; 82; 228; 218; 112; 230; 114; 15; 202; 164; 218; 30; 152; 64; 108; 24; 156; 36; 39; 158; 152; 81; 213; 129; 66; 4; 19; 111; 235; 87; 19; 193; 102]))]) = true
  /\ admb nc_schema 3 "Mosaic" (VStruct "Mosaic" [("mosaic_id", (VStruct "MosaicId" [("namespace_id", (VStruct "NamespaceId" [("name", (VBytes [32; 130]))])); ("name", (VBytes [253]))])); ("amount", (VInt (18446744073709551615)))]) = true
  /\ admb nc_schema 4 "TransferTransactionV1" (VStruct "TransferTransactionV1" [("type", (VInt (257))); ("version", (VInt (1))); ("network", (VInt (152))); ("timestamp", (VInt (1930549411))); ("signer_public_key", (VBytes [194; 107; 48; 249; 14; 199; 221; 1; 228; 136; 117; 52; 162; 15; 11; 13; 4; 195; 110; 216; 14; 113; 224; 253; 119; 176; 118; 112; 235; 148; 11; 213])); ("signature", (VBytes [51; 95; 151; 61; 170; 216; 97; 155; 145; 255; 201; 17; 245; 124; 206; 212; 88; 187; 191; 44; 224; 55; 83; 201; 189; 250; 15; 240; 22; 157; 201; 87; 86; 116; 6; 102; 118; 207; 176; 180; 235; 137; 2; 196; 66; 105; 218; 28; 246; 186; 102; 211; 248; 182; 212; 177; 0; 169; 234; 14; 117; 90; 92; 46])); ("fee", (VInt (18446744073709551614))); ("deadline", (VInt (2891000577))); ("recipient_address", (VBytes [42; 8; 231; 7; 143; 127; 137; 56; 94; 176; 148; 35; 85; 81; 130; 86; 139; 150; 232; 164; 254; 242; 58; 12; 159; 197; 175; 215; 96; 132; 55; 129; 107; 221; 10; 115; 9; 203; 74; 18])); ("amount", (VInt (1))); ("message", (VStruct "Message" [("message_type", (VInt (2))); ("message", (VBytes [112; 230; 114; 15; 202; 164; 218; 30; 152; 64; 108; 24; 156; 36; 39; 158]))]))]) = true
  /\ admb nc_schema 4 "TransferTransactionV1" (VStruct "TransferTransactionV1" [("type", (VInt (257))); ("version", (VInt (1))); ("network", (VInt (152))); ("timestamp", (VInt (4294967294))); ("signer_public_key", (VBytes [66; 4; 19; 111; 235; 87; 19; 193; 102; 177; 50; 105; 221; 99; 252; 53; 199; 151; 255; 8; 166; 205; 144; 9; 80; 102; 167; 69; 173; 219; 109; 136])); ("signature", (VBytes [49; 194; 176; 248; 120; 33; 20; 43; 68; 86; 85; 109; 137; 170; 130; 188; 173; 174; 58; 149; 120; 250; 69; 53; 164; 20; 208; 37; 194; 75; 64; 174; 58; 193; 39; 114; 41; 136; 186; 151; 58; 234; 141; 55; 23; 151; 6; 7; 46; 211; 58; 20; 96; 122; 215; 82; 59; 230; 85; 123; 81; 52; 222; 193])); ("fee", (VInt (18446744073709551614))); ("deadline", (VInt (4294967294))); ("recipient_address", (VBytes [244; 161; 51; 106; 162; 20; 13; 5; 151; 163; 230; 200; 160; 204; 32; 32; 162; 233; 57; 128; 110; 240; 182; 132; 93; 106; 157; 101; 126; 184; 41; 143; 45; 229; 46; 173; 116; 199; 157; 21])); ("amount", (VInt (1))); ("message", VNull)]) = true
  /\ admb nc_schema 5 "MosaicDefinition" (VStruct "MosaicDefinition" [("owner_public_key", (VBytes [68; 32; 130; 60; 253; 230; 241; 194; 107; 48; 249; 14; 199; 221; 1; 228; 136; 117; 52; 162; 15; 11; 13; 4; 195; 110; 216; 14; 113; 224; 253; 119])); ("id", (VStruct "MosaicId" [("namespace_id", (VStruct "NamespaceId" [("name", (VBytes [118; 112; 235; 148; 11; 213; 51; 95; 151]))])); ("name", (VBytes [170]))])); ("description", (VBytes [97; 155; 145; 255; 201; 17; 245; 124; 206; 212; 88; 187; 191; 44; 224; 55])); ("properties", (VArr [(VStruct "SizePrefixedMosaicProperty" [("property", (VStruct "MosaicProperty" [("name", (VBytes [189; 250; 15; 240; 22; 157; 201; 87; 86; 116; 6; 102; 118; 207; 176; 180])); ("value", (VBytes [137; 2; 196; 66; 105; 218; 28; 246; 186; 102; 211; 248; 182; 212; 177; 0; 169; 234; 14; 117; 90; 92; 46; 130; 16; 36; 42; 8; 231; 7; 143]))]))]); (VStruct "SizePrefixedMosaicProperty" [("property", (VStruct "MosaicProperty" [("name", (VBytes [137; 56; 94; 176; 148; 35; 85])); ("value", (VBytes [130; 86]))]))])])); ("levy", (VStruct "MosaicLevy" [("transfer_fee_type", (VInt (2))); ("recipient_address", (VBytes [150; 232; 164; 254; 242; 58; 12; 159; 197; 175; 215; 96; 132; 55; 129; 107; 221; 10; 115; 9; 203; 74; 18; 82; 228; 218; 112; 230; 114; 15; 202; 164; 218; 30; 152; 64; 108; 24; 156; 36])); ("mosaic_id", (VStruct "MosaicId" [("namespace_id", (VStruct "NamespaceId" [("name", (VBytes [158]))])); ("name", (VBytes [81; 213; 129; 66; 4; 19; 111; 235]))])); ("fee", (VInt (9387063791620619695)))]))]) = true
  /\ admb nc_schema 3 "NamespaceRegistrationTransactionV1" (VStruct "NamespaceRegistrationTransactionV1" [("type", (VInt (8193))); ("version", (VInt (1))); ("network", (VInt (152))); ("timestamp", (VInt (1930549411))); ("signer_public_key", (VBytes [194; 107; 48; 249; 14; 199; 221; 1; 228; 136; 117; 52; 162; 15; 11; 13; 4; 195; 110; 216; 14; 113; 224; 253; 119; 176; 118; 112; 235; 148; 11; 213])); ("signature", (VBytes [51; 95; 151; 61; 170; 216; 97; 155; 145; 255; 201; 17; 245; 124; 206; 212; 88; 187; 191; 44; 224; 55; 83; 201; 189; 250; 15; 240; 22; 157; 201; 87; 86; 116; 6; 102; 118; 207; 176; 180; 235; 137; 2; 196; 66; 105; 218; 28; 246; 186; 102; 211; 248; 182; 212; 177; 0; 169; 234; 14; 117; 90; 92; 46])); ("fee", (VInt (18446744073709551614))); ("deadline", (VInt (2891000577))); ("rental_fee_sink", (VBytes [42; 8; 231; 7; 143; 127; 137; 56; 94; 176; 148; 35; 85; 81; 130; 86; 139; 150; 232; 164; 254; 242; 58; 12; 159; 197; 175; 215; 96; 132; 55; 129; 107; 221; 10; 115; 9; 203; 74; 18])); ("rental_fee", (VInt (1))); ("name", (VBytes [218; 112; 230; 114; 15; 202; 164; 218; 30; 152; 64; 108; 24; 156; 36; 39; 158; 152; 81; 213; 129; 66; 4; 19; 111; 235; 87; 19; 193; 102; 177])); ("parent_name", (VBytes [105]))]) = true
  /\ admb nc_schema 3 "NamespaceRegistrationTransactionV1" (VStruct "NamespaceRegistrationTransactionV1" [("type", (VInt (8193))); ("version", (VInt (1))); ("network", (VInt (152))); ("timestamp", (VInt (1675297276))); ("signer_public_key", (VBytes [255; 8; 166; 205; 144; 9; 80; 102; 167; 69; 173; 219; 109; 136; 49; 194; 176; 248; 120; 33; 20; 43; 68; 86; 85; 109; 137; 170; 130; 188; 173; 174])); ("signature", (VBytes [58; 149; 120; 250; 69; 53; 164; 20; 208; 37; 194; 75; 64; 174; 58; 193; 39; 114; 41; 136; 186; 151; 58; 234; 141; 55; 23; 151; 6; 7; 46; 211; 58; 20; 96; 122; 215; 82; 59; 230; 85; 123; 81; 52; 222; 193; 150; 129; 244; 161; 51; 106; 162; 20; 13; 5; 151; 163; 230; 200; 160; 204; 32; 32])); ("fee", (VInt (0))); ("deadline", (VInt (0))); ("rental_fee_sink", (VBytes [128; 110; 240; 182; 132; 93; 106; 157; 101; 126; 184; 41; 143; 45; 229; 46; 173; 116; 199; 157; 21; 167; 95; 162; 155; 125; 171; 51; 47; 125; 112; 10; 124; 205; 37; 137; 36; 38; 11; 5])); ("rental_fee", (VInt (18446744073709551614))); ("name", (VBytes [240; 78; 51; 167; 39; 88; 91; 76; 72; 163; 156; 54; 150; 64; 105; 72; 16; 161; 105; 91; 153; 221; 80; 24; 126; 129; 32; 228; 220; 128; 224])); ("parent_name", VNull)]) = true
  /\ Nat.leb 10 (length (flat_names sc_schema)) = true /\ Nat.leb 5 (length (flat_names nc_schema)) = true
  /\ Nat.leb 71 (length (ok_names sc_schema)) = true /\ Nat.leb 33 (length (ok_names nc_schema)) = true.
Proof. vm_compute. repeat split; reflexivity. Qed.
