(* C02 -- encoded bytes are exactly the layout the CATS schema prescribes.
   Statements only (proofs in Cats/LayoutLaws.v, Cats/ArrayProofs.v, Cats/LayoutProofs.v). They are laws of the interpreter
   `serialize_field` / `serialize_fields_go` / `load_field` for EVERY schema, struct, member list and value; the member classification
   premises (bound_field, f_cond, is_reserved ...) are computed from the schema alone. *)
From Symv Require Import Base.Bytes Base.PyOps Cats.Layout Cats.LayoutInst Cats.LayoutProofs Cats.LayoutLaws Cats.ArrayProofs Cats.LayoutInstProofs
  Cats.LayoutStatic Gen.SchemaSc Gen.SchemaNc Gen.MerkleOps.
Open Scope string_scope.
Open Scope list_scope.
Open Scope Z_scope.

(* members in declaration order after expansion: the encoding of a member list is the concatenation of the member encodings,
   and member k starts at the sum of the sizes of the members before it *)
Theorem enc_struct_concat : forall OP tm R s allfs total self l1 f l2 b,
  serialize_fields_go OP tm R s allfs total self false (l1 ++ f :: l2) = Ok b ->
  exists b1 bf b2, serialize_fields_go OP tm R s allfs total self false l1 = Ok b1 /\ serialize_field OP tm R s allfs total self false f = Ok bf /\
                   serialize_fields_go OP tm R s allfs total self false l2 = Ok b2 /\ b = b1 ++ bf ++ b2 /\
                   firstn (length bf) (skipn (length b1) b) = bf.
Proof. exact member_offset. Qed.
Print Assumptions enc_struct_concat.

Theorem const_members_not_in_layout : forall tm s f, In f (own_fields tm s) -> is_const f = false.
Proof. exact own_fields_no_const. Qed.
Print Assumptions const_members_not_in_layout.

(* fixed-width little-endian integers with the declared signedness; a value outside the declared range does not encode *)
Theorem int_le : forall OP tm R s allfs total self f i z b, plain_member allfs f -> f_type f = FInt i -> vget self (f_name f) = Some (VInt z) ->
  serialize_field OP tm R s allfs total self false f = Ok b ->
  b = to_le (Z.to_nat (it_size i)) z /\ length b = Z.to_nat (it_size i) /\ from_le b = z mod 2 ^ (8 * Z.of_nat (Z.to_nat (it_size i)))
  /\ int_in_range (Z.to_nat (it_size i)) (negb (it_unsigned i)) z = true.
Proof.
  exact (fun OP tm R s allfs total self f i z b Hp Ht Hv Hs =>
    int_le_bytes _ _ z b (eq_trans (eq_sym (LayoutLaws.int_le OP tm R s allfs total self f i z Hp Ht Hv)) Hs)).
Qed.
Print Assumptions int_le.

(* counts, byte sizes, sizeof and the @size prefix are derived from the data *)
Theorem count_is_length : forall OP tm R s allfs total self f g ga i l, f_cond f = None -> bound_field allfs f = Some g -> f_type f = FInt i ->
  f_array g = Some ga -> (ends_with_count (f_name f) || negb (a_byte_constrained ga) = true) -> vget self (f_name g) = Some (VArr l) ->
  serialize_field OP tm R s allfs total self false f = py_to_bytes (Z.to_nat (it_size i)) (negb (it_unsigned i)) (Z.of_nat (length l)).
Proof. exact LayoutLaws.count_is_length. Qed.
Print Assumptions count_is_length.

Theorem bytes_length_is_size : forall OP tm R s allfs total self f g ga i b, f_cond f = None -> bound_field allfs f = Some g -> f_type f = FInt i ->
  f_array g = Some ga -> (ends_with_count (f_name f) || negb (a_byte_constrained ga) = true) -> vget self (f_name g) = Some (VBytes b) ->
  serialize_field OP tm R s allfs total self false f = py_to_bytes (Z.to_nat (it_size i)) (negb (it_unsigned i)) (Z.of_nat (length b)).
Proof. exact LayoutLaws.bytes_length_is_size. Qed.
Print Assumptions bytes_length_is_size.

Theorem bytesize_is_size : forall OP tm R s allfs total self f g ga i, f_cond f = None -> bound_field allfs f = Some g -> f_type f = FInt i ->
  f_array g = Some ga -> (ends_with_count (f_name f) || negb (a_byte_constrained ga) = false) ->
  serialize_field OP tm R s allfs total self false f = bind (member_size OP tm R self g) (py_to_bytes (Z.to_nat (it_size i)) (negb (it_unsigned i))).
Proof. exact LayoutLaws.bytesize_is_size. Qed.
Print Assumptions bytesize_is_size.

Theorem sizeof_is_size : forall OP tm R s allfs total self f g i, f_cond f = None -> bound_field allfs f = Some g -> f_type f = FInt i ->
  f_array g = None -> is_sizeof f = true ->
  serialize_field OP tm R s allfs total self false f = bind (member_size OP tm R self g) (py_to_bytes (Z.to_nat (it_size i)) (negb (it_unsigned i))).
Proof. exact LayoutLaws.sizeof_is_size. Qed.
Print Assumptions sizeof_is_size.

Theorem size_prefix_is_total : forall OP tm R s allfs total self f i, is_size_first s [f] f = true -> f_type f = FInt i ->
  serialize_field OP tm R s allfs total self true f = py_to_bytes (Z.to_nat (it_size i)) false total.
Proof. exact LayoutLaws.size_prefix_is_total. Qed.
Print Assumptions size_prefix_is_total.

(* the byte size ArrayHelpers.size reports is the number of bytes written, for plain and for aligned arrays *)
Theorem array_size_is_length : forall tm R a (adm : value -> Prop),
  (forall e be rest, adm e -> elem_enc R a e = Ok be ->
     elem_dec tm R a (be ++ rest) = Ok e /\ elem_size R a e = Ok (Z.of_nat (length be)) /\ (0 < length be)%nat) ->
  forall l pw b, Forall adm l -> write_array_go ops_now tm R a pw l (length l) = Ok b ->
  array_size_with ops_now (elem_size R a) l 0 false = Ok (Z.of_nat (length b)).
Proof. exact (fun tm R a adm Hrt => write_size ops_now tm R a adm Hrt). Qed.
Print Assumptions array_size_is_length.

(* reserved members at their constants, and any other value is refused on read *)
Theorem reserved_is_constant : forall OP tm R s allfs total self f i n, f_cond f = None -> bound_field allfs f = None -> is_computed f = false ->
  is_reserved f = true -> f_type f = FInt i -> f_value f = VNum n ->
  serialize_field OP tm R s allfs total self false f = py_to_bytes (Z.to_nat (it_size i)) (negb (it_unsigned i)) n.
Proof. exact LayoutLaws.reserved_is_constant. Qed.
Print Assumptions reserved_is_constant.

Theorem reserved_checked_on_read : forall OP tm R s allfs e f i n buf, is_reserved f = true -> f_type f = FInt i -> f_value f = VNum n ->
  py_from_bytes (Z.to_nat (it_size i)) (negb (it_unsigned i)) buf <> n ->
  load_field OP tm R s allfs e f buf = Crash "AssertionError".
Proof. exact LayoutLaws.reserved_checked_on_read. Qed.
Print Assumptions reserved_checked_on_read.

(* element padding where alignment is declared: zero bytes up to the alignment, between elements; the last element is padded unless skipped *)
Theorem padding_zero_to_alignment : forall tm R a (adm : value -> Prop),
  (forall e be rest, adm e -> elem_enc R a e = Ok be ->
     elem_dec tm R a (be ++ rest) = Ok e /\ elem_size R a e = Ok (Z.of_nat (length be)) /\ (0 < length be)%nat) ->
  forall e l b, adm e -> write_variable ops_now R a (e :: l) = Ok b ->
  exists be br, elem_enc R a e = Ok be /\ write_variable ops_now R a l = Ok br /\
    b = be ++ zeros (Z.to_nat (if skip_last a && match l with [] => true | _ => false end then 0
                               else align_up ops_now (Z.of_nat (length be)) (alignment_of a) - Z.of_nat (length be))) ++ br.
Proof. exact (fun tm R a adm Hrt => write_variable_shape ops_now tm R a adm Hrt). Qed.
Print Assumptions padding_zero_to_alignment.

Theorem aligned_array_roundtrip : forall tm R a (adm : value -> Prop), 0 < alignment_of a ->
  (forall e be rest, adm e -> elem_enc R a e = Ok be ->
     elem_dec tm R a (be ++ rest) = Ok e /\ elem_size R a e = Ok (Z.of_nat (length be)) /\ (0 < length be)%nat) ->
  forall l b fuel, Forall adm l -> (length l <= fuel)%nat -> write_variable ops_now R a l = Ok b ->
  read_variable ops_now tm R a fuel b = Ok l /\ array_size_with ops_now (elem_size R a) l (alignment_of a) (skip_last a) = Ok (Z.of_nat (length b)).
Proof.
  exact (fun tm R a adm Hal Hrt l b fuel Hadm Hfuel Hw =>
    conj (write_read_variable ops_now tm R a adm size_bad_v_now rv_is_last_now rv_overrun_now align_now Hrt Hal l b fuel Hadm Hfuel Hw)
         (write_variable_size ops_now tm R a adm align_now Hrt Hal l b Hadm Hw)).
Qed.
Print Assumptions aligned_array_roundtrip.

(* conditional members are present exactly when their condition holds *)
Theorem conditional_present_iff : forall OP tm R s allfs total self f,
  (is_size_first s [f] f = false -> cond_self tm R allfs self f = Ok false -> serialize_field OP tm R s allfs total self false f = Ok [])
  /\ (forall t v, cond_self tm R allfs self f = Ok true -> bound_field allfs f = None -> f_type f = FName t -> is_reserved f = false ->
        vget self (f_name f) = Some v -> v <> VNull -> serialize_field OP tm R s allfs total self false f = enc_t R t v).
Proof.
  exact (fun OP tm R s allfs total self f =>
    conj (conditional_absent OP tm R s allfs total self f) (fun t v => conditional_present OP tm R s allfs total self f t v)).
Qed.
Print Assumptions conditional_present_iff.

(* per-artefact obligations on the schemas regenerated from the shipped .cats files, against the constants regenerated from SymbolFacade.py *)
Example tx_type_offset :
  offset_of sc_schema "Transaction" "type" = Some (ev2 type_off_op (hdr_w_size + hdr_w_reserved1 + signature_size + public_key_size + hdr_w_reserved2) type_off_skip)
  /\ offset_of sc_schema "Transaction" "version" = Some (hdr_w_size + hdr_w_reserved1 + signature_size + public_key_size + hdr_w_reserved2)
  /\ offset_of sc_schema "Transaction" "type" = Some 110
  /\ offset_of sc_schema "AggregateCompleteTransactionV1" "cosignatures" = None
  /\ option_map (fun o => o + hash256_size - 108) (offset_of sc_schema "AggregateCompleteTransactionV1" "transactions_hash")
     = Some (agg_w_version_network_type + agg_w_max_fee + agg_w_deadline + hash256_size)
  /\ option_map (fun o => o + hash256_size - 108) (offset_of sc_schema "AggregateBondedTransactionV2" "transactions_hash") = Some 52.
Proof. vm_compute. repeat split. Qed.

(* ---- non-vacuity of the member-classification premises, on members of the SHIPPED schemas (regenerated from the .cats files) ----
   ex_knot tm k is the record of element codecs of the interpreter at nesting fuel k; ex_struct / ex_field / ex_array_of pick a struct,
   a member and its array descriptor out of a schema (with dummies when absent, which the Examples below would not survive). *)

Definition ex_knot (tm : list decl) (k : nat) : rec_ops :=
  {| enc_t := enc ops_now tm k; size_t := size ops_now tm k; dec_t := dec ops_now tm k; decf_t := decf ops_now tm k; key_t := key ops_now tm k |}.
Definition ex_struct (tm : list decl) (n : string) : struct :=
  match lookup_struct tm n with
  | Some s => s
  | None => {| s_name := ""; s_disp := SdNone; s_fields := []; s_factory_type := None; s_attrs := None; s_comment := None; s_requires_unaligned := false |}
  end.
Definition ex_field (s : struct) (n : string) : field :=
  match find_field (s_fields s) n with Some f => f | None => InlinePlaceholder "" None end.
Definition ex_array_of (f : field) : array :=
  match f_array f with
  | Some a => a
  | None => {| a_elem := ElName ""; a_size := SzFill; a_sort_key := None; a_byte_constrained := false; a_alignment := None; a_last_padded := None |}
  end.
Definition u32 : intty := {| it_unsigned := true; it_size := 4; it_sizeref := None |}.

Example member_premises_nonvacuous :
  (* int_le, enc_struct_concat: Symbol ReceiptSource { primary_id = uint32, secondary_id = uint32 } *)
  (let s := ex_struct sc_schema "ReceiptSource" in let allfs := struct_fields_nc s in let f := ex_field s "secondary_id" in
   let self := VStruct "ReceiptSource" [("primary_id", VInt 1); ("secondary_id", VInt 2)] in
   plain_member allfs f /\ f_type f = FInt u32 /\ vget self (f_name f) = Some (VInt 2)
   /\ serialize_field ops_now sc_schema (ex_knot sc_schema 3) s allfs 8 self false f = Ok [2; 0; 0; 0]
   /\ allfs = [ex_field s "primary_id"] ++ f :: []
   /\ serialize_fields_go ops_now sc_schema (ex_knot sc_schema 3) s allfs 8 self false allfs = Ok [1; 0; 0; 0; 2; 0; 0; 0]
   /\ In f (own_fields sc_schema s))
  (* count_is_length, bytes_length_is_size, size_prefix_is_total, reserved_is_constant, reserved_checked_on_read: Symbol TransferTransactionV1 *)
  /\ (let s := ex_struct sc_schema "TransferTransactionV1" in let allfs := struct_fields_nc s in
      let self := VStruct "TransferTransactionV1" [("mosaics", VArr [VNull; VNull]); ("message", VBytes [1; 2; 3])] in
      (let f := ex_field s "mosaics_count" in let g := ex_field s "mosaics" in
       f_cond f = None /\ bound_field allfs f = Some g /\ (exists i, f_type f = FInt i) /\ f_array g = Some (ex_array_of g)
       /\ (ends_with_count (f_name f) || negb (a_byte_constrained (ex_array_of g)) = true) /\ vget self (f_name g) = Some (VArr [VNull; VNull])
       /\ serialize_field ops_now sc_schema (ex_knot sc_schema 3) s allfs 0 self false f = Ok [2])
      /\ (let f := ex_field s "message_size" in let g := ex_field s "message" in
          f_cond f = None /\ bound_field allfs f = Some g /\ (exists i, f_type f = FInt i) /\ f_array g = Some (ex_array_of g)
          /\ (ends_with_count (f_name f) || negb (a_byte_constrained (ex_array_of g)) = true) /\ vget self (f_name g) = Some (VBytes [1; 2; 3])
          /\ serialize_field ops_now sc_schema (ex_knot sc_schema 3) s allfs 0 self false f = Ok [3; 0])
      /\ (let f := ex_field s "size" in is_size_first s [f] f = true /\ f_type f = FInt u32
          /\ serialize_field ops_now sc_schema (ex_knot sc_schema 3) s allfs 177 self true f = Ok [177; 0; 0; 0])
      /\ (let f := ex_field s "verifiable_entity_header_reserved_1" in
          f_cond f = None /\ bound_field allfs f = None /\ is_computed f = false /\ is_reserved f = true /\ f_type f = FInt u32 /\ f_value f = VNum 0
          /\ py_from_bytes (Z.to_nat (it_size u32)) (negb (it_unsigned u32)) [1; 0; 0; 0] <> 0))
  (* bytesize_is_size: Symbol aggregate, payload_size measures the byte-constrained array `transactions` *)
  /\ (let s := ex_struct sc_schema "AggregateCompleteTransactionV2" in let allfs := struct_fields_nc s in
      let f := ex_field s "payload_size" in let g := ex_field s "transactions" in
      f_cond f = None /\ bound_field allfs f = Some g /\ f_type f = FInt u32 /\ f_array g = Some (ex_array_of g)
      /\ (ends_with_count (f_name f) || negb (a_byte_constrained (ex_array_of g)) = false))
  (* sizeof_is_size: NEM SizePrefixedMosaicProperty, property_size = sizeof(property) *)
  /\ (let s := ex_struct nc_schema "SizePrefixedMosaicProperty" in let allfs := struct_fields_nc s in
      let f := ex_field s "property_size" in let g := ex_field s "property" in
      f_cond f = None /\ bound_field allfs f = Some g /\ f_type f = FInt u32 /\ f_array g = None /\ is_sizeof f = true)
  (* conditional_present_iff: NEM TransferTransactionV1, `message = Message if 0 not equals message_envelope_size` *)
  /\ (let s := ex_struct nc_schema "TransferTransactionV1" in let allfs := struct_fields_nc s in let f := ex_field s "message" in
      let msg := VStruct "Message" [("message_type", VInt 1); ("message", VBytes [7; 8])] in
      (is_size_first s [f] f = false
       /\ cond_self nc_schema (ex_knot nc_schema 3) allfs (VStruct "TransferTransactionV1" [("message", VNull)]) f = Ok false)
      /\ (cond_self nc_schema (ex_knot nc_schema 3) allfs (VStruct "TransferTransactionV1" [("message", msg)]) f = Ok true
          /\ bound_field allfs f = None /\ f_type f = FName "Message" /\ is_reserved f = false
          /\ vget (VStruct "TransferTransactionV1" [("message", msg)]) (f_name f) = Some msg /\ msg <> VNull)).
Proof.
  vm_compute. repeat split; try reflexivity; try discriminate; try (eexists; reflexivity). auto.
Qed.
Print Assumptions member_premises_nonvacuous.

(* ---- non-vacuity of the array laws (array_size_is_length, padding_zero_to_alignment, aligned_array_roundtrip) on shipped arrays:
   the element round-trip premise is discharged, for the admissibility predicates admf / adm of C01, by the C01 theorems themselves
   (RT_decf for the abstract element type EmbeddedTransaction, RT_dec for UnresolvedMosaic) ---- *)
From Symv Require Import Cats.StructProofs Cats.StructRoundTrip Cats.StructDecide.

Definition ex_embedded (k : Z) : value :=
  VStruct "EmbeddedHashLockTransactionV1"
    [("signer_public_key", VBytes (repeat k 32)); ("version", VInt 1); ("network", VInt 152); ("type", VInt 16712);
     ("mosaic", VStruct "UnresolvedMosaic" [("mosaic_id", VInt 5); ("amount", VInt k)]); ("duration", VInt 1); ("hash", VBytes (repeat 9 32))].
Definition ex_embedded_transfer : value :=
  VStruct "EmbeddedTransferTransactionV1"
    [("signer_public_key", VBytes (repeat 3 32)); ("version", VInt 1); ("network", VInt 152); ("type", VInt 16724);
     ("recipient_address", VBytes (repeat 4 24)); ("mosaics", VArr []); ("message", VBytes [1; 2; 3])].
Definition ex_transactions : array := ex_array_of (ex_field (ex_struct sc_schema "AggregateCompleteTransactionV2") "transactions").
Definition ex_mosaics_arr : array := ex_array_of (ex_field (ex_struct sc_schema "TransferTransactionV1") "mosaics").
Definition ex_mosaic (id amount : Z) : value := VStruct "UnresolvedMosaic" [("mosaic_id", VInt id); ("amount", VInt amount)].

Example array_premises_nonvacuous :
  (* aligned variable-size array (padding_zero_to_alignment, aligned_array_roundtrip): the embedded transactions of a Symbol aggregate *)
  (0 < alignment_of ex_transactions
   /\ (forall e be rest, admf sc_schema 3 "EmbeddedTransaction" e -> elem_enc (ex_knot sc_schema 7) ex_transactions e = Ok be ->
         elem_dec sc_schema (ex_knot sc_schema 7) ex_transactions (be ++ rest) = Ok e
         /\ elem_size (ex_knot sc_schema 7) ex_transactions e = Ok (Z.of_nat (length be)) /\ (0 < length be)%nat)
   /\ Forall (admf sc_schema 3 "EmbeddedTransaction") [ex_embedded_transfer; ex_embedded 2]
   /\ match write_variable ops_now (ex_knot sc_schema 7) ex_transactions [ex_embedded_transfer; ex_embedded 2] with
      | Ok b => length b = (83 + 5 + 104)%nat   (* 83 bytes + 5 bytes of padding, then 104 bytes *)
      | _ => False
      end)
  (* plain counted array (array_size_is_length): the mosaics of a Symbol transfer *)
  /\ ((forall e be rest, adm sc_schema 1 "UnresolvedMosaic" e -> elem_enc (ex_knot sc_schema 3) ex_mosaics_arr e = Ok be ->
         elem_dec sc_schema (ex_knot sc_schema 3) ex_mosaics_arr (be ++ rest) = Ok e
         /\ elem_size (ex_knot sc_schema 3) ex_mosaics_arr e = Ok (Z.of_nat (length be)) /\ (0 < length be)%nat)
      /\ Forall (adm sc_schema 1 "UnresolvedMosaic") [ex_mosaic 1 5; ex_mosaic 2 6]
      /\ match write_array_go ops_now sc_schema (ex_knot sc_schema 3) ex_mosaics_arr None [ex_mosaic 1 5; ex_mosaic 2 6] 2 with
         | Ok b => length b = 32%nat
         | _ => False
         end).
Proof.
  split; [split; [vm_compute; reflexivity|split; [|split]]|split; [|split]].
  - intros e be rest Ha He.
    change (elem_enc (ex_knot sc_schema 7) ex_transactions e) with (enc ops_now sc_schema 7 "EmbeddedTransaction" e) in He.
    change (elem_dec sc_schema (ex_knot sc_schema 7) ex_transactions (be ++ rest)) with (decf ops_now sc_schema 7 "EmbeddedTransaction" (be ++ rest)).
    change (elem_size (ex_knot sc_schema 7) ex_transactions e) with (size ops_now sc_schema 7 "EmbeddedTransaction" e).
    exact (RT_decf sc_schema 3 7 "EmbeddedTransaction" e be rest (le_n 7) Ha eq_refl He).
  - apply Forall_cons; [|apply Forall_cons; [|apply Forall_nil]]; apply admfb_sound; vm_compute; reflexivity.
  - vm_compute. reflexivity.
  - intros e be rest Ha He.
    change (elem_enc (ex_knot sc_schema 3) ex_mosaics_arr e) with (enc ops_now sc_schema 3 "UnresolvedMosaic" e) in He.
    change (elem_dec sc_schema (ex_knot sc_schema 3) ex_mosaics_arr (be ++ rest)) with (dec ops_now sc_schema 3 "UnresolvedMosaic" (be ++ rest)).
    change (elem_size (ex_knot sc_schema 3) ex_mosaics_arr e) with (size ops_now sc_schema 3 "UnresolvedMosaic" e).
    exact (RT_dec sc_schema 1 3 "UnresolvedMosaic" e be rest (le_n 3) Ha He).
  - apply Forall_cons; [|apply Forall_cons; [|apply Forall_nil]]; apply admb_sound; vm_compute; reflexivity.
  - vm_compute. reflexivity.
Qed.
Print Assumptions array_premises_nonvacuous.
