(* C04 -- parser descriptors state exactly what a CATS document declares.
   Only statements; each closed by `exact` of a lemma proved in Cats/SyntaxProofs.v (generic in the regenerated sets) instantiated
   with T_now, the sets regenerated from /repo (Gen/GrammarTerminals.v: keywords, attribute names, widths, operators read off
   catbuffer.lark; Gen/SyntaxOps.v: constants of Comment.__init__, FixedSizeInteger.__init__, CatbufferIndenter, and which shape
   Attribute.__str__ has).  The left-hand side `parse` is the model of create_cats_lark_parser().parse; `render`, `wf_doc` and
   `repo_print` are fixed text of coq/Cats/Syntax.v.

   wf_doc ds (Syntax.wf_doc_with) is lexical / syntactic well-formedness only:
     names in their class (type: upper, lower, alphanumerics; member: lower, [a-z0-9_]+; constant: upper, [A-Z0-9_]+) with the
     minimal lengths the grammar's `+` / `*` give, numerals >= 0, integer widths 8*size in the regenerated width set, attribute
     names in the regenerated sets with the argument shapes of the grammar, condition operators / transforms / alignment options in
     the regenerated sets, struct bodies non-empty, a member without attributes not named `inline`, values that the parser never
     produces absent (sizeref, sort key, alignment of arrays, factory type), import paths without quote / backslash / line break,
     comments non-empty whose LF-separated segments neither begin nor end with a character Comment.__init__ strips, and a free
     comment never directly before an uncommented declaration (it would attach to it). *)
From Symv Require Import Base.Bytes Cats.Ast Cats.Syntax Cats.SyntaxLexProofs Cats.SyntaxProofs Cats.SyntaxRepoProofs.
Open Scope Z_scope.

(* the side conditions on the regenerated sets (prefix-freeness of alternatives tried in one parser state, shapes of keywords,
   the arithmetic of FixedSizeInteger.__init__, the characters Comment.__init__ strips, tab_len > 0) hold for this tree *)
Theorem terminals_ok : terms_ok T_now = true.
Proof. vm_compute. reflexivity. Qed.
Print Assumptions terminals_ok.

(* the round trip, with the two facts about the tree it needs as explicit premises *)
Theorem parse_render_if : forall st ds,
  comment_merged T_now = false -> (st_crlf st = true -> in_set (comment_strip T_now) 13 = true) ->
  wf_style st = true -> wf_doc ds = true -> parse (render st ds) = Ok ds.
Proof. exact (SyntaxProofs.parse_render_with T_now terminals_ok). Qed.
Print Assumptions parse_render_if.

Definition decls_of (items : list item) : list decl :=
  flat_map (fun i => match i with IDecl d => [d] | _ => [] end) items.

(* [core] the grammar of this tree keeps comments inside bodies apart from top-level comments (fails on the shipped grammar:
   a commented member that starts with `inline` / `abstract` is rejected) *)
Theorem parse_render_lf : forall st ds,
  st_crlf st = false -> wf_style st = true -> wf_doc ds = true -> parse (render st ds) = Ok ds.
Proof.
  intros st ds Hlf. apply (parse_render_if st ds); [reflexivity|]. intro H. rewrite H in Hlf. discriminate.
Qed.
Print Assumptions parse_render_lf.

(* [core] the whole DSL in every style, CR LF line ends included (needs Comment.__init__ to strip the carriage return) *)
Theorem parse_render : forall st ds, wf_style st = true -> wf_doc ds = true -> parse (render st ds) = Ok ds.
Proof. intros st ds. apply (parse_render_if st ds); [reflexivity|intros _; reflexivity]. Qed.
Print Assumptions parse_render.

(* one descriptor per declaration, in source order, with the written values *)
Corollary one_descriptor_per_declaration : forall st ds, wf_style st = true -> wf_doc ds = true ->
  exists items, parse (render st ds) = Ok items /\ decls_of items = decls_of ds
    /\ map decl_name (decls_of items) = map decl_name (decls_of ds).
Proof. intros st ds Hst Hwf. exists ds. rewrite (parse_render st ds Hst Hwf). repeat split. Qed.
Print Assumptions one_descriptor_per_declaration.

(* [core] print-back: printing the parsed declarations back with the repo's own __str__ methods (layout `repo_print`, see
   harness/checks/c04.py) and parsing again yields the same declarations and imports (free comments are not statements and are
   not printed).  Needs Attribute.__str__ to skip lark's None placeholders (D4) -- the `reflexivity` on attr_str_skips_none fails
   on a tree without that repair.
   `_partial`: the FULL statement has no premise `no_not_arguments ds`; it is false for the implementation: an attribute argument
   that is the property name `not` (e.g. @size(not)) is printed as a qualifier (`@size()`), and a pinned test
   (test_can_create_attribute_with_multiple_values_and_negations) fixes that behaviour -- known finding
   `attribute-str-takes-property-named-not-for-negation`. *)
Theorem parse_repo_str_partial : forall ds,
  wf_doc ds = true -> no_not_arguments ds = true -> strip_free_comments ds <> [] ->
  parse (repo_print ds) = Ok (strip_free_comments ds).
Proof.
  intros ds. apply (SyntaxRepoProofs.parse_repo_str_with T_now ds terminals_ok); [reflexivity|reflexivity|vm_compute; reflexivity].
Qed.
Print Assumptions parse_repo_str_partial.

(* non-vacuity: a document with every kind of statement is well-formed and is printed / parsed as expected *)
Example parse_render_example :
  let ds := [IComment "free"%string;
             IImport "types.cats"%string;
             IDecl (DAlias "Hash256"%string (LBuffer 32) (Some "a hash"%string));
             IDecl (DEnum "Color"%string {| it_unsigned := true; it_size := 1; it_sizeref := None |}
                      [{| ev_name := "RED"%string; ev_value := 255; ev_comment := None |}] None None);
             IDecl (DStruct {| s_name := "Pair"%string; s_disp := SdAbstract;
                               s_fields := [Field "size"%string (FInt {| it_unsigned := false; it_size := 4; it_sizeref := None |}) VNone DispNone None None;
                                            InlinePlaceholder "Base"%string None];
                               s_factory_type := None; s_attrs := None; s_comment := None; s_requires_unaligned := false |})] in
  wf_doc ds = true /\ wf_style default_style = true.
Proof. vm_compute. split; reflexivity. Qed.

(* non-vacuity of parse_repo_str_partial (ALL premises together) and of the round-trip theorems on a document that also carries struct
   and member attributes, a conditional member, an array and an enum: it is well-formed, has no attribute argument `not`, has statements
   left after dropping free comments, and both texts parse back *)
Definition attributed_doc : list item :=
  [IComment "free"%string;
   IImport "types.cats"%string;
   IDecl (DAlias "Hash256"%string (LBuffer 32) (Some "a hash"%string));
   IDecl (DEnum "Color"%string {| it_unsigned := true; it_size := 1; it_sizeref := None |}
            [{| ev_name := "RED"%string; ev_value := 255; ev_comment := None |}] None None);
   IDecl (DStruct {| s_name := "Pair"%string; s_disp := SdNone;
                     s_fields := [Field "size"%string (FInt {| it_unsigned := false; it_size := 4; it_sizeref := None |}) VNone DispNone None None;
                                  Field "count"%string (FInt {| it_unsigned := true; it_size := 1; it_sizeref := None |}) VNone DispNone None None;
                                  Field "items"%string
                                    (FArray {| a_elem := ElName "Hash256"%string; a_size := SzName "count"%string; a_sort_key := None;
                                               a_byte_constrained := false; a_alignment := None; a_last_padded := None |})
                                    VNone DispNone (Some [{| at_name := "is_byte_constrained"%string; at_values := [] |}]) (Some "the items"%string);
                                  Field "color"%string (FName "Color"%string) VNone DispNone None None;
                                  Field "extra"%string (FName "Hash256"%string)
                                    (VCond {| c_value := CvName "RED"%string; c_op := "equals"%string; c_link := "color"%string |}) DispNone None None];
                     s_factory_type := None;
                     s_attrs := Some [{| at_name := "size"%string; at_values := [AvStr "size"%string] |};
                                      {| at_name := "is_aligned"%string; at_values := [] |}];
                     s_comment := Some "a pair"%string; s_requires_unaligned := false |})].

Example premises_nonvacuous :
  wf_doc attributed_doc = true /\ wf_style default_style = true /\ no_not_arguments attributed_doc = true
  /\ strip_free_comments attributed_doc <> []
  /\ parse (render default_style attributed_doc) = Ok attributed_doc
  /\ parse (repo_print attributed_doc) = Ok (strip_free_comments attributed_doc).
Proof. vm_compute. repeat split; try reflexivity. discriminate. Qed.
Print Assumptions premises_nonvacuous.
