(* C17 -- multi-file schemas resolve every import once, in dependency order; the CLI's exit status.
   Only statements; each closed by `exact` of a lemma proved in Cats/ResolveProofs.v.  The left-hand functions (parse, main,
   exit_flow) are the model of catparser/__main__.py instantiated with the holes regenerated from /repo (Gen/ResolveOps.v:
   the membership test guarding re-processing, the tree names compared against the rule names of catbuffer.lark, the index of
   the import path, the exit constants); the right-hand specifications (reach, dfs_spec, before, the exit-status table) are
   fixed text. *)
From Symv Require Import Cats.Resolve Cats.ResolveProofs Cats.ResolveProofs2.
Open Scope list_scope.

(* per-run obligation on the regenerated holes *)
Theorem holes_intended : ops_ok ops_now.
Proof. vm_compute. repeat split; reflexivity. Qed.
Print Assumptions holes_intended.

(* every file reachable through imports contributes its declarations exactly once, and nothing else contributes *)
Theorem resolve_once : forall fs files root ds processed,
  parse ops_now files fs root = Done ds processed ->
  exists order, ds = decls_at fs order /\ NoDup order /\ forall q, In q order <-> reach fs root q.
Proof. exact (ResolveProofs.resolve_once ops_now holes_intended). Qed.
Print Assumptions resolve_once.

(* the result is the post-order depth-first listing, imports taken in import order *)
Theorem resolve_order : forall fs files root ds processed,
  parse ops_now files fs root = Done ds processed -> exists order, dfs_spec fs root order /\ ds = decls_at fs order.
Proof. exact (ResolveProofs.resolve_order ops_now holes_intended). Qed.
Print Assumptions resolve_order.

(* ... and that listing is unique *)
Theorem dfs_spec_unique : forall fs root order1 order2, dfs_spec fs root order1 -> dfs_spec fs root order2 -> order2 = order1.
Proof. exact (fun fs root o1 o2 H1 H2 => match H1, H2 with ex_intro _ v1 D1, ex_intro _ v2 D2 => proj1 (proj1 (dfs_deterministic fs) _ _ _ _ D1 _ _ D2) end). Qed.
Print Assumptions dfs_spec_unique.

(* declaratively: whatever a file imports comes before the file's own declarations, unless the import leads back to the file *)
Theorem resolve_imports_first : forall fs files root ds processed,
  parse ops_now files fs root = Done ds processed ->
  exists order, ds = decls_at fs order /\
    forall q items r, In q order -> fs q = Parsed items -> In r (imports_of items) -> ~ reach fs r q -> before r q order.
Proof. exact (ResolveProofs.resolve_imports_first ops_now holes_intended). Qed.
Print Assumptions resolve_imports_first.

(* fuel #files + 1 suffices on any import graph, cycles included *)
Theorem resolve_terminates : forall fs files root,
  (forall p items, fs p = Parsed items -> In p files) -> parse ops_now files fs root <> OutOfFuel.
Proof. exact (ResolveProofs.resolve_terminates ops_now holes_intended). Qed.
Print Assumptions resolve_terminates.

(* parsing succeeds exactly when every reachable file exists and parses *)
Theorem resolve_succeeds_iff : forall fs files root,
  (forall p items, fs p = Parsed items -> In p files) ->
  ((exists ds processed, parse ops_now files fs root = Done ds processed)
   <-> (forall q, reach fs root q -> exists items, fs q = Parsed items)).
Proof. exact (ResolveProofs.resolve_succeeds_iff ops_now holes_intended). Qed.
Print Assumptions resolve_succeeds_iff.

(* exit status of main as a function of what happened *)
Theorem exit_code_spec : forall st pre_ok post_ok output_requested generator_requested generator_ok,
  let code := fst (exit_flow ops_now st pre_ok post_ok output_requested generator_requested generator_ok) in
  let written := snd (exit_flow ops_now st pre_ok post_ok output_requested generator_requested generator_ok) in
  (code = 0%Z <-> st = PSOk /\ pre_ok = true /\ post_ok = true /\ (output_requested && generator_requested = true -> generator_ok = true))
  /\ (code = 2%Z <-> st = PSOk /\ (pre_ok = false \/ post_ok = false))
  /\ (st <> PSOk -> code = 1%Z)
  /\ (written = true <-> code = 0%Z /\ output_requested = true).
Proof. exact (ResolveProofs.exit_code_spec ops_now holes_intended). Qed.
Print Assumptions exit_code_spec.

(* the same, composed with resolution and validation *)
Theorem main_exit_spec : forall fs files root output_requested generator_requested generator_ok,
  (forall p items, fs p = Parsed items -> In p files) ->
  let all_parse := forall q, reach fs root q -> exists items, fs q = Parsed items in
  let ds := match parse ops_now files fs root with Done ds _ => ds | _ => [] end in
  let code := fst (main ops_now files fs root output_requested generator_requested generator_ok) in
  let written := snd (main ops_now files fs root output_requested generator_requested generator_ok) in
  (code = 0%Z <-> all_parse /\ validate_pre ds = true /\ validate_post ds = true
                  /\ (output_requested && generator_requested = true -> generator_ok = true))
  /\ (code = 2%Z <-> all_parse /\ (validate_pre ds = false \/ validate_post ds = false))
  /\ (~ all_parse -> code = 1%Z)
  /\ (written = true <-> code = 0%Z /\ output_requested = true).
Proof. exact (ResolveProofs.main_exit_spec ops_now holes_intended). Qed.
Print Assumptions main_exit_spec.

(* the result is THE declaration list of the unique depth-first order -- of every order meeting the specification, not of some *)
Theorem resolve_result_unique : forall fs files root ds processed order,
  parse ops_now files fs root = Done ds processed -> dfs_spec fs root order -> ds = decls_at fs order.
Proof. exact (ResolveProofs2.resolve_result_unique ops_now holes_intended). Qed.
Print Assumptions resolve_result_unique.

(* the root file's own declarations come last, after everything it (transitively) imports, and the root is listed once *)
Theorem resolve_root_last : forall fs files root ds processed,
  parse ops_now files fs root = Done ds processed ->
  exists before_root, ~ In root before_root /\ ds = decls_at fs before_root ++ decls_of (items_at fs root).
Proof. exact (ResolveProofs2.resolve_root_last ops_now holes_intended). Qed.
Print Assumptions resolve_root_last.

(* a failed parse has a cause reachable from the root: a missing file (the caught error) or an unparsable one (the uncaught) *)
Theorem resolve_failure_cause : forall fs files root e,
  parse ops_now files fs root = Failed e ->
  exists q, reach fs root q /\ match e with FCaught => fs q = Missing | FUncaught => fs q = Unparsable end.
Proof. exact (ResolveProofs.resolve_failure_cause ops_now holes_intended). Qed.
Print Assumptions resolve_failure_cause.

(* non-vacuity: a diamond (a -> b, c; b -> d; c -> d, a) with a cycle through the root, a self-import and a repeated import *)
Open Scope string_scope.
Example resolve_example :
  let D n := Decl {| dname := n; drefs := []; dpost_ok := true |} in
  let table := [("a", Parsed [Import "b"; Import "c"; Import "b"; D "A"]); ("b", Parsed [Import "d"]);
                ("c", Parsed [Comment; Import "d"; Import "a"; Import "c"; D "C1"; D "C2"]); ("d", Parsed [D "D"])] in
  map dname (match parse ops_now (map fst table) (fs_of table) "a" with Done ds _ => ds | _ => [] end) = ["D"; "C1"; "C2"; "A"]
  /\ main ops_now (map fst table) (fs_of table) "a" true false true = (0%Z, true)
  /\ main ops_now (map fst table) (fs_of table) "e" true false true = (1%Z, false)
  /\ main ops_now ["x"] (fs_of [("x", Parsed [Decl {| dname := "X"; drefs := ["Y"]; dpost_ok := true |}])]) "x" true false true
     = (2%Z, false).
Proof. vm_compute. repeat split; reflexivity. Qed.

(* non-vacuity of the premise `forall p items, fs p = Parsed items -> In p files` (resolve_terminates, resolve_succeeds_iff,
   main_exit_spec): it holds for EVERY finite file table with files := the listed paths -- in particular for the table of
   resolve_example, on which `parse` is `Done` (the premise of resolve_once / resolve_order / resolve_imports_first) *)
Lemma files_premise_nonvacuous : forall table p items, fs_of table p = Parsed items -> In p (map fst table).
Proof.
  induction table as [|[q f] rest IH]; intros p items H; cbn [fs_of] in H; [discriminate|].
  cbn [map fst In]. destruct (String.eqb p q) eqn:E; [left; symmetry; apply String.eqb_eq; exact E|right; exact (IH p items H)].
Qed.
Print Assumptions files_premise_nonvacuous.
