(* C15 -- the generator compiles any supported-dialect schema into a conforming codec.
   Statements only; proofs are in Cats/DialectProofs.v.  The round-trip / size / layout / canonical-order theorems of C01, C02 and C12 are stated
   over the layout interpreter for ANY schema term; this file adds what "schema of the dialect" means on the model side:
   wf_schema (Cats/Dialect.v), a boolean, fuel-free check of an expanded schema -- every reference resolves to an EARLIER declaration (no by-value
   cycle), widths in {1,2,4,8}, size/count members unsigned, declared before and binding exactly one array, sizeof targets size-implicit structs,
   the @size member first and unsigned, children extend their parent's members in order, discriminators and initializers complete, conditionals
   in the three shipped styles, sort keys resolve, aligned variable arrays only of abstract parents, fill arrays last in a size-prefixed struct.
   Left-hand sides: the interpreter (with any operator record) applied to the schema; sc_schema / nc_schema are regenerated from the .cats files
   on every run.  Per generated program the check additionally has the kernel evaluate wf_schema <its regenerated schema term> = true. *)
From Symv Require Import Base.Bytes Base.PyOps Cats.LayoutInst Cats.Dialect Cats.DialectProofs Gen.SchemaSc Gen.SchemaNc.
Open Scope string_scope.

(* both shipped schemas (regenerated from /repo at this run) are in the dialect: a kernel computation *)
Theorem wf_shipped : wf_schema sc_schema = true /\ wf_schema nc_schema = true.
Proof. exact wf_shipped_both. Qed.
Print Assumptions wf_shipped.

(* wf_schema holds exactly when no named condition is reported (the names are what the harness prints for a failing generated program) *)
Theorem wf_report_complete : forall tm, wf_report_go tm [] tm = [] <-> wf_schema tm = true.
Proof. exact wf_report_empty_iff. Qed.
Print Assumptions wf_report_complete.

(* every struct of a well-formed schema has each member classified into a supported case of the interpreter, on both sides *)
Theorem wf_members_classified : forall tm s, wf_schema tm = true -> In (DStruct s) tm ->
  layout_serialize_ok tm s = true /\ layout_deserialize_ok tm s = true.
Proof. exact wf_members_supported. Qed.
Print Assumptions wf_members_classified.

(* serialize side, one member: a classified member never takes an Unsupported branch of generate_serialize_field's model -- for every value,
   every first/total, whatever the codecs of the member types do (as long as they do not answer Unsupported themselves) *)
Theorem wf_no_unsupported_serialize_field : forall OP tm R s allfs total self first f,
  ((forall t v, enc_t R t v <> Crash "Unsupported") /\ (forall t v, size_t R t v <> Crash "Unsupported") /\ (forall t v, key_t R t v <> Crash "Unsupported")) ->
  ser_static_ok tm s allfs f = true ->
  serialize_field OP tm R s allfs total self first f <> Crash "Unsupported".
Proof. exact (fun OP tm R s allfs total self first f HR H => ser_static_no_unsupported OP tm R HR s allfs total self first f H). Qed.
Print Assumptions wf_no_unsupported_serialize_field.

(* deserialize side, one member: the same for generate_deserialize_field's model (load + condition), for every buffer and environment *)
Theorem wf_no_unsupported_deserialize_field : forall OP tm R s allfs e f buf,
  ((forall t b, dec_t R t b <> Crash "Unsupported") /\ (forall t b, decf_t R t b <> Crash "Unsupported")
   /\ (forall t v, size_t R t v <> Crash "Unsupported") /\ (forall t v, key_t R t v <> Crash "Unsupported")) ->
  des_static_ok tm allfs f = true ->
  deserialize_field OP tm R s allfs e f buf <> Crash "Unsupported".
Proof. exact (fun OP tm R s allfs e f buf HR H => nu_deserialize_field OP tm R HR s allfs e f buf H). Qed.
Print Assumptions wf_no_unsupported_deserialize_field.

(* whole codecs -- serialize, size, deserialize, factory deserialize: for a well-formed schema, ANY value, ANY buffer, ANY type name, ANY
   nesting fuel -- never Unsupported.  Premise: the sort-key view does not answer Unsupported (it does only for a comparer member holding a value
   of the wrong shape, which no admissible value has). *)
Theorem wf_no_unsupported_partial : forall OP tm, wf_schema tm = true ->
  (forall fuel t v, key OP tm fuel t v <> Crash "Unsupported") ->
  forall fuel t v b,
    enc OP tm fuel t v <> Crash "Unsupported" /\ size OP tm fuel t v <> Crash "Unsupported"
    /\ dec OP tm fuel t b <> Crash "Unsupported" /\ decf OP tm fuel t b <> Crash "Unsupported".
Proof. exact codecs_no_unsupported_all. Qed.
Print Assumptions wf_no_unsupported_partial.

(* non-vacuity: outside wf_schema the Unsupported outcome is reachable (array of 16-bit ints), and wf_schema rejects that schema *)
Example wf_excludes_something :
  enc ops_now bad_schema type_fuel "Ho" (VStruct "Ho" [("ws", VArr [VInt 1%Z; VInt 2%Z])]) = Crash "Unsupported" /\ wf_schema bad_schema = false.
Proof. exact unsupported_reachable. Qed.
Print Assumptions wf_excludes_something.

(* ---- non-vacuity of the premises ---- *)
From Symv Require Import Cats.Layout.
From Coq Require Import String List.

(* a schema without @comparer structs satisfies the key premise of wf_no_unsupported_partial (for every operator record) *)

Definition no_comparer (tm : list decl) : bool :=
  forallb (fun d => match d with DStruct s => match find_attr (s_attrs s) "comparer" with None => true | Some _ => false end | _ => true end) tm.

Lemma key_premise_without_comparer : forall OP tm, no_comparer tm = true -> forall fuel t v, key OP tm fuel t v <> Crash "Unsupported".
Proof.
  intros OP tm Hn fuel t v. destruct fuel as [|k]; [discriminate|]. cbn [key].
  destruct (lookup tm t) as [d|] eqn:E; [|discriminate].
  destruct d as [n l c|n b vs a c|s].
  - destruct l; destruct v; discriminate.
  - destruct v; discriminate.
  - destruct v; try discriminate.
    assert (Hs : find_attr (s_attrs s) "comparer" = None).
    { unfold lookup in E. apply find_some in E. destruct E as [Hin _]. unfold no_comparer in Hn. rewrite forallb_forall in Hn.
      specialize (Hn _ Hin). cbn in Hn. destruct (find_attr (s_attrs s) "comparer"); [discriminate|reflexivity]. }
    rewrite Hs. discriminate.
Qed.

(* PARTIAL: the premise on `key` holds for every schema without a @comparer struct (proved above) but is false for schemas that have
   one (see the refutation example below): the FULL statement - the same conclusion for every well-formed schema with the premise
   restricted to comparer members holding values of their declared shape - is not proved.
   non-vacuity of wf_no_unsupported_partial on the shipped SYMBOL schema: it is well-formed and has no @comparer struct, so the key premise
   holds and the conclusion is obtained for every fuel, type name, value and buffer *)
Example wf_no_unsupported_nonvacuous_on_symbol :
  wf_schema sc_schema = true /\ (forall fuel t v, key ops_now sc_schema fuel t v <> Crash "Unsupported")
  /\ (forall fuel t v b,
        enc ops_now sc_schema fuel t v <> Crash "Unsupported" /\ size ops_now sc_schema fuel t v <> Crash "Unsupported"
        /\ dec ops_now sc_schema fuel t b <> Crash "Unsupported" /\ decf ops_now sc_schema fuel t b <> Crash "Unsupported").
Proof.
  assert (Hk : forall fuel t v, key ops_now sc_schema fuel t v <> Crash "Unsupported").
  { apply key_premise_without_comparer. vm_compute. reflexivity. }
  split; [exact (proj1 wf_shipped_both)|]. split; [exact Hk|].
  exact (codecs_no_unsupported_all ops_now sc_schema (proj1 wf_shipped_both) Hk).
Qed.
Print Assumptions wf_no_unsupported_nonvacuous_on_symbol.

(* FINDING (kept visible): on the shipped NEM schema the key premise of wf_no_unsupported_partial is FALSE.  nc_schema is well-formed, but the
   sort-key view of a MultisigAccountModification whose `modification_type` member holds a byte string (a value of the wrong shape) answers
   Unsupported, and the premise quantifies over ALL values.  Hence wf_no_unsupported_partial says nothing about nc_schema (nor about any schema
   with a @comparer struct that has a member of a named type): its statement is weaker than the comment above it ("whole codecs ... for a
   well-formed schema, ANY value").  The per-member theorems wf_no_unsupported_serialize_field / _deserialize_field and
   wf_members_classified do apply to nc_schema.  A full-strength statement would restrict the premise (or the conclusion for the keyed-array
   members) to values whose comparer members have the declared shape. *)
Example wf_no_unsupported_key_premise_refuted_on_nem :
  wf_schema nc_schema = true
  /\ key ops_now nc_schema 1 "MultisigAccountModification"
       (VStruct "MultisigAccountModification" [("modification_type", VBytes []); ("cosignatory_public_key", VBytes [1%Z])])
     = Crash "Unsupported"
  /\ ~ (forall fuel t v, key ops_now nc_schema fuel t v <> Crash "Unsupported").
Proof.
  split; [exact (proj2 wf_shipped_both)|]. split; [vm_compute; reflexivity|].
  intro H. apply (H 1%nat "MultisigAccountModification"
    (VStruct "MultisigAccountModification" [("modification_type", VBytes []); ("cosignatory_public_key", VBytes [1%Z])])).
  vm_compute. reflexivity.
Qed.
Print Assumptions wf_no_unsupported_key_premise_refuted_on_nem.

(* non-vacuity of the per-member theorems: a codec record that never answers Unsupported, and the members of the shipped Symbol transfer
   transaction, all statically classified on both sides *)
Example field_premises_nonvacuous :
  let R := {| enc_t := fun _ _ => Ok []; size_t := fun _ _ => Ok 0%Z; dec_t := fun _ _ => Reject; decf_t := fun _ _ => Reject;
              key_t := fun _ _ => Crash "TypeError" |} in
  ((forall t v, enc_t R t v <> Crash "Unsupported") /\ (forall t v, size_t R t v <> Crash "Unsupported") /\ (forall t v, key_t R t v <> Crash "Unsupported"))
  /\ ((forall t b, dec_t R t b <> Crash "Unsupported") /\ (forall t b, decf_t R t b <> Crash "Unsupported")
      /\ (forall t v, size_t R t v <> Crash "Unsupported") /\ (forall t v, key_t R t v <> Crash "Unsupported"))
  /\ match lookup_struct sc_schema "TransferTransactionV1" with
     | Some s => forallb (ser_static_ok sc_schema s (struct_fields_nc s)) (struct_fields_nc s) = true
                 /\ forallb (des_static_ok sc_schema (struct_fields_nc s)) (struct_fields_nc s) = true
     | None => False
     end.
Proof. split; [repeat split; discriminate|]. split; [repeat split; discriminate|]. vm_compute. split; reflexivity. Qed.
Print Assumptions field_premises_nonvacuous.
