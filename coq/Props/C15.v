(* C15 -- the generator compiles any supported-dialect schema into a conforming codec.
   Statements only; proofs are in Cats/DialectProofs.v and Cats/DialectKeyProofs.v.  The round-trip / size / layout / canonical-order theorems of C01, C02 and C12 are stated
   over the layout interpreter for ANY schema term; this file adds what "schema of the dialect" means on the model side:
   wf_schema (Cats/Dialect.v), a boolean, fuel-free check of an expanded schema -- every reference resolves to an EARLIER declaration (no by-value
   cycle), widths in {1,2,4,8}, size/count members unsigned, declared before and binding exactly one array, sizeof targets size-implicit structs,
   the @size member first and unsigned, children extend their parent's members in order, discriminators and initializers complete, conditionals
   in the three shipped styles, sort keys resolve, aligned variable arrays only of abstract parents, fill arrays last in a size-prefixed struct.
   Left-hand sides: the interpreter (with any operator record) applied to the schema; sc_schema / nc_schema are regenerated from the .cats files
   on every run.  Per generated program the check additionally has the kernel evaluate wf_schema <its regenerated schema term> = true. *)
From Symv Require Import Base.Bytes Base.PyOps Cats.LayoutInst Cats.Dialect Cats.DialectProofs Gen.SchemaSc Gen.SchemaNc.
Open Scope string_scope.

(* both shipped schemas (regenerated from /repo at this run) are in the dialect: a kernel computation *)
Theorem wf_shipped : wf_schema sc_schema = true /\ wf_schema nc_schema = true.
Proof. exact wf_shipped_both. Qed.
Print Assumptions wf_shipped.

(* wf_schema holds exactly when no named condition is reported (the names are what the harness prints for a failing generated program) *)
Theorem wf_report_complete : forall tm, wf_report_go tm [] tm = [] <-> wf_schema tm = true.
Proof. exact wf_report_empty_iff. Qed.
Print Assumptions wf_report_complete.

(* every struct of a well-formed schema has each member classified into a supported case of the interpreter, on both sides *)
Theorem wf_members_classified : forall tm s, wf_schema tm = true -> In (DStruct s) tm ->
  layout_serialize_ok tm s = true /\ layout_deserialize_ok tm s = true.
Proof. exact wf_members_supported. Qed.
Print Assumptions wf_members_classified.

(* serialize side, one member: a classified member never takes an Unsupported branch of generate_serialize_field's model -- for every value,
   every first/total, whatever the codecs of the member types do (as long as they do not answer Unsupported themselves) *)
Theorem wf_no_unsupported_serialize_field : forall OP tm R s allfs total self first f,
  ((forall t v, enc_t R t v <> Crash "Unsupported") /\ (forall t v, size_t R t v <> Crash "Unsupported") /\ (forall t v, key_t R t v <> Crash "Unsupported")) ->
  ser_static_ok tm s allfs f = true ->
  serialize_field OP tm R s allfs total self first f <> Crash "Unsupported".
Proof. exact (fun OP tm R s allfs total self first f HR H => ser_static_no_unsupported OP tm R HR s allfs total self first f H). Qed.
Print Assumptions wf_no_unsupported_serialize_field.

(* deserialize side, one member: the same for generate_deserialize_field's model (load + condition), for every buffer and environment *)
Theorem wf_no_unsupported_deserialize_field : forall OP tm R s allfs e f buf,
  ((forall t b, dec_t R t b <> Crash "Unsupported") /\ (forall t b, decf_t R t b <> Crash "Unsupported")
   /\ (forall t v, size_t R t v <> Crash "Unsupported") /\ (forall t v, key_t R t v <> Crash "Unsupported")) ->
  des_static_ok tm allfs f = true ->
  deserialize_field OP tm R s allfs e f buf <> Crash "Unsupported".
Proof. exact (fun OP tm R s allfs e f buf HR H => nu_deserialize_field OP tm R HR s allfs e f buf H). Qed.
Print Assumptions wf_no_unsupported_deserialize_field.

(* whole codecs -- serialize, size, deserialize, factory deserialize: for a well-formed schema, ANY value, ANY buffer, ANY type name, ANY
   nesting fuel -- never Unsupported.  Premise: the sort-key view does not answer Unsupported (it does only for a comparer member holding a value
   of the wrong shape, which no admissible value has).  PARTIAL because of that premise; the FULL theorem is wf_no_unsupported at the end of
   this file (dialect = wf_schema_full, values = value_admissible, no premise on the key view). *)
Theorem wf_no_unsupported_partial : forall OP tm, wf_schema tm = true ->
  (forall fuel t v, key OP tm fuel t v <> Crash "Unsupported") ->
  forall fuel t v b,
    enc OP tm fuel t v <> Crash "Unsupported" /\ size OP tm fuel t v <> Crash "Unsupported"
    /\ dec OP tm fuel t b <> Crash "Unsupported" /\ decf OP tm fuel t b <> Crash "Unsupported".
Proof. exact codecs_no_unsupported_all. Qed.
Print Assumptions wf_no_unsupported_partial.

(* non-vacuity: outside wf_schema the Unsupported outcome is reachable (array of 16-bit ints), and wf_schema rejects that schema *)
Example wf_excludes_something :
  enc ops_now bad_schema type_fuel "Ho" (VStruct "Ho" [("ws", VArr [VInt 1%Z; VInt 2%Z])]) = Crash "Unsupported" /\ wf_schema bad_schema = false.
Proof. exact unsupported_reachable. Qed.
Print Assumptions wf_excludes_something.

(* ---- non-vacuity of the premises ---- *)
From Symv Require Import Cats.Layout.
From Coq Require Import String List.

(* a schema without @comparer structs satisfies the key premise of wf_no_unsupported_partial (for every operator record) *)

Definition no_comparer (tm : list decl) : bool :=
  forallb (fun d => match d with DStruct s => match find_attr (s_attrs s) "comparer" with None => true | Some _ => false end | _ => true end) tm.

Lemma key_premise_without_comparer : forall OP tm, no_comparer tm = true -> forall fuel t v, key OP tm fuel t v <> Crash "Unsupported".
Proof.
  intros OP tm Hn fuel t v. destruct fuel as [|k]; [discriminate|]. cbn [key].
  destruct (lookup tm t) as [d|] eqn:E; [|discriminate].
  destruct d as [n l c|n b vs a c|s].
  - destruct l; destruct v; discriminate.
  - destruct v; discriminate.
  - destruct v; try discriminate.
    assert (Hs : find_attr (s_attrs s) "comparer" = None).
    { unfold lookup in E. apply find_some in E. destruct E as [Hin _]. unfold no_comparer in Hn. rewrite forallb_forall in Hn.
      specialize (Hn _ Hin). cbn in Hn. destruct (find_attr (s_attrs s) "comparer"); [discriminate|reflexivity]. }
    rewrite Hs. discriminate.
Qed.

(* PARTIAL: the premise on `key` holds for every schema without a @comparer struct (proved above) but is false for schemas that have
   one (see the refutation example below): the FULL statement - the same conclusion for every well-formed schema with the premise
   restricted to comparer members holding values of their declared shape - is wf_no_unsupported at the end of this file.
   non-vacuity of wf_no_unsupported_partial on the shipped SYMBOL schema: it is well-formed and has no @comparer struct, so the key premise
   holds and the conclusion is obtained for every fuel, type name, value and buffer *)
Example wf_no_unsupported_nonvacuous_on_symbol :
  wf_schema sc_schema = true /\ (forall fuel t v, key ops_now sc_schema fuel t v <> Crash "Unsupported")
  /\ (forall fuel t v b,
        enc ops_now sc_schema fuel t v <> Crash "Unsupported" /\ size ops_now sc_schema fuel t v <> Crash "Unsupported"
        /\ dec ops_now sc_schema fuel t b <> Crash "Unsupported" /\ decf ops_now sc_schema fuel t b <> Crash "Unsupported").
Proof.
  assert (Hk : forall fuel t v, key ops_now sc_schema fuel t v <> Crash "Unsupported").
  { apply key_premise_without_comparer. vm_compute. reflexivity. }
  split; [exact (proj1 wf_shipped_both)|]. split; [exact Hk|].
  exact (codecs_no_unsupported_all ops_now sc_schema (proj1 wf_shipped_both) Hk).
Qed.
Print Assumptions wf_no_unsupported_nonvacuous_on_symbol.

(* FINDING (kept visible): on the shipped NEM schema the key premise of wf_no_unsupported_partial is FALSE.  nc_schema is well-formed, but the
   sort-key view of a MultisigAccountModification whose `modification_type` member holds a byte string (a value of the wrong shape) answers
   Unsupported, and the premise quantifies over ALL values.  Hence wf_no_unsupported_partial says nothing about nc_schema (nor about any schema
   with a @comparer struct that has a member of a named type): its statement is weaker than the comment above it ("whole codecs ... for a
   well-formed schema, ANY value").  The per-member theorems wf_no_unsupported_serialize_field / _deserialize_field and
   wf_members_classified do apply to nc_schema.  A full-strength statement would restrict the premise (or the conclusion for the keyed-array
   members) to values whose comparer members have the declared shape. *)
Example wf_no_unsupported_key_premise_refuted_on_nem :
  wf_schema nc_schema = true
  /\ key ops_now nc_schema 1 "MultisigAccountModification"
       (VStruct "MultisigAccountModification" [("modification_type", VBytes []); ("cosignatory_public_key", VBytes [1%Z])])
     = Crash "Unsupported"
  /\ ~ (forall fuel t v, key ops_now nc_schema fuel t v <> Crash "Unsupported").
Proof.
  split; [exact (proj2 wf_shipped_both)|]. split; [vm_compute; reflexivity|].
  intro H. apply (H 1%nat "MultisigAccountModification"
    (VStruct "MultisigAccountModification" [("modification_type", VBytes []); ("cosignatory_public_key", VBytes [1%Z])])).
  vm_compute. reflexivity.
Qed.
Print Assumptions wf_no_unsupported_key_premise_refuted_on_nem.

(* non-vacuity of the per-member theorems: a codec record that never answers Unsupported, and the members of the shipped Symbol transfer
   transaction, all statically classified on both sides *)
Example field_premises_nonvacuous :
  let R := {| enc_t := fun _ _ => Ok []; size_t := fun _ _ => Ok 0%Z; dec_t := fun _ _ => Reject; decf_t := fun _ _ => Reject;
              key_t := fun _ _ => Crash "TypeError" |} in
  ((forall t v, enc_t R t v <> Crash "Unsupported") /\ (forall t v, size_t R t v <> Crash "Unsupported") /\ (forall t v, key_t R t v <> Crash "Unsupported"))
  /\ ((forall t b, dec_t R t b <> Crash "Unsupported") /\ (forall t b, decf_t R t b <> Crash "Unsupported")
      /\ (forall t v, size_t R t v <> Crash "Unsupported") /\ (forall t v, key_t R t v <> Crash "Unsupported"))
  /\ match lookup_struct sc_schema "TransferTransactionV1" with
     | Some s => forallb (ser_static_ok sc_schema s (struct_fields_nc s)) (struct_fields_nc s) = true
                 /\ forallb (des_static_ok sc_schema (struct_fields_nc s)) (struct_fields_nc s) = true
     | None => False
     end.
Proof. split; [repeat split; discriminate|]. split; [repeat split; discriminate|]. vm_compute. split; reflexivity. Qed.
Print Assumptions field_premises_nonvacuous.

(* ================= the whole codecs WITHOUT the premise on the key view (proofs: Cats/DialectKeyProofs.v) =================
   Why the premise of wf_no_unsupported_partial fails on NEM: Layout.key, on a @comparer struct, reads each untransformed member of a named type
   (enum / alias) and answers Unsupported when the value found there is not an int / byte string; wf_schema's `comparer` condition already
   restricts the DECLARATION (members exist, transforms only on byte aliases, untransformed members are int / enum / alias), so what is left is a
   value ground: an object carrying, say, a byte string where the enum value belongs.  The premise of the partial theorem quantifies over all
   values and is therefore false for every schema with such a comparer.  Two additions remove it:
   - value_admissible (Cats/DialectKeys.v): a boolean SHAPE check of a value tree against the classes it names (int / bytes / list / object of
     the declared class or of a child of a declared abstract class; None only under a conditional member) - no ranges, lengths, enum membership
     or order, so every value the property calls admissible passes it;
   - wf_keys (Cats/DialectKeys.v), a boolean condition on top of wf_schema (wf_schema itself is unchanged): for a @comparer struct, every
     untransformed named-type member is unconditional and is what deserialize binds under that name; for a @sort_key array, the elements are
     concrete, a struct-typed key member is not abstract, and what the element's deserialize binds under the key's name has the key's type.
     Both shipped schemas satisfy it (kernel computation on the regenerated terms).
   With these, serialize of every ADMISSIBLE value, and size / deserialize / factory-deserialize of EVERY value and buffer, never answer
   Unsupported.  On the decode side no premise on values is needed: the proof shows that what the decoders bind is what the key view reads. *)
From Symv Require Import Cats.DialectKeys Cats.DialectKeyProofs.

Theorem wf_full_shipped : wf_schema_full sc_schema = true /\ wf_schema_full nc_schema = true.
Proof. exact wf_full_shipped_both. Qed.
Print Assumptions wf_full_shipped.

(* the sort-key view is total on admissible values of the member type (t not an abstract struct: such a member never is a sort key) *)
Theorem key_total_on_admissible : forall OP tm, wf_schema_full tm = true -> forall fuel t v,
  value_admissible tm v = true -> v = VNull \/ named_shape tm t v = true -> abs_name tm t = false ->
  key OP tm fuel t v <> Crash "Unsupported".
Proof. exact key_admissible_total. Qed.
Print Assumptions key_total_on_admissible.

(* ... and on whatever T.deserialize returns, for every buffer (fuels independent) *)
Theorem key_total_on_decoded : forall OP tm, wf_schema_full tm = true -> forall fuel j t b v,
  dec OP tm j t b = Ok v -> key OP tm fuel t v <> Crash "Unsupported".
Proof. exact key_decoded_total. Qed.
Print Assumptions key_total_on_decoded.

(* FULL: whole codecs of a schema of the dialect - serialize of any admissible value, size of ANY value, deserialize and factory deserialize
   of ANY buffer, any type name, any nesting fuel - never Unsupported; no premise on the key view *)
Theorem wf_no_unsupported : forall OP tm, wf_schema_full tm = true ->
  forall fuel t b,
    (forall v, value_admissible tm v = true -> enc OP tm fuel t v <> Crash "Unsupported")
    /\ (forall v, size OP tm fuel t v <> Crash "Unsupported")
    /\ dec OP tm fuel t b <> Crash "Unsupported" /\ decf OP tm fuel t b <> Crash "Unsupported".
Proof. exact codecs_no_unsupported_full. Qed.
Print Assumptions wf_no_unsupported.

(* non-vacuity on the shipped NEM schema (the one the partial theorem says nothing about): the schema is in the full dialect; a multisig account
   modification transaction with two modifications in comparer order is admissible, serializes (so the key view was consulted and answered),
   and what deserialize returns for those bytes is admissible again; the conclusion instantiated *)
Example wf_no_unsupported_nonvacuous_on_nem :
  wf_schema_full nc_schema = true /\ value_admissible nc_schema ex_nem_good = true
  /\ is_ok (enc ops_now nc_schema type_fuel "NonVerifiableMultisigAccountModificationTransactionV1" ex_nem_good) = true
  /\ redecodes nc_schema "NonVerifiableMultisigAccountModificationTransactionV1" ex_nem_good = true
  /\ (forall fuel t b,
        (forall v, value_admissible nc_schema v = true -> enc ops_now nc_schema fuel t v <> Crash "Unsupported")
        /\ (forall v, size ops_now nc_schema fuel t v <> Crash "Unsupported")
        /\ dec ops_now nc_schema fuel t b <> Crash "Unsupported" /\ decf ops_now nc_schema fuel t b <> Crash "Unsupported").
Proof. exact nonvacuous_on_nem. Qed.
Print Assumptions wf_no_unsupported_nonvacuous_on_nem.

(* the same on the shipped Symbol schema: an embedded transfer whose mosaics are sorted by mosaic_id *)
Example wf_no_unsupported_nonvacuous_on_symbol_full :
  wf_schema_full sc_schema = true /\ value_admissible sc_schema ex_sym_tx = true
  /\ is_ok (enc ops_now sc_schema type_fuel "EmbeddedTransferTransactionV1" ex_sym_tx) = true
  /\ redecodes sc_schema "EmbeddedTransferTransactionV1" ex_sym_tx = true
  /\ (forall fuel t b,
        (forall v, value_admissible sc_schema v = true -> enc ops_now sc_schema fuel t v <> Crash "Unsupported")
        /\ (forall v, size ops_now sc_schema fuel t v <> Crash "Unsupported")
        /\ dec ops_now sc_schema fuel t b <> Crash "Unsupported" /\ decf ops_now sc_schema fuel t b <> Crash "Unsupported").
Proof. exact nonvacuous_on_symbol. Qed.
Print Assumptions wf_no_unsupported_nonvacuous_on_symbol_full.

(* the admissibility premise on the serialized value cannot be dropped IN THE MODEL: the NEM transaction above with a byte string in place of the
   enum value of modification_type is not admissible and drives serialize into Unsupported (the generated Python raises AttributeError when it
   serializes that member; the model labels the ill-shaped comparer read Unsupported) *)
Example wf_no_unsupported_all_values_refuted_on_nem :
  wf_schema_full nc_schema = true /\ value_admissible nc_schema ex_nem_ill = false
  /\ enc ops_now nc_schema type_fuel "NonVerifiableMultisigAccountModificationTransactionV1" ex_nem_ill = Crash "Unsupported"
  /\ ~ (forall fuel t v, enc ops_now nc_schema fuel t v <> Crash "Unsupported").
Proof. exact all_values_refuted_on_nem. Qed.
Print Assumptions wf_no_unsupported_all_values_refuted_on_nem.

(* non-vacuity of key_total_on_admissible: the comparer view of a NEM MultisigAccountModification *)
Example key_total_nonvacuous_on_nem :
  let v := VStruct "MultisigAccountModification" [("modification_type", VInt 1%Z); ("cosignatory_public_key", VBytes [1%Z])] in
  wf_schema_full nc_schema = true /\ value_admissible nc_schema v = true /\ named_shape nc_schema "MultisigAccountModification" v = true
  /\ abs_name nc_schema "MultisigAccountModification" = false
  /\ is_ok (key ops_now nc_schema 1 "MultisigAccountModification" v) = true.
Proof. exact key_nonvacuous_on_nem. Qed.
Print Assumptions key_total_nonvacuous_on_nem.
