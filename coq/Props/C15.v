(* C15 -- the generator compiles any supported-dialect schema into a conforming codec.
   Statements only; proofs are in Cats/DialectProofs.v.  The round-trip / size / layout / canonical-order theorems of C01, C02 and C12 are stated
   over the layout interpreter for ANY schema term; this file adds what "schema of the dialect" means on the model side:
   wf_schema (Cats/Dialect.v), a boolean, fuel-free check of an expanded schema -- every reference resolves to an EARLIER declaration (no by-value
   cycle), widths in {1,2,4,8}, size/count members unsigned, declared before and binding exactly one array, sizeof targets size-implicit structs,
   the @size member first and unsigned, children extend their parent's members in order, discriminators and initializers complete, conditionals
   in the three shipped styles, sort keys resolve, aligned variable arrays only of abstract parents, fill arrays last in a size-prefixed struct.
   Left-hand sides: the interpreter (with any operator record) applied to the schema; sc_schema / nc_schema are regenerated from the .cats files
   on every run.  Per generated program the check additionally has the kernel evaluate wf_schema <its regenerated schema term> = true. *)
From Symv Require Import Base.Bytes Base.PyOps Cats.LayoutInst Cats.Dialect Cats.DialectProofs Gen.SchemaSc Gen.SchemaNc.
Open Scope string_scope.

(* both shipped schemas (regenerated from /repo at this run) are in the dialect: a kernel computation *)
Theorem wf_shipped : wf_schema sc_schema = true /\ wf_schema nc_schema = true.
Proof. exact wf_shipped_both. Qed.
Print Assumptions wf_shipped.

(* wf_schema holds exactly when no named condition is reported (the names are what the harness prints for a failing generated program) *)
Theorem wf_report_complete : forall tm, wf_report_go tm [] tm = [] <-> wf_schema tm = true.
Proof. exact wf_report_empty_iff. Qed.
Print Assumptions wf_report_complete.

(* every struct of a well-formed schema has each member classified into a supported case of the interpreter, on both sides *)
Theorem wf_members_classified : forall tm s, wf_schema tm = true -> In (DStruct s) tm ->
  layout_serialize_ok tm s = true /\ layout_deserialize_ok tm s = true.
Proof. exact wf_members_supported. Qed.
Print Assumptions wf_members_classified.

(* serialize side, one member: a classified member never takes an Unsupported branch of generate_serialize_field's model -- for every value,
   every first/total, whatever the codecs of the member types do (as long as they do not answer Unsupported themselves) *)
Theorem wf_no_unsupported_serialize_field : forall OP tm R s allfs total self first f,
  ((forall t v, enc_t R t v <> Crash "Unsupported") /\ (forall t v, size_t R t v <> Crash "Unsupported") /\ (forall t v, key_t R t v <> Crash "Unsupported")) ->
  ser_static_ok tm s allfs f = true ->
  serialize_field OP tm R s allfs total self first f <> Crash "Unsupported".
Proof. exact (fun OP tm R s allfs total self first f HR H => ser_static_no_unsupported OP tm R HR s allfs total self first f H). Qed.
Print Assumptions wf_no_unsupported_serialize_field.

(* deserialize side, one member: the same for generate_deserialize_field's model (load + condition), for every buffer and environment *)
Theorem wf_no_unsupported_deserialize_field : forall OP tm R s allfs e f buf,
  ((forall t b, dec_t R t b <> Crash "Unsupported") /\ (forall t b, decf_t R t b <> Crash "Unsupported")
   /\ (forall t v, size_t R t v <> Crash "Unsupported") /\ (forall t v, key_t R t v <> Crash "Unsupported")) ->
  des_static_ok tm allfs f = true ->
  deserialize_field OP tm R s allfs e f buf <> Crash "Unsupported".
Proof. exact (fun OP tm R s allfs e f buf HR H => nu_deserialize_field OP tm R HR s allfs e f buf H). Qed.
Print Assumptions wf_no_unsupported_deserialize_field.

(* whole codecs -- serialize, size, deserialize, factory deserialize: for a well-formed schema, ANY value, ANY buffer, ANY type name, ANY
   nesting fuel -- never Unsupported.  Premise: the sort-key view does not answer Unsupported (it does only for a comparer member holding a value
   of the wrong shape, which no admissible value has). *)
Theorem wf_no_unsupported : forall OP tm, wf_schema tm = true ->
  (forall fuel t v, key OP tm fuel t v <> Crash "Unsupported") ->
  forall fuel t v b,
    enc OP tm fuel t v <> Crash "Unsupported" /\ size OP tm fuel t v <> Crash "Unsupported"
    /\ dec OP tm fuel t b <> Crash "Unsupported" /\ decf OP tm fuel t b <> Crash "Unsupported".
Proof. exact codecs_no_unsupported_all. Qed.
Print Assumptions wf_no_unsupported.

(* non-vacuity: outside wf_schema the Unsupported outcome is reachable (array of 16-bit ints), and wf_schema rejects that schema *)
Example wf_excludes_something :
  enc ops_now bad_schema type_fuel "Ho" (VStruct "Ho" [("ws", VArr [VInt 1%Z; VInt 2%Z])]) = Crash "Unsupported" /\ wf_schema bad_schema = false.
Proof. exact unsupported_reachable. Qed.
Print Assumptions wf_excludes_something.
