(* Helper objects for the non-vacuity Examples of Props/C07.v and Props/C14.v (no property theorem lives here).

   A TOY lawful group: the integers modulo ed_l (the regenerated group order) under addition, base point 1, a point x encoded as
   the 32 little-endian bytes of x + 1 (so that no point encodes as 32 zero bytes).  It satisfies every field of [ed_laws]
   (Sym/EdAbstract.v), hence the premises `ed_laws o` / `flavour_ok fl (g_L o) zr` of the generic scheme theorems are jointly
   satisfiable and not contradictory.  It says nothing about edwards25519 (that is [EdZ_group_premise], not proved anywhere). *)
From Coq Require Import ZArith List Lia ZifyBool Bool Eqdep_dec.
From Symv Require Import Base.Bytes Base.BytesLemmas Base.PyOps Sym.EdAbstract Sym.EdZ Sym.EdZProofs.
Import ListNotations.
Open Scope Z_scope.

Definition toy_in_range (x : Z) : bool := (0 <=? x) && (x <? ed_l).
Definition toy_point : Type := { x : Z | toy_in_range x = true }.
Definition toy_val (P : toy_point) : Z := proj1_sig P.

Lemma toy_l_bounds : 2 ^ 252 < ed_l < 2 ^ 253.
Proof. vm_compute. split; reflexivity. Qed.

Lemma toy_l_pos : 0 < ed_l.
Proof. pose proof toy_l_bounds. assert (0 < 2 ^ 252) by (vm_compute; reflexivity). lia. Qed.

Lemma toy_mod_in_range : forall x, toy_in_range (x mod ed_l) = true.
Proof. intro x. unfold toy_in_range. pose proof (Z.mod_pos_bound x ed_l toy_l_pos). lia. Qed.

Definition toy_mk (x : Z) : toy_point := exist _ (x mod ed_l) (toy_mod_in_range x).

Lemma toy_eq : forall P Q : toy_point, toy_val P = toy_val Q -> P = Q.
Proof.
  intros [p Hp] [q Hq] E. cbn [toy_val proj1_sig] in E. subst q. f_equal. apply UIP_dec. apply bool_dec.
Qed.

Lemma toy_val_range : forall P, 0 <= toy_val P < ed_l.
Proof. intros [p Hp]. cbn [toy_val proj1_sig]. unfold toy_in_range in Hp. lia. Qed.

Lemma toy_val_mk : forall x, toy_val (toy_mk x) = x mod ed_l.
Proof. reflexivity. Qed.

Lemma toy_mk_val : forall P, toy_mk (toy_val P) = P.
Proof. intro P. apply toy_eq. rewrite toy_val_mk. apply Z.mod_small. apply toy_val_range. Qed.

Definition toy_ops : ed_ops toy_point :=
  {| g_zero := toy_mk 0;
     g_add := fun P Q => toy_mk (toy_val P + toy_val Q);
     g_neg := fun P => toy_mk (- toy_val P);
     g_smul := fun x P => toy_mk (x * toy_val P);
     g_B := toy_mk 1;
     g_L := ed_l;
     g_enc := fun P => to_le 32 (toy_val P + 1);
     g_dec := fun bs => Some (toy_mk (from_le bs - 1));
     g_is_zero := fun P => toy_val P =? 0;
     g_canonical := fun _ => true |}.

Lemma toy_enc_small : forall P, 0 <= toy_val P + 1 < 2 ^ (8 * Z.of_nat 32).
Proof.
  intro P. pose proof (toy_val_range P). pose proof toy_l_bounds.
  assert (2 ^ 253 < 2 ^ (8 * Z.of_nat 32)) by (vm_compute; reflexivity). lia.
Qed.

Lemma toy_from_le_zeros : from_le (zeros 32) = 0.
Proof. vm_compute. reflexivity. Qed.

Lemma toy_one_mod : 1 mod ed_l = 1.
Proof. apply Z.mod_small. pose proof toy_l_bounds. assert (1 < 2 ^ 252) by (vm_compute; reflexivity). lia. Qed.

Theorem toy_group_is_lawful : ed_laws toy_ops.
Proof.
  pose proof toy_l_pos as HL.
  constructor; cbn [toy_ops g_zero g_add g_neg g_smul g_B g_L g_enc g_dec g_is_zero g_canonical].
  - intros P Q R. apply toy_eq. rewrite !toy_val_mk. rewrite Z.add_mod_idemp_r, Z.add_mod_idemp_l by lia. f_equal. lia.
  - intros P Q. f_equal. lia.
  - intros P. rewrite toy_val_mk, Z.mod_0_l by lia. cbn [Z.add]. apply toy_mk_val.
  - intros P. apply toy_eq. rewrite !toy_val_mk. rewrite Z.add_mod_idemp_r by lia. f_equal. lia.
  - intros P. reflexivity.
  - intros x y P. apply toy_eq. rewrite !toy_val_mk. rewrite <- Z.add_mod by lia. f_equal. lia.
  - intros x y P. apply toy_eq. rewrite !toy_val_mk. rewrite Z.mul_mod_idemp_r by lia. f_equal. lia.
  - exact toy_l_bounds.
  - vm_compute. reflexivity.
  - intros x. rewrite toy_val_mk, toy_one_mod, Z.mul_1_r. split.
    + intro E. apply (f_equal toy_val) in E. rewrite !toy_val_mk in E. rewrite Z.mod_0_l in E by lia. exact E.
    + intro E. apply toy_eq. rewrite !toy_val_mk. rewrite E. symmetry. apply Z.mod_0_l. lia.
  - intros P Q E. apply (f_equal from_le) in E. rewrite !from_le_to_le_small in E by apply toy_enc_small. apply toy_eq. lia.
  - intros P. rewrite from_le_to_le_small by apply toy_enc_small. f_equal. replace (toy_val P + 1 - 1) with (toy_val P) by lia.
    apply toy_mk_val.
  - intros P. apply length_to_le.
  - intros P. reflexivity.
  - intros P. split.
    + intro E. apply toy_eq. rewrite toy_val_mk, Z.mod_0_l by lia. lia.
    + intros ->. reflexivity.
  - intros P E. exfalso. apply (f_equal from_le) in E. rewrite from_le_to_le_small in E by apply toy_enc_small.
    rewrite toy_from_le_zeros in E. pose proof (toy_val_range P). lia.
Qed.

(* every element of the toy group other than zero has order ed_l only when ed_l is prime; the base point certainly has:
   this is the extra premise of verify_modified_iff_collision (C07) for the key whose point is the base point *)
Lemma toy_base_point_order : forall x, g_smul toy_ops x (g_B toy_ops) = g_zero toy_ops -> x mod g_L toy_ops = 0.
Proof. intros x. apply (law_order_B toy_ops toy_group_is_lawful). Qed.

(* projective equality of two points of Sym/EdZ.v (extended coordinates x, y, z, t): x1 z2 = x2 z1 and y1 z2 = y2 z1 modulo q.
   Used by the samples of the group laws in Props/C07.v and Props/C14.v. *)
Definition same_point (P Q : point) : bool :=
  let '(x1, y1, z1, _) := P in let '(x2, y2, z2, _) := Q in
  ((x1 * z2 - x2 * z1) mod ed_q =? 0) && ((y1 * z2 - y2 * z1) mod ed_q =? 0).
