(* C10 -- a transaction built from a descriptor carries exactly the described values.
   Statements only; proofs are in Sym/DescriptorProofs.v.  Left-hand sides: Sym/Descriptor.v, the model of
   TransactionDescriptorProcessor / RuleBasedTransactionFactory / symbol+nem TransactionFactory.create(_embedded) whose tables
   (TYPE_HINTS, autodetected classes, _build_rules calls, create_by_name mappings), key names, prefixes and the `_computed` suffix are
   regenerated from /repo (Gen/DescriptorOps.v, Gen/DescriptorRulesSc.v, Gen/DescriptorRulesNc.v) and whose objects are the layout
   interpreter's values over the regenerated schemas.  Right-hand sides: fixed text.
   Level: proof, partial -- reflection-based rule discovery (dir(module), inspect) is represented by the regenerated tables. *)
From Symv Require Import Base.Bytes Base.PyOps Cats.LayoutRender Cats.LayoutInstProofs Sym.Keccak Sym.Ids Sym.IdsProofs Sym.Address
  Sym.Descriptor Sym.DescriptorProofs.
From Coq Require Import Sorted.
Open Scope string_scope.
Open Scope Z_scope.

(* ---- per-run obligations on the regenerated tables (closed by the kernel) ---- *)

(* the rule tables build, every class of every create_by_name mapping is a struct of the schema whose members carry exactly the schema's
   TYPE_HINTS, and the rule looked up for each member is the documented one: BaseValue for integer types, names for enums / flags,
   hex for PublicKey / VotingPublicKey / Hash256, base32 for Address / UnresolvedAddress, element-wise for their arrays *)
Example tables_are_documented :
  build_rules sc_autodetect sc_build_actions [] <> None /\ build_rules nc_autodetect nc_build_actions [] <> None
  /\ tables_documented sc_cfg = true /\ tables_documented nc_cfg = true
  /\ autodetect_matches_schema sc_cfg = true /\ autodetect_matches_schema nc_cfg = true.
Proof. vm_compute. repeat split; discriminate. Qed.

(* the key names and affixes the code uses are the documented ones *)
Example names_are_documented :
  type_key = "type" /\ type_ignore_key = "type" /\ computed_suffix = "_computed" /\ n_network_key sc_cfg = "network" /\ n_network_key nc_cfg = "network"
  /\ flag_none_name = "none" /\ flag_none_value = 0 /\ flag_separator = 32 /\ sym_root_parent = 0
  /\ py_name "type" = "type_" /\ py_name "fee" = "fee".
Proof. repeat split; reflexivity. Qed.

(* ---- create_holds_values ---- *)
(* PARTIAL: stated for the object as create_from_factory leaves it (create_core), i.e. before sort() and the id / message post-processing,
   which are characterised separately below (autosort_canonical, ids_filled_*, post_processing_touches_only).
   FULL STATEMENT (not proved as one theorem): for every descriptor with distinct keys, `create N emb autosort ident d = Ok v` implies that
   v is an object of the class create_by_name gives for d's type, each member named by d holds the coerced value of its entry
   (lists appended to the constructor's list, strs encoded as UTF-8), permuted by the stable key sort if autosort and with `id` replaced by
   the generated id for the two artifact types, every other member holds the constructor default, `network` holds ident. *)
Theorem create_holds_values_partial : forall N emb ident d v, NoDup (map fst d) -> create_core N emb ident d = Ok v ->
  let d1 := dict_set d (n_network_key N) (DInt ident) in
  exists s name cls e0 e',
    assoc "type" d1 = Some (DStr s) /\ In (name, cls) (n_names N emb) /\ str_is name s = true /\
    new_instance N cls = Ok (VStruct cls e0) /\ v = VStruct cls e' /\ map fst e' = map fst e0 /\
    (forall k dv, In (k, dv) d1 -> k <> "type" ->
       exists f x, member_of N cls k = Some f /\ lookup_value N cls k dv = Ok x /\
                   forall old, assoc (f_name f) e0 = Some old -> vget v (f_name f) = Some (encode_str (stored x old))) /\
    (forall n, (forall k dv f, In (k, dv) d1 -> k <> "type" -> member_of N cls k = Some f -> f_name f <> n) ->
       vget v n = option_map encode_str (assoc n e0)).
Proof. exact create_core_holds. Qed.
Print Assumptions create_holds_values_partial.

(* the network member is the facade's identifier, whatever the descriptor says *)
Theorem created_network_is_facade_identifier : forall N emb ident d cls e c f,
  NoDup (map fst d) -> create_core N emb ident d = Ok (VStruct cls e) -> n_network_key N <> "type" ->
  rule_for N cls (n_network_key N) = Some (REnum c) -> member_of N cls (n_network_key N) = Some f ->
  vget (VStruct cls e) (f_name f) = Some (VInt ident).
Proof. exact create_core_network. Qed.
Print Assumptions created_network_is_facade_identifier.

(* members paired with a class constant (type <- TRANSACTION_TYPE, version <- TRANSACTION_VERSION) hold it unless the descriptor names them *)
Theorem created_type_and_version_are_class_constants : forall N emb ident d cls e s f cf,
  NoDup (map fst d) -> create_core N emb ident d = Ok (VStruct cls e) -> lookup_struct (n_tm N) cls = Some s ->
  In f (settable_fields s) -> paired_const s f = Some cf -> NoDup (map f_name (settable_fields s)) ->
  ~ In (py_name (f_name f)) (map fst (dict_set d (n_network_key N) (DInt ident))) ->
  exists v, const_value N cf = Ok v /\ vget (VStruct cls e) (f_name f) = Some (encode_str v).
Proof. exact created_constants. Qed.
Print Assumptions created_type_and_version_are_class_constants.

(* what the coerced value of a leaf entry is, form by form (the right-hand sides are the documented meanings) *)
Theorem coerce_integer : forall N cls z x, parse_pod N cls (DInt z) = Ok x ->
  exists nm i cm, lookup (n_tm N) cls = Some (DAlias nm (LInt i) cm) /\ x = DObj OCodec cls (VInt z)
                  /\ (In (it_size i) [1; 2; 4; 8] -> 0 <= z < 2 ^ (8 * it_size i)).
Proof. exact parse_pod_spec. Qed.
Print Assumptions coerce_integer.

Theorem coerce_hex_string : forall N c s x, c <> SdkAddress -> parse_sdk N c (DStr s) = Ok x ->
  exists b, unhexlify s = Some b /\ Z.of_nat (length b) = sdk_size N c /\ x = DObj OSdk (sdk_name c) (VBytes b)
            /\ length s = (2 * length b)%nat /\ Forall (fun ch => hex_digit_val ch <> None) s /\ wf_bytes b = true.
Proof. exact parse_sdk_hex_spec. Qed.
Print Assumptions coerce_hex_string.

Theorem coerce_enum_name : forall N cls s x, parse_enum N cls (DStr s) = Ok x ->
  exists e, In e (enum_values N cls) /\ str_is (lower_string (ev_name e)) s = true /\ x = DObj OCodec cls (VInt (ev_value e)).
Proof. exact parse_enum_str. Qed.
Print Assumptions coerce_enum_name.

Theorem coerce_flag_names : forall N cls s x, parse_flags N cls (DStr s) = Ok x ->
  exists zs, Forall2 (fun n v => (str_is "none" n = true /\ v = 0) \/
                                 (exists e, In e (enum_values N cls) /\ is_single_bit (ev_value e) = true
                                            /\ str_is (lower_string (ev_name e)) n = true /\ ev_value e = v)) (split_on 32 s) zs
             /\ x = DObj OCodec cls (VInt (fold_right Z.lor 0 zs)).
Proof. exact parse_flags_names. Qed.
Print Assumptions coerce_flag_names.

(* ---- create_rejects ---- *)
(* no type, an unknown type name, or one entry that names no settable member / a computed member / an out-of-range number /
   an unknown enum or flag name / a non-member enum value / a flag number that is negative or has foreign bits / a hex string or byte
   string of the wrong length: no object is created (never an object that ignores or truncates the entry) *)
Theorem create_rejects : forall N emb autosort ident d,
  let d1 := dict_set d (n_network_key N) (DInt ident) in
  (assoc "type" d1 = None
   \/ (exists s, assoc "type" d1 = Some (DStr s) /\ forall p, In p (n_names N emb) -> str_is (fst p) s = false)
   \/ (exists s cls k dv, assoc "type" d1 = Some (DStr s) /\ class_of_type N emb (DStr s) = Ok cls /\
                          In (k, dv) d1 /\ k <> "type" /\ bad_entry N cls k dv)) ->
  forall v, create N emb autosort ident d <> Ok v.
Proof. exact DescriptorProofs.create_rejects. Qed.
Print Assumptions create_rejects.

(* non-vacuity: concrete rejected entries for the shipped tables (unknown member, class constant, method, private slot, computed member,
   2^64 and -1 for a 64-bit amount, unknown / upper-case enum name, unknown flag name, negative flag number) *)
Example rejected_entries :
  bad_entry sc_cfg "TransferTransactionV1" "fee_" (DInt 1) /\ bad_entry sc_cfg "TransferTransactionV1" "TYPE_HINTS" (DInt 1)
  /\ bad_entry sc_cfg "TransferTransactionV1" "serialize" (DInt 1) /\ bad_entry sc_cfg "TransferTransactionV1" "_fee" (DInt 1)
  /\ bad_entry nc_cfg "TransferTransactionV2" "message_envelope_size_computed" (DInt 0)
  /\ bad_entry sc_cfg "TransferTransactionV1" "fee" (DInt (2 ^ 64)) /\ bad_entry sc_cfg "TransferTransactionV1" "fee" (DInt (-1))
  /\ bad_entry sc_cfg "AccountKeyLinkTransactionV1" "link_action" (DStr (of_string "LINK"))
  /\ bad_entry sc_cfg "MosaicDefinitionTransactionV1" "flags" (DStr (of_string "transferable bogus"))
  /\ bad_entry sc_cfg "MosaicDefinitionTransactionV1" "flags" (DInt (-1)).
Proof.
  repeat split.
  - apply BadNonMember. vm_compute. reflexivity.
  - apply BadNonMember. vm_compute. reflexivity.
  - apply BadNonMember. vm_compute. reflexivity.
  - apply BadNonMember. vm_compute. reflexivity.
  - apply BadComputed. vm_compute. reflexivity.
  - eapply BadRange; [vm_compute; reflexivity|vm_compute; reflexivity|vm_compute; auto 6|vm_compute; intros [_ H]; discriminate].
  - eapply BadRange; [vm_compute; reflexivity|vm_compute; reflexivity|vm_compute; auto 6|vm_compute; intros [H _]; apply H; reflexivity].
  - eapply BadEnumName; [vm_compute; reflexivity|]. vm_compute. intros e [<-|[<-|[]]]; reflexivity.
  - eapply (BadFlagName _ _ _ _ _ (of_string "bogus")); [vm_compute; reflexivity|vm_compute; auto|vm_compute; reflexivity|].
    vm_compute. intros e [<-|[<-|[<-|[<-|[<-|[]]]]]]; reflexivity.
  - eapply BadFlagValue; [vm_compute; reflexivity|]. left. reflexivity.
Qed.

(* ---- create_then_enc_dec ---- *)
(* Composition with the codec.  The layout round trip (C01/C02: decoding the encoding of an admissible value through the family factory
   yields that value) is a NAMED PREMISE here -- the lead's proof of it is in progress; `adm` is its admissibility predicate. *)
Section EncDec.
Variable N : netcfg.
Variable root : string.               (* "Transaction" / "EmbeddedTransaction": the family whose factory deserializes *)
Variable adm : value -> Prop.
Hypothesis layout_roundtrip_premise : forall v b, adm v -> m_enc (n_tm N) "" v = Ok b -> m_decf (n_tm N) root b = Ok v.

Theorem create_then_enc_dec : forall emb autosort ident d v b,
  create N emb autosort ident d = Ok v -> adm v -> m_enc (n_tm N) "" v = Ok b ->
  m_decf (n_tm N) root b = Ok v /\ exists cls e, v = VStruct cls e /\ In cls (map snd (n_names N emb)).
Proof.
  exact (fun emb autosort ident d v b Hc Ha He => conj (layout_roundtrip_premise v b Ha He) (created_class N emb autosort ident d v Hc)).
Qed.
End EncDec.
Print Assumptions create_then_enc_dec.

(* ---- autosort_canonical ---- *)
(* with automatic sorting on, each keyed array of the created transaction is the stable key sort of what the descriptor gave, and it
   satisfies the strict-order predicate of C12 (strictly ascending under the declared comparer) when the keys are pairwise distinct *)
Theorem autosort_canonical : forall N emb ident d v', create N emb true ident d = Ok v' ->
  exists cls e0, create_core N emb ident d = Ok (VStruct cls e0) /\
  forall s n f a key l, lookup_struct (n_tm N) cls = Some s -> find_field (non_const (s_fields s)) n = Some f ->
    f_type f = FArray a -> a_sort_key a = Some key -> assoc n e0 = Some (VArr l) -> n <> "id" -> n <> "message" ->
    exists ks, keys_of_values (n_tm N) a l = Ok ks /\
               vget v' n = Some (VArr (map snd (sort_pairs key_lt (combine ks l)))) /\
               (shape_ok ks -> NoDup ks -> StronglySorted (fun p q => key_lt_spec (fst p) (fst q) = true) (sort_pairs key_lt (combine ks l))).
Proof. exact DescriptorProofs.autosort_canonical. Qed.
Print Assumptions autosort_canonical.

(* the post-processing after sorting touches `id` (symbol) / `message` (nem) only *)
Theorem post_processing_touches_only : forall N ident v v' n, extend N ident v = Ok v' -> n <> "id" -> n <> "message" -> vget v' n = vget v n.
Proof. exact extend_other. Qed.
Print Assumptions post_processing_touches_only.

(* ---- ids_filled ---- *)
(* symbol: the id of a created namespace registration / mosaic definition equals the hash definition of C13 applied to the transaction's
   own name + parent (0 for a root) / own nonce + the address of its own signer on the facade's network *)
Theorem ids_filled_namespace : forall N t_ns t_md child emb autosort ident d v',
  n_flavor N = Symbol -> enum_member N "TransactionType" "NAMESPACE_REGISTRATION" = Some t_ns ->
  enum_member N "TransactionType" "MOSAIC_DEFINITION" = Some t_md -> enum_member N "NamespaceRegistrationType" "CHILD" = Some child ->
  create N emb autosort ident d = Ok v' -> vget v' "type" = Some (VInt t_ns) -> vget v' "id" <> None ->
  exists nm parent, vget v' "name" = Some (VBytes nm) /\
    ((vget v' "registration_type" = Some (VInt child) /\ vget v' "parent_id" = Some (VInt parent)) \/
     (vget v' "registration_type" <> Some (VInt child) /\ parent = 0)) /\
    vget v' "id" = Some (VInt (from_le (firstn 8 (sha3_256 (to_le 8 parent ++ nm)%list)) mod 2 ^ 63 + 2 ^ 63)).
Proof. exact (fun N t_ns t_md child emb autosort ident d v' Hs E1 E2 E3 => namespace_id_filled N Hs t_ns t_md child E1 E2 E3 emb autosort ident d v'). Qed.
Print Assumptions ids_filled_namespace.

Theorem ids_filled_mosaic : forall N t_ns t_md child emb autosort ident d v',
  n_flavor N = Symbol -> enum_member N "TransactionType" "NAMESPACE_REGISTRATION" = Some t_ns ->
  enum_member N "TransactionType" "MOSAIC_DEFINITION" = Some t_md -> enum_member N "NamespaceRegistrationType" "CHILD" = Some child -> t_md <> t_ns ->
  create N emb autosort ident d = Ok v' -> vget v' "type" = Some (VInt t_md) -> vget v' "id" <> None ->
  exists pk nonce addr, vget v' "signer_public_key" = Some (VBytes pk) /\ vget v' "nonce" = Some (VInt nonce) /\
    public_key_to_address_now Symbol ident pk = Ok addr /\
    vget v' "id" = Some (VInt (from_le (firstn 8 (sha3_256 (to_le 4 nonce ++ addr)%list)) mod 2 ^ 63)).
Proof. exact (fun N t_ns t_md child emb autosort ident d v' Hs E1 E2 E3 Hne => mosaic_id_filled N Hs t_ns t_md child E1 E2 E3 Hne emb autosort ident d v'). Qed.
Print Assumptions ids_filled_mosaic.

(* non-vacuity on the shipped symbol tables: the enum members exist, are distinct, and a concrete descriptor of each artifact type is
   created with its generated id *)
Example ids_example :
  enum_member sc_cfg "TransactionType" "NAMESPACE_REGISTRATION" = Some 16718 /\ enum_member sc_cfg "TransactionType" "MOSAIC_DEFINITION" = Some 16717
  /\ enum_member sc_cfg "NamespaceRegistrationType" "CHILD" = Some 1
  /\ (exists v, create sc_cfg false true 152 [("type", DStr (of_string "namespace_registration_transaction_v1")); ("name", DStr (of_string "roger"))] = Ok v
                /\ vget v "id" = Some (VInt (generate_namespace_id sha3_256 (of_string "roger") 0)))
  /\ (exists v, create sc_cfg true false 104 [("type", DStr (of_string "mosaic_definition_transaction_v1")); ("nonce", DInt 123)] = Ok v
                /\ vget v "type" = Some (VInt 16717) /\ vget v "id" <> None).
Proof.
  repeat split; try (vm_compute; reflexivity).
  - eexists. split; vm_compute; reflexivity.
  - eexists. split; [vm_compute; reflexivity|]. split; [vm_compute; reflexivity|]. vm_compute. discriminate.
Qed.

(* ================= non-vacuity of the premises ================= *)
From Symv Require Import Cats.Layout Cats.LayoutInst Cats.StructProofs Cats.StructRoundTrip Cats.StructDecide.

Definition ex_descriptor : descriptor :=
  [("type", DStr (of_string "transfer_transaction_v1")); ("fee", DInt 1000);
   ("mosaics", DList [DDict [("mosaic_id", DInt 9); ("amount", DInt 2)]; DDict [("mosaic_id", DInt 3); ("amount", DInt 1)]])].
Definition ex_created : value := match create sc_cfg false true 152 ex_descriptor with Ok v => v | _ => VNull end.

(* a struct value is encoded by its own class, whatever static type the caller names *)
Lemma enc_struct_value_ignores_static_type : forall OP tm k t t' cls e,
  enc OP tm (S k) t (VStruct cls e) = enc OP tm (S k) t' (VStruct cls e).
Proof. intros. reflexivity. Qed.

(* conversion hint only: unfold the wrappers m_enc / m_decf before the interpreter's fixpoints *)
Local Strategy expand [m_enc m_decf].

(* the Section hypothesis layout_roundtrip_premise of create_then_enc_dec follows, for ANY schema, from the C01 theorem RT_decf when adm is
   the C01 fragment at the abstract root type (struct values, nesting n with 2n + 1 <= type_fuel) *)
Lemma layout_roundtrip_premise_from_C01 : forall tm root n, (2 * n + 1 <= type_fuel)%nat -> is_abs tm root = true ->
  forall v b, (admf tm n root v /\ exists cls e, v = VStruct cls e) -> m_enc tm "" v = Ok b -> m_decf tm root b = Ok v.
Proof.
  intros tm root n Hk Habs v b [Ha [cls [e ->]]] He. unfold m_enc, m_decf in *.
  assert (E : type_fuel = S 23) by reflexivity. rewrite E in *. clear E.
  rewrite (enc_struct_value_ignores_static_type ops_now tm 23 "" root cls e) in He.
  rewrite <- (app_nil_r b).
  exact (proj1 (RT_decf tm n (S 23) root (VStruct cls e) b [] Hk Ha Habs He)).
Qed.

(* create_then_enc_dec: its Section hypothesis is SATISFIABLE with a non-trivial admissibility predicate on the shipped Symbol tables
   (root "Transaction", adm := the C01 fragment, nesting <= 11); a created transaction (keyed array sorted by autosort) lies in that
   fragment and encodes *)
Example enc_dec_premise_nonvacuous :
  let adm := fun v => admf (n_tm sc_cfg) 11 "Transaction" v /\ exists cls e, v = VStruct cls e in
  (forall v b, adm v -> m_enc (n_tm sc_cfg) "" v = Ok b -> m_decf (n_tm sc_cfg) "Transaction" b = Ok v)
  /\ create sc_cfg false true 152 ex_descriptor = Ok ex_created
  /\ adm ex_created
  /\ match m_enc (n_tm sc_cfg) "" ex_created with Ok b => length b = (160 + 2 * 16)%nat | _ => False end.
Proof.
  cbv zeta. split.
  - apply layout_roundtrip_premise_from_C01; [vm_compute; repeat constructor|vm_compute; reflexivity].
  - split; [vm_compute; reflexivity|]. split; [|vm_compute; reflexivity].
    split; [apply admfb_sound; vm_compute; reflexivity|]. vm_compute. eexists. eexists. reflexivity.
Qed.
Print Assumptions enc_dec_premise_nonvacuous.

(* the remaining premises on the shipped Symbol tables: distinct keys and a successful create_core (create_holds_values_partial); the
   network member (created_network_is_facade_identifier); the version member paired with TRANSACTION_VERSION and not named by the
   descriptor (created_type_and_version_are_class_constants); one accepted entry per coercion form (the four coerce theorems); a successful extend
   (post_processing_touches_only) *)
Example create_premises_nonvacuous :
  let cls := "TransferTransactionV1" in
  (NoDup (map fst ex_descriptor) /\ match create_core sc_cfg false 152 ex_descriptor with Ok (VStruct c _) => c = cls | _ => False end)
  /\ (n_network_key sc_cfg <> "type" /\ rule_for sc_cfg cls (n_network_key sc_cfg) = Some (REnum "NetworkType")
      /\ option_map f_name (member_of sc_cfg cls (n_network_key sc_cfg)) = Some "network")
  /\ match lookup_struct (n_tm sc_cfg) cls with
     | Some s => match find_field (settable_fields s) "version" with
                 | Some f => In f (settable_fields s) /\ option_map f_name (paired_const s f) = Some "TRANSACTION_VERSION"
                             /\ NoDup (map f_name (settable_fields s))
                             /\ ~ In (py_name (f_name f)) (map fst (dict_set ex_descriptor (n_network_key sc_cfg) (DInt 152)))
                 | None => False
                 end
     | None => False
     end
  /\ (parse_pod sc_cfg "Amount" (DInt 5) = Ok (DObj OCodec "Amount" (VInt 5))
      /\ SdkHash256 <> SdkAddress
      /\ match parse_sdk sc_cfg SdkHash256 (DStr (of_string "00112233445566778899aabbccddeeff00112233445566778899AABBCCDDEEFF")) with Ok _ => True | _ => False end
      /\ match parse_enum sc_cfg "LinkAction" (DStr (of_string "link")) with Ok _ => True | _ => False end
      /\ match parse_flags sc_cfg "MosaicFlags" (DStr (of_string "transferable restrictable")) with Ok _ => True | _ => False end)
  /\ match extend sc_cfg 152 ex_created with Ok v' => vget v' "fee" = vget ex_created "fee" | _ => False end.
Proof.
  cbv zeta. split; [split; [|vm_compute; reflexivity]|].
  { vm_compute. repeat constructor; cbn [In]; intuition discriminate. }
  split; [vm_compute; repeat split; try reflexivity; discriminate|].
  split.
  { vm_compute. split; [auto 12|]. split; [reflexivity|]. split; [repeat constructor; cbn [In]; intuition discriminate|].
    intros H. repeat (destruct H as [H|H]; [discriminate H|]). exact H. }
  split; [|vm_compute; reflexivity].
  split; [vm_compute; reflexivity|]. split; [discriminate|]. vm_compute. repeat split; exact I.
Qed.
Print Assumptions create_premises_nonvacuous.
