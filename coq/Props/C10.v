(* C10 -- placeholder while the model is being tied; replaced by the theorem file. *)
From Symv Require Import Sym.Descriptor.
Example c10_tables_build : build_rules sc_autodetect sc_build_actions [] <> None /\ build_rules nc_autodetect nc_build_actions [] <> None.
Proof. vm_compute. split; discriminate. Qed.
