(* C10 -- a transaction built from a descriptor carries exactly the described values.
   Statements only; proofs are in Sym/DescriptorProofs.v, Sym/DescriptorNestedProofs.v (nested dictionaries / lists, fuel) and
   Sym/DescriptorSortProofs.v (sort() at every depth), Sym/DescriptorCreateProofs.v (the stages of create composed).  Left-hand sides: Sym/Descriptor.v, the model of
   TransactionDescriptorProcessor / RuleBasedTransactionFactory / symbol+nem TransactionFactory.create(_embedded) whose tables
   (TYPE_HINTS, autodetected classes, _build_rules calls, create_by_name mappings), key names, prefixes and the `_computed` suffix are
   regenerated from /repo (Gen/DescriptorOps.v, Gen/DescriptorRulesSc.v, Gen/DescriptorRulesNc.v) and whose objects are the layout
   interpreter's values over the regenerated schemas.  Right-hand sides: fixed text.
   Level: proof, partial -- reflection-based rule discovery (dir(module), inspect) is represented by the regenerated tables. *)
From Symv Require Import Base.Bytes Base.PyOps Cats.LayoutRender Cats.LayoutInstProofs Sym.Keccak Sym.Ids Sym.IdsProofs Sym.Address
  Sym.Descriptor Sym.DescriptorProofs Sym.DescriptorNestedProofs Sym.DescriptorSortProofs Sym.DescriptorCreateProofs.
From Coq Require Import Sorted Permutation.
Open Scope string_scope.
Open Scope Z_scope.

(* ---- per-run obligations on the regenerated tables (closed by the kernel) ---- *)

(* the rule tables build, every class of every create_by_name mapping is a struct of the schema whose members carry exactly the schema's
   TYPE_HINTS, and the rule looked up for each member is the documented one: BaseValue for integer types, names for enums / flags,
   hex for PublicKey / VotingPublicKey / Hash256, base32 for Address / UnresolvedAddress, element-wise for their arrays *)
Example tables_are_documented :
  build_rules sc_autodetect sc_build_actions [] <> None /\ build_rules nc_autodetect nc_build_actions [] <> None
  /\ tables_documented sc_cfg = true /\ tables_documented nc_cfg = true
  /\ autodetect_matches_schema sc_cfg = true /\ autodetect_matches_schema nc_cfg = true.
Proof. vm_compute. repeat split; discriminate. Qed.

(* the key names and affixes the code uses are the documented ones *)
Example names_are_documented :
  type_key = "type" /\ type_ignore_key = "type" /\ computed_suffix = "_computed" /\ n_network_key sc_cfg = "network" /\ n_network_key nc_cfg = "network"
  /\ flag_none_name = "none" /\ flag_none_value = 0 /\ flag_separator = 32 /\ sym_root_parent = 0
  /\ py_name "type" = "type_" /\ py_name "fee" = "fee".
Proof. repeat split; reflexivity. Qed.

(* ---- create_holds_values ---- *)
(* PARTIAL: stated for the object as create_from_factory leaves it (create_core), i.e. before sort() and the id / message post-processing,
   which are characterised separately below (autosort_canonical, ids_filled_*, post_processing_touches_only).
   FULL STATEMENT (not proved as one theorem): for every descriptor with distinct keys, `create N emb autosort ident d = Ok v` implies that
   v is an object of the class create_by_name gives for d's type, each member named by d holds the coerced value of its entry
   (lists appended to the constructor's list, strs encoded as UTF-8), permuted by the stable key sort if autosort and with `id` replaced by
   the generated id for the two artifact types, every other member holds the constructor default, `network` holds ident.
   Here the coerced value of an entry is `lookup_value` of it, whatever that is; create_holds_values_nested_partial below says what it
   is, recursively through struct and array rules. *)
Theorem create_holds_values_partial : forall N emb ident d v, NoDup (map fst d) -> create_core N emb ident d = Ok v ->
  let d1 := dict_set d (n_network_key N) (DInt ident) in
  exists s name cls e0 e',
    assoc "type" d1 = Some (DStr s) /\ In (name, cls) (n_names N emb) /\ str_is name s = true /\
    new_instance N cls = Ok (VStruct cls e0) /\ v = VStruct cls e' /\ map fst e' = map fst e0 /\
    (forall k dv, In (k, dv) d1 -> k <> "type" ->
       exists f x, member_of N cls k = Some f /\ lookup_value N cls k dv = Ok x /\
                   forall old, assoc (f_name f) e0 = Some old -> vget v (f_name f) = Some (encode_str (stored x old))) /\
    (forall n, (forall k dv f, In (k, dv) d1 -> k <> "type" -> member_of N cls k = Some f -> f_name f <> n) ->
       vget v n = option_map encode_str (assoc n e0)).
Proof. exact create_core_holds. Qed.
Print Assumptions create_holds_values_partial.

(* the network member is the facade's identifier, whatever the descriptor says *)
Theorem created_network_is_facade_identifier : forall N emb ident d cls e c f,
  NoDup (map fst d) -> create_core N emb ident d = Ok (VStruct cls e) -> n_network_key N <> "type" ->
  rule_for N cls (n_network_key N) = Some (REnum c) -> member_of N cls (n_network_key N) = Some f ->
  vget (VStruct cls e) (f_name f) = Some (VInt ident).
Proof. exact create_core_network. Qed.
Print Assumptions created_network_is_facade_identifier.

(* members paired with a class constant (type <- TRANSACTION_TYPE, version <- TRANSACTION_VERSION) hold it unless the descriptor names them *)
Theorem created_type_and_version_are_class_constants : forall N emb ident d cls e s f cf,
  NoDup (map fst d) -> create_core N emb ident d = Ok (VStruct cls e) -> lookup_struct (n_tm N) cls = Some s ->
  In f (settable_fields s) -> paired_const s f = Some cf -> NoDup (map f_name (settable_fields s)) ->
  ~ In (py_name (f_name f)) (map fst (dict_set d (n_network_key N) (DInt ident))) ->
  exists v, const_value N cf = Ok v /\ vget (VStruct cls e) (f_name f) = Some (encode_str v).
Proof. exact created_constants. Qed.
Print Assumptions created_type_and_version_are_class_constants.

(* what the coerced value of a leaf entry is, form by form (the right-hand sides are the documented meanings) *)
Theorem coerce_integer : forall N cls z x, parse_pod N cls (DInt z) = Ok x ->
  exists nm i cm, lookup (n_tm N) cls = Some (DAlias nm (LInt i) cm) /\ x = DObj OCodec cls (VInt z)
                  /\ (In (it_size i) [1; 2; 4; 8] -> 0 <= z < 2 ^ (8 * it_size i)).
Proof. exact parse_pod_spec. Qed.
Print Assumptions coerce_integer.

Theorem coerce_hex_string : forall N c s x, c <> SdkAddress -> parse_sdk N c (DStr s) = Ok x ->
  exists b, unhexlify s = Some b /\ Z.of_nat (length b) = sdk_size N c /\ x = DObj OSdk (sdk_name c) (VBytes b)
            /\ length s = (2 * length b)%nat /\ Forall (fun ch => hex_digit_val ch <> None) s /\ wf_bytes b = true.
Proof. exact parse_sdk_hex_spec. Qed.
Print Assumptions coerce_hex_string.

Theorem coerce_enum_name : forall N cls s x, parse_enum N cls (DStr s) = Ok x ->
  exists e, In e (enum_values N cls) /\ str_is (lower_string (ev_name e)) s = true /\ x = DObj OCodec cls (VInt (ev_value e)).
Proof. exact parse_enum_str. Qed.
Print Assumptions coerce_enum_name.

Theorem coerce_flag_names : forall N cls s x, parse_flags N cls (DStr s) = Ok x ->
  exists zs, Forall2 (fun n v => (str_is "none" n = true /\ v = 0) \/
                                 (exists e, In e (enum_values N cls) /\ is_single_bit (ev_value e) = true
                                            /\ str_is (lower_string (ev_name e)) n = true /\ ev_value e = v)) (split_on 32 s) zs
             /\ x = DObj OCodec cls (VInt (fold_right Z.lor 0 zs)).
Proof. exact parse_flags_names. Qed.
Print Assumptions coerce_flag_names.

(* ---- create_rejects ---- *)
(* no type, an unknown type name, or one entry that names no settable member / a computed member / an out-of-range number /
   an unknown enum or flag name / a non-member enum value / a flag number that is negative or has foreign bits / a hex string or byte
   string of the wrong length: no object is created (never an object that ignores or truncates the entry) *)
Theorem create_rejects : forall N emb autosort ident d,
  let d1 := dict_set d (n_network_key N) (DInt ident) in
  (assoc "type" d1 = None
   \/ (exists s, assoc "type" d1 = Some (DStr s) /\ forall p, In p (n_names N emb) -> str_is (fst p) s = false)
   \/ (exists s cls k dv, assoc "type" d1 = Some (DStr s) /\ class_of_type N emb (DStr s) = Ok cls /\
                          In (k, dv) d1 /\ k <> "type" /\ bad_entry N cls k dv)) ->
  forall v, create N emb autosort ident d <> Ok v.
Proof. exact DescriptorProofs.create_rejects. Qed.
Print Assumptions create_rejects.

(* non-vacuity: concrete rejected entries for the shipped tables (unknown member, class constant, method, private slot, computed member,
   2^64 and -1 for a 64-bit amount, unknown / upper-case enum name, unknown flag name, negative flag number) *)
Example rejected_entries :
  bad_entry sc_cfg "TransferTransactionV1" "fee_" (DInt 1) /\ bad_entry sc_cfg "TransferTransactionV1" "TYPE_HINTS" (DInt 1)
  /\ bad_entry sc_cfg "TransferTransactionV1" "serialize" (DInt 1) /\ bad_entry sc_cfg "TransferTransactionV1" "_fee" (DInt 1)
  /\ bad_entry nc_cfg "TransferTransactionV2" "message_envelope_size_computed" (DInt 0)
  /\ bad_entry sc_cfg "TransferTransactionV1" "fee" (DInt (2 ^ 64)) /\ bad_entry sc_cfg "TransferTransactionV1" "fee" (DInt (-1))
  /\ bad_entry sc_cfg "AccountKeyLinkTransactionV1" "link_action" (DStr (of_string "LINK"))
  /\ bad_entry sc_cfg "MosaicDefinitionTransactionV1" "flags" (DStr (of_string "transferable bogus"))
  /\ bad_entry sc_cfg "MosaicDefinitionTransactionV1" "flags" (DInt (-1)).
Proof.
  repeat split.
  - apply BadNonMember. vm_compute. reflexivity.
  - apply BadNonMember. vm_compute. reflexivity.
  - apply BadNonMember. vm_compute. reflexivity.
  - apply BadNonMember. vm_compute. reflexivity.
  - apply BadComputed. vm_compute. reflexivity.
  - eapply BadRange; [vm_compute; reflexivity|vm_compute; reflexivity|vm_compute; auto 6|vm_compute; intros [_ H]; discriminate].
  - eapply BadRange; [vm_compute; reflexivity|vm_compute; reflexivity|vm_compute; auto 6|vm_compute; intros [H _]; apply H; reflexivity].
  - eapply BadEnumName; [vm_compute; reflexivity|]. vm_compute. intros e [<-|[<-|[]]]; reflexivity.
  - eapply (BadFlagName _ _ _ _ _ (of_string "bogus")); [vm_compute; reflexivity|vm_compute; auto|vm_compute; reflexivity|].
    vm_compute. intros e [<-|[<-|[<-|[<-|[<-|[]]]]]]; reflexivity.
  - eapply BadFlagValue; [vm_compute; reflexivity|]. left. reflexivity.
Qed.

(* ---- create_then_enc_dec ---- *)
(* Composition with the codec.  The layout round trip (C01/C02: decoding the encoding of an admissible value through the family factory
   yields that value) is a NAMED PREMISE here -- the lead's proof of it is in progress; `adm` is its admissibility predicate. *)
Section EncDec.
Variable N : netcfg.
Variable root : string.               (* "Transaction" / "EmbeddedTransaction": the family whose factory deserializes *)
Variable adm : value -> Prop.
Hypothesis layout_roundtrip_premise : forall v b, adm v -> m_enc (n_tm N) "" v = Ok b -> m_decf (n_tm N) root b = Ok v.

Theorem create_then_enc_dec : forall emb autosort ident d v b,
  create N emb autosort ident d = Ok v -> adm v -> m_enc (n_tm N) "" v = Ok b ->
  m_decf (n_tm N) root b = Ok v /\ exists cls e, v = VStruct cls e /\ In cls (map snd (n_names N emb)).
Proof.
  exact (fun emb autosort ident d v b Hc Ha He => conj (layout_roundtrip_premise v b Ha He) (created_class N emb autosort ident d v Hc)).
Qed.
End EncDec.
Print Assumptions create_then_enc_dec.

(* ---- autosort_canonical ---- *)
(* with automatic sorting on, each keyed array of the created transaction is the stable key sort of what the descriptor gave, and it
   satisfies the strict-order predicate of C12 (strictly ascending under the declared comparer) when the keys are pairwise distinct *)
Theorem autosort_canonical : forall N emb ident d v', create N emb true ident d = Ok v' ->
  exists cls e0, create_core N emb ident d = Ok (VStruct cls e0) /\
  forall s n f a key l, lookup_struct (n_tm N) cls = Some s -> find_field (non_const (s_fields s)) n = Some f ->
    f_type f = FArray a -> a_sort_key a = Some key -> assoc n e0 = Some (VArr l) -> n <> "id" -> n <> "message" ->
    exists ks, keys_of_values (n_tm N) a l = Ok ks /\
               vget v' n = Some (VArr (map snd (sort_pairs key_lt (combine ks l)))) /\
               (shape_ok ks -> NoDup ks -> StronglySorted (fun p q => key_lt_spec (fst p) (fst q) = true) (sort_pairs key_lt (combine ks l))).
Proof. exact DescriptorProofs.autosort_canonical. Qed.
Print Assumptions autosort_canonical.

(* the post-processing after sorting touches `id` (symbol) / `message` (nem) only *)
Theorem post_processing_touches_only : forall N ident v v' n, extend N ident v = Ok v' -> n <> "id" -> n <> "message" -> vget v' n = vget v n.
Proof. exact extend_other. Qed.
Print Assumptions post_processing_touches_only.

(* ---- ids_filled ---- *)
(* symbol: the id of a created namespace registration / mosaic definition equals the hash definition of C13 applied to the transaction's
   own name + parent (0 for a root) / own nonce + the address of its own signer on the facade's network *)
Theorem ids_filled_namespace : forall N t_ns t_md child emb autosort ident d v',
  n_flavor N = Symbol -> enum_member N "TransactionType" "NAMESPACE_REGISTRATION" = Some t_ns ->
  enum_member N "TransactionType" "MOSAIC_DEFINITION" = Some t_md -> enum_member N "NamespaceRegistrationType" "CHILD" = Some child ->
  create N emb autosort ident d = Ok v' -> vget v' "type" = Some (VInt t_ns) -> vget v' "id" <> None ->
  exists nm parent, vget v' "name" = Some (VBytes nm) /\
    ((vget v' "registration_type" = Some (VInt child) /\ vget v' "parent_id" = Some (VInt parent)) \/
     (vget v' "registration_type" <> Some (VInt child) /\ parent = 0)) /\
    vget v' "id" = Some (VInt (from_le (firstn 8 (sha3_256 (to_le 8 parent ++ nm)%list)) mod 2 ^ 63 + 2 ^ 63)).
Proof. exact (fun N t_ns t_md child emb autosort ident d v' Hs E1 E2 E3 => namespace_id_filled N Hs t_ns t_md child E1 E2 E3 emb autosort ident d v'). Qed.
Print Assumptions ids_filled_namespace.

Theorem ids_filled_mosaic : forall N t_ns t_md child emb autosort ident d v',
  n_flavor N = Symbol -> enum_member N "TransactionType" "NAMESPACE_REGISTRATION" = Some t_ns ->
  enum_member N "TransactionType" "MOSAIC_DEFINITION" = Some t_md -> enum_member N "NamespaceRegistrationType" "CHILD" = Some child -> t_md <> t_ns ->
  create N emb autosort ident d = Ok v' -> vget v' "type" = Some (VInt t_md) -> vget v' "id" <> None ->
  exists pk nonce addr, vget v' "signer_public_key" = Some (VBytes pk) /\ vget v' "nonce" = Some (VInt nonce) /\
    public_key_to_address_now Symbol ident pk = Ok addr /\
    vget v' "id" = Some (VInt (from_le (firstn 8 (sha3_256 (to_le 4 nonce ++ addr)%list)) mod 2 ^ 63)).
Proof. exact (fun N t_ns t_md child emb autosort ident d v' Hs E1 E2 E3 Hne => mosaic_id_filled N Hs t_ns t_md child E1 E2 E3 Hne emb autosort ident d v'). Qed.
Print Assumptions ids_filled_mosaic.

(* non-vacuity on the shipped symbol tables: the enum members exist, are distinct, and a concrete descriptor of each artifact type is
   created with its generated id *)
Example ids_example :
  enum_member sc_cfg "TransactionType" "NAMESPACE_REGISTRATION" = Some 16718 /\ enum_member sc_cfg "TransactionType" "MOSAIC_DEFINITION" = Some 16717
  /\ enum_member sc_cfg "NamespaceRegistrationType" "CHILD" = Some 1
  /\ (exists v, create sc_cfg false true 152 [("type", DStr (of_string "namespace_registration_transaction_v1")); ("name", DStr (of_string "roger"))] = Ok v
                /\ vget v "id" = Some (VInt (generate_namespace_id sha3_256 (of_string "roger") 0)))
  /\ (exists v, create sc_cfg true false 104 [("type", DStr (of_string "mosaic_definition_transaction_v1")); ("nonce", DInt 123)] = Ok v
                /\ vget v "type" = Some (VInt 16717) /\ vget v "id" <> None).
Proof.
  repeat split; try (vm_compute; reflexivity).
  - eexists. split; vm_compute; reflexivity.
  - eexists. split; [vm_compute; reflexivity|]. split; [vm_compute; reflexivity|]. vm_compute. discriminate.
Qed.

(* ================= non-vacuity of the premises ================= *)
From Symv Require Import Cats.Layout Cats.LayoutInst Cats.StructProofs Cats.StructRoundTrip Cats.StructDecide.

Definition ex_descriptor : descriptor :=
  [("type", DStr (of_string "transfer_transaction_v1")); ("fee", DInt 1000);
   ("mosaics", DList [DDict [("mosaic_id", DInt 9); ("amount", DInt 2)]; DDict [("mosaic_id", DInt 3); ("amount", DInt 1)]])].
Definition ex_created : value := match create sc_cfg false true 152 ex_descriptor with Ok v => v | _ => VNull end.

(* a struct value is encoded by its own class, whatever static type the caller names *)
Lemma enc_struct_value_ignores_static_type : forall OP tm k t t' cls e,
  enc OP tm (S k) t (VStruct cls e) = enc OP tm (S k) t' (VStruct cls e).
Proof. intros. reflexivity. Qed.

(* conversion hint only: unfold the wrappers m_enc / m_decf before the interpreter's fixpoints *)
Local Strategy expand [m_enc m_decf].

(* the Section hypothesis layout_roundtrip_premise of create_then_enc_dec follows, for ANY schema, from the C01 theorem RT_decf when adm is
   the C01 fragment at the abstract root type (struct values, nesting n with 2n + 1 <= type_fuel) *)
Lemma layout_roundtrip_premise_from_C01 : forall tm root n, (2 * n + 1 <= type_fuel)%nat -> is_abs tm root = true ->
  forall v b, (admf tm n root v /\ exists cls e, v = VStruct cls e) -> m_enc tm "" v = Ok b -> m_decf tm root b = Ok v.
Proof.
  intros tm root n Hk Habs v b [Ha [cls [e ->]]] He. unfold m_enc, m_decf in *.
  assert (E : type_fuel = S 23) by reflexivity. rewrite E in *. clear E.
  rewrite (enc_struct_value_ignores_static_type ops_now tm 23 "" root cls e) in He.
  rewrite <- (app_nil_r b).
  exact (proj1 (RT_decf tm n (S 23) root (VStruct cls e) b [] Hk Ha Habs He)).
Qed.

(* create_then_enc_dec: its Section hypothesis is SATISFIABLE with a non-trivial admissibility predicate on the shipped Symbol tables
   (root "Transaction", adm := the C01 fragment, nesting <= 11); a created transaction (keyed array sorted by autosort) lies in that
   fragment and encodes *)
Example enc_dec_premise_nonvacuous :
  let adm := fun v => admf (n_tm sc_cfg) 11 "Transaction" v /\ exists cls e, v = VStruct cls e in
  (forall v b, adm v -> m_enc (n_tm sc_cfg) "" v = Ok b -> m_decf (n_tm sc_cfg) "Transaction" b = Ok v)
  /\ create sc_cfg false true 152 ex_descriptor = Ok ex_created
  /\ adm ex_created
  /\ match m_enc (n_tm sc_cfg) "" ex_created with Ok b => length b = (160 + 2 * 16)%nat | _ => False end.
Proof.
  cbv zeta. split.
  - apply layout_roundtrip_premise_from_C01; [vm_compute; repeat constructor|vm_compute; reflexivity].
  - split; [vm_compute; reflexivity|]. split; [|vm_compute; reflexivity].
    split; [apply admfb_sound; vm_compute; reflexivity|]. vm_compute. eexists. eexists. reflexivity.
Qed.
Print Assumptions enc_dec_premise_nonvacuous.

(* the remaining premises on the shipped Symbol tables: distinct keys and a successful create_core (create_holds_values_partial); the
   network member (created_network_is_facade_identifier); the version member paired with TRANSACTION_VERSION and not named by the
   descriptor (created_type_and_version_are_class_constants); one accepted entry per coercion form (the four coerce theorems); a successful extend
   (post_processing_touches_only) *)
Example create_premises_nonvacuous :
  let cls := "TransferTransactionV1" in
  (NoDup (map fst ex_descriptor) /\ match create_core sc_cfg false 152 ex_descriptor with Ok (VStruct c _) => c = cls | _ => False end)
  /\ (n_network_key sc_cfg <> "type" /\ rule_for sc_cfg cls (n_network_key sc_cfg) = Some (REnum "NetworkType")
      /\ option_map f_name (member_of sc_cfg cls (n_network_key sc_cfg)) = Some "network")
  /\ match lookup_struct (n_tm sc_cfg) cls with
     | Some s => match find_field (settable_fields s) "version" with
                 | Some f => In f (settable_fields s) /\ option_map f_name (paired_const s f) = Some "TRANSACTION_VERSION"
                             /\ NoDup (map f_name (settable_fields s))
                             /\ ~ In (py_name (f_name f)) (map fst (dict_set ex_descriptor (n_network_key sc_cfg) (DInt 152)))
                 | None => False
                 end
     | None => False
     end
  /\ (parse_pod sc_cfg "Amount" (DInt 5) = Ok (DObj OCodec "Amount" (VInt 5))
      /\ SdkHash256 <> SdkAddress
      /\ match parse_sdk sc_cfg SdkHash256 (DStr (of_string "00112233445566778899aabbccddeeff00112233445566778899AABBCCDDEEFF")) with Ok _ => True | _ => False end
      /\ match parse_enum sc_cfg "LinkAction" (DStr (of_string "link")) with Ok _ => True | _ => False end
      /\ match parse_flags sc_cfg "MosaicFlags" (DStr (of_string "transferable restrictable")) with Ok _ => True | _ => False end)
  /\ match extend sc_cfg 152 ex_created with Ok v' => vget v' "fee" = vget ex_created "fee" | _ => False end.
Proof.
  cbv zeta. split; [split; [|vm_compute; reflexivity]|].
  { vm_compute. repeat constructor; cbn [In]; intuition discriminate. }
  split; [vm_compute; repeat split; try reflexivity; discriminate|].
  split.
  { vm_compute. split; [auto 12|]. split; [reflexivity|]. split; [repeat constructor; cbn [In]; intuition discriminate|].
    intros H. repeat (destruct H as [H|H]; [discriminate H|]). exact H. }
  split; [|vm_compute; reflexivity].
  split; [vm_compute; reflexivity|]. split; [discriminate|]. vm_compute. repeat split; exact I.
Qed.
Print Assumptions create_premises_nonvacuous.

(* ================= nested descriptors: dictionaries under struct rules, lists under array rules, to any depth ================= *)

(* ---- the described value ---- *)
(* `described N r d x` (Sym/DescriptorNestedProofs.v) is the specification of what rule r makes of the descriptor value d: the coercion
   of the rule kind at a leaf; element by element for a list under an array rule; for a dictionary under a struct rule a fresh object of
   the rule's class in which every given key names a settable, non-computed member holding the described value of its entry (through the
   member's own rule, then the type converter; a list extends the constructor's list) and every member not given holds its default.
   For a descriptor tree whose dictionaries have distinct keys at every level, the parsing rules yield exactly that, for every amount
   of fuel that lets them finish. *)
Theorem nested_values_described : forall N fuel r d x, nodup_keys d -> parse N fuel r d = Ok x -> described N r d x.
Proof. exact parse_described. Qed.
Print Assumptions nested_values_described.

(* ---- create_holds_values, nested ---- *)
(* PARTIAL in the same sense as create_holds_values_partial (stated for create_core, the object before sort() and the id / message
   post-processing, which autosort_every_depth, post_processing_touches_only and ids_filled_namespace / ids_filled_mosaic characterise;
   create_holds_values_composed_partial below composes them).  What is new: each given member holds the DESCRIBED value of its entry
   -- recursively through nested dictionaries and lists -- its key is not a computed one, and the member exists in the constructed object. *)
Theorem create_holds_values_nested_partial : forall N emb ident d v,
  NoDup (map fst d) -> (forall k dv, In (k, dv) d -> nodup_keys dv) -> create_core N emb ident d = Ok v ->
  let d1 := dict_set d (n_network_key N) (DInt ident) in
  exists s name cls e0 e',
    assoc "type" d1 = Some (DStr s) /\ In (name, cls) (n_names N emb) /\ str_is name s = true /\
    new_instance N cls = Ok (VStruct cls e0) /\ v = VStruct cls e' /\ map fst e' = map fst e0 /\
    (forall k dv, In (k, dv) d1 -> k <> "type" ->
       exists f x old, member_of N cls k = Some f /\ ends_with k "_computed" = false /\ described_entry N cls k dv x /\
                       assoc (f_name f) e0 = Some old /\ vget v (f_name f) = Some (encode_str (stored x old))) /\
    (forall n, (forall k dv f, In (k, dv) d1 -> k <> "type" -> member_of N cls k = Some f -> f_name f <> n) ->
       vget v n = option_map encode_str (assoc n e0)).
Proof. exact create_core_holds_nested. Qed.
Print Assumptions create_holds_values_nested_partial.

(* ---- create_rejects, nested ---- *)
(* `bad_value N r d`: d has a defect somewhere inside -- a leaf its rule's coercion refuses (out-of-range number, unknown enum / flag
   name, foreign enum value / flag bits, hex or byte string of the wrong length), a non-list under an array rule, a non-dictionary under a
   struct rule, or in a dictionary at any depth a key that names no settable member, a computed member, or an entry whose value is bad.
   Such a value is never parsed, whatever the fuel: the error is not swallowed by the enclosing list or dictionary. *)
Theorem nested_defect_rejected : forall N r d, bad_value N r d -> forall fuel x, parse N fuel r d <> Ok x.
Proof. exact bad_value_rejected. Qed.
Print Assumptions nested_defect_rejected.

(* whatever the reason of the failure: if what stands at some position inside a descriptor value can never be parsed under the rule that
   applies there, the whole value cannot be parsed *)
Theorem nested_failure_propagates : forall N r d r' d', inside N r d r' d' ->
  (forall fuel y, parse N fuel r' d' <> Ok y) -> forall fuel x, parse N fuel r d <> Ok x.
Proof. exact failure_inside_propagates. Qed.
Print Assumptions nested_failure_propagates.

(* no object is created from a descriptor one of whose entries is bad at the top (create_rejects) or at any depth *)
Theorem create_rejects_nested : forall N emb autosort ident d,
  let d1 := dict_set d (n_network_key N) (DInt ident) in
  (exists s cls k dv, assoc "type" d1 = Some (DStr s) /\ class_of_type N emb (DStr s) = Ok cls /\ In (k, dv) d1 /\ k <> "type" /\
     (bad_entry N cls k dv \/ exists r, rule_for N cls k = Some r /\ bad_value N r dv)) ->
  forall v, create N emb autosort ident d <> Ok v.
Proof. exact DescriptorNestedProofs.create_rejects_nested. Qed.
Print Assumptions create_rejects_nested.

Theorem create_fails_on_failure_inside : forall N emb autosort ident d,
  let d1 := dict_set d (n_network_key N) (DInt ident) in
  forall s cls k dv r r' d', assoc "type" d1 = Some (DStr s) -> class_of_type N emb (DStr s) = Ok cls -> In (k, dv) d1 -> k <> "type" ->
    rule_for N cls k = Some r -> inside N r dv r' d' -> (forall fuel y, parse N fuel r' d' <> Ok y) ->
  forall v, create N emb autosort ident d <> Ok v.
Proof. exact DescriptorNestedProofs.create_fails_on_failure_inside. Qed.
Print Assumptions create_fails_on_failure_inside.

(* ---- fuel ---- *)
(* the parsing rules recurse on fuel (parse_fuel = 24 in create).  Any two amounts above the depth of the descriptor tree give the same
   outcome -- value, rejection or crash -- so the cut-off never decides the result of a descriptor less than parse_fuel deep *)
Theorem parse_fuel_sufficient : forall N k1 k2 r d, (ddepth d < k1)%nat -> (ddepth d < k2)%nat -> parse N k1 r d = parse N k2 r d.
Proof. exact parse_fuel_irrelevant. Qed.
Print Assumptions parse_fuel_sufficient.

(* create_core_fuel N k is create_core with k in the place of parse_fuel (create_core = create_core_fuel parse_fuel by reflexivity) *)
Theorem create_fuel_sufficient : forall N emb ident d k,
  (forall key dv, In (key, dv) d -> (ddepth dv < parse_fuel)%nat) -> (parse_fuel <= k)%nat ->
  create_core_fuel N k emb ident d = create_core N emb ident d.
Proof. exact DescriptorNestedProofs.create_fuel_sufficient. Qed.
Print Assumptions create_fuel_sufficient.

(* and for a rule table none of whose rules nests parse_fuel struct / array levels, more fuel changes nothing for ANY descriptor *)
Theorem create_fuel_sufficient_for_tables : forall N emb ident d k,
  rules_fit N parse_fuel = true -> (parse_fuel <= k)%nat -> create_core_fuel N k emb ident d = create_core N emb ident d.
Proof. exact DescriptorNestedProofs.create_fuel_sufficient_for_tables. Qed.
Print Assumptions create_fuel_sufficient_for_tables.

(* per-run obligation on the regenerated tables: the premise holds for both shipped networks *)
Example shipped_rule_tables_fit_the_fuel : rules_fit sc_cfg parse_fuel = true /\ rules_fit nc_cfg parse_fuel = true.
Proof. vm_compute. split; reflexivity. Qed.

(* the other two fuelled stages of create: sort() recurses on the nesting of the object (fuel type_fuel_d = 24), with the same
   insensitivity above the object's depth; the constructors recurse on the schema's type nesting only, and no class of either shipped
   schema runs out of fuel (per-run obligation on the regenerated schemas) *)
Theorem sort_fuel_sufficient : forall N k1 k2 v, (vdepth v < k1)%nat -> (vdepth v < k2)%nat -> sort_value N k1 v = sort_value N k2 v.
Proof. exact sort_fuel_irrelevant. Qed.
Print Assumptions sort_fuel_sufficient.

Example shipped_constructors_within_fuel : constructors_within_fuel sc_cfg = true /\ constructors_within_fuel nc_cfg = true.
Proof. vm_compute. split; reflexivity. Qed.

(* ---- autosort at every depth ---- *)
(* `visits N v v' w w'`: w is v or an object below it that sort() of v descends into (a struct-typed member whose condition holds), w'
   is what stands at the same place in v'.  With automatic sorting on, every such object keeps its class and member names, each of
   its keyed arrays is the stable key sort of what it held (keyed_sorted: a permutation of the given elements, non-descending under the
   declared comparer when the keys have one shape, strictly ascending when they are moreover distinct), and every member that is
   neither a keyed array nor a visited object is left as it was.  v' is `extend` of v1 (post_processing_touches_only, ids_filled_namespace, ids_filled_mosaic). *)
Theorem autosort_every_depth : forall N emb ident d v', create N emb true ident d = Ok v' ->
  exists v0 v1, create_core N emb ident d = Ok v0 /\ extend N ident v1 = Ok v' /\
  forall w w', visits N v0 v1 w w' ->
  exists cls s e e', w = VStruct cls e /\ w' = VStruct cls e' /\ lookup_struct (n_tm N) cls = Some s /\ map fst e' = map fst e /\
    (forall n a l, keyed_member s n a -> assoc n e = Some (VArr l) -> exists l', assoc n e' = Some (VArr l') /\ keyed_sorted N a l l') /\
    (forall n x, (forall a, ~ keyed_member s n a) -> ~ visited_member N w s n -> assoc n e = Some x -> assoc n e' = Some x).
Proof. exact DescriptorSortProofs.autosort_every_depth. Qed.
Print Assumptions autosort_every_depth.

(* keyed_sorted, spelled out (it is a definition of Sym/DescriptorSortProofs.v) *)
Example keyed_sorted_means : forall N a l l', keyed_sorted N a l l' <->
  exists ks, keys_of_values (n_tm N) a l = Ok ks /\
    l' = map snd (sort_pairs key_lt (combine ks l)) /\ Permutation l' l /\
    (shape_ok ks -> Sorted (fun p q => key_lt_spec (fst q) (fst p) = false) (sort_pairs key_lt (combine ks l))) /\
    (shape_ok ks -> NoDup ks -> StronglySorted (fun p q => key_lt_spec (fst p) (fst q) = true) (sort_pairs key_lt (combine ks l))).
Proof. intros. reflexivity. Qed.

(* ---- create_holds_values through all stages of create ---- *)
(* `arranged N autosort v0 st n y0 y` (Sym/DescriptorCreateProofs.v): with autosort, y is y0 brought into canonical order if member n is
   a keyed array (keyed_sorted), y is sort() of y0 if n is an object sort() visits, y = y0 otherwise; without autosort, y = y0.
   `post_member N` is "id" (symbol) / "message" (nem).
   PARTIAL: says nothing about the one member the post-processing writes -- `id` on symbol, which ids_filled_namespace /
   ids_filled_mosaic determine for the two artifact types, and `message` on nem (the transfer message is str-encoded one level down).
   Everything else of the FULL STATEMENT above create_holds_values_partial is here, for the object `create` returns: its class is the
   one create_by_name gives for the descriptor's type, it has exactly the constructor's member names, each member named by the
   descriptor (keys distinct at every level) holds the described value of its entry, recursively through nested dictionaries and lists,
   UTF-8 encoded if it is a str, and arranged by sort(); every member not named holds the constructor default, likewise. *)
Theorem create_holds_values_composed_partial : forall N emb autosort ident d v',
  NoDup (map fst d) -> (forall k dv, In (k, dv) d -> nodup_keys dv) -> create N emb autosort ident d = Ok v' ->
  let d1 := dict_set d (n_network_key N) (DInt ident) in
  exists s name cls st e0 v0 e',
    assoc "type" d1 = Some (DStr s) /\ In (name, cls) (n_names N emb) /\ str_is name s = true /\
    lookup_struct (n_tm N) cls = Some st /\ new_instance N cls = Ok (VStruct cls e0) /\ create_core N emb ident d = Ok v0 /\
    v' = VStruct cls e' /\ map fst e' = map fst e0 /\
    (forall k dv, In (k, dv) d1 -> k <> "type" ->
       exists f x old, member_of N cls k = Some f /\ ends_with k "_computed" = false /\ described_entry N cls k dv x /\
                       assoc (f_name f) e0 = Some old /\
                       (f_name f <> post_member N ->
                        exists y, vget v' (f_name f) = Some y /\ arranged N autosort v0 st (f_name f) (encode_str (stored x old)) y)) /\
    (forall n dflt, (forall k dv f, In (k, dv) d1 -> k <> "type" -> member_of N cls k = Some f -> f_name f <> n) ->
       n <> post_member N -> assoc n e0 = Some dflt ->
       exists y, vget v' n = Some y /\ arranged N autosort v0 st n (encode_str dflt) y).
Proof. exact create_holds_values_composed. Qed.
Print Assumptions create_holds_values_composed_partial.

Example arranged_means : forall N autosort v0 st n y0 y, arranged N autosort v0 st n y0 y <->
  if autosort then
    (exists a l l', keyed_member st n a /\ y0 = VArr l /\ y = VArr l' /\ keyed_sorted N a l l')
    \/ (visited_member N v0 st n /\ exists fuel, sort_value N fuel y0 = Ok y)
    \/ ((forall a, ~ keyed_member st n a) /\ ~ visited_member N v0 st n /\ y = y0)
  else y = y0.
Proof. intros. reflexivity. Qed.

(* ================= non-vacuity of the nested statements ================= *)
(* NEM transfer with one mosaic: dictionaries four levels below the list *)
Definition ex_nem_mosaics (inner : list (string * dval)) (last_key : string) (last : dval) : dval :=
  DList [DDict [("mosaic", DDict [("mosaic_id", DDict [("namespace_id", DDict (("name", DBytes (of_string "nem")) :: inner));
                                                       ("name", DBytes (of_string "xem"))]); (last_key, last)])]].
Definition ex_nem_transfer : descriptor :=
  [("type", DStr (of_string "transfer_transaction_v2")); ("amount", DInt 7); ("mosaics", ex_nem_mosaics [] "amount" (DInt 5))].

(* nested_values_described / create_holds_values_nested_partial: the premises hold together on the shipped tables, and the created
   objects hold the nested values (Symbol: two mosaics; NEM: namespace name four dictionaries down) *)
Example nested_premises_nonvacuous :
  (NoDup (map fst ex_descriptor) /\ (forall k dv, In (k, dv) ex_descriptor -> nodup_keys dv)
   /\ match create_core sc_cfg false 152 ex_descriptor with
      | Ok v => vget v "mosaics" = Some (VArr [VStruct "UnresolvedMosaic" [("mosaic_id", VInt 9); ("amount", VInt 2)];
                                               VStruct "UnresolvedMosaic" [("mosaic_id", VInt 3); ("amount", VInt 1)]])
      | _ => False
      end)
  /\ (NoDup (map fst ex_nem_transfer) /\ (forall k dv, In (k, dv) ex_nem_transfer -> nodup_keys dv)
      /\ match create_core nc_cfg false 104 ex_nem_transfer with
         | Ok v => vget v "mosaics" =
                   Some (VArr [VStruct "SizePrefixedMosaic" [("mosaic", VStruct "Mosaic" [
                                 ("mosaic_id", VStruct "MosaicId" [("namespace_id", VStruct "NamespaceId" [("name", VBytes (of_string "nem"))]);
                                                                   ("name", VBytes (of_string "xem"))]);
                                 ("amount", VInt 5)])]])
         | _ => False
         end)
  /\ (exists x, nodup_keys (ex_nem_mosaics [] "amount" (DInt 5))
                /\ parse nc_cfg parse_fuel (RArray (RStruct "SizePrefixedMosaic")) (ex_nem_mosaics [] "amount" (DInt 5)) = Ok x
                /\ rule_for nc_cfg "TransferTransactionV2" "mosaics" = Some (RArray (RStruct "SizePrefixedMosaic"))).
Proof.
  split; [|split].
  - split; [vm_compute; repeat constructor; cbn [In]; intuition discriminate|]. split; [|vm_compute; reflexivity].
    intros k dv Hin. apply nodup_keysb_sound. vm_compute in Hin. repeat (destruct Hin as [Hin|Hin]; [inversion Hin; subst; vm_compute; reflexivity|]). destruct Hin.
  - split; [vm_compute; repeat constructor; cbn [In]; intuition discriminate|]. split; [|vm_compute; reflexivity].
    intros k dv Hin. apply nodup_keysb_sound. vm_compute in Hin. repeat (destruct Hin as [Hin|Hin]; [inversion Hin; subst; vm_compute; reflexivity|]). destruct Hin.
  - eexists. split; [apply nodup_keysb_sound; vm_compute; reflexivity|]. split; vm_compute; reflexivity.
Qed.
Print Assumptions nested_premises_nonvacuous.

(* nested_defect_rejected / create_rejects_nested / create_fails_on_failure_inside: concrete defects below the top level on the shipped
   tables -- an out-of-range amount and a computed key three dictionaries down, an unknown key five levels down (NEM), a negative
   amount in the second mosaic (Symbol), a dictionary where a list is expected -- each together with the top-level premises *)
Example nested_rejections_nonvacuous :
  let r_nem := RArray (RStruct "SizePrefixedMosaic") in
  let r_sym := RArray (RStruct "UnresolvedMosaic") in
  let bad_sym := DList [DDict [("mosaic_id", DInt 9); ("amount", DInt 2)]; DDict [("mosaic_id", DInt 3); ("amount", DInt (-1))]] in
  (bad_value nc_cfg r_nem (ex_nem_mosaics [] "amount" (DInt (2 ^ 64)))
   /\ bad_value nc_cfg r_nem (ex_nem_mosaics [] "amount_computed" (DInt 5))
   /\ bad_value nc_cfg r_nem (ex_nem_mosaics [("bogus", DInt 1)] "amount" (DInt 5))
   /\ bad_value sc_cfg r_sym bad_sym
   /\ bad_value sc_cfg r_sym (DDict [("mosaic_id", DInt 9); ("amount", DInt 2)]))
  /\ (let d := [("type", DStr (of_string "transfer_transaction_v2")); ("mosaics", ex_nem_mosaics [("bogus", DInt 1)] "amount" (DInt 5))] in
      let d1 := dict_set d (n_network_key nc_cfg) (DInt 104) in
      assoc "type" d1 = Some (DStr (of_string "transfer_transaction_v2"))
      /\ class_of_type nc_cfg false (DStr (of_string "transfer_transaction_v2")) = Ok "TransferTransactionV2"
      /\ In ("mosaics", ex_nem_mosaics [("bogus", DInt 1)] "amount" (DInt 5)) d1 /\ "mosaics" <> "type"
      /\ rule_for nc_cfg "TransferTransactionV2" "mosaics" = Some r_nem
      /\ inside nc_cfg r_nem (ex_nem_mosaics [("bogus", DInt 1)] "amount" (DInt 5))
                (RStruct "NamespaceId") (DDict [("name", DBytes (of_string "nem")); ("bogus", DInt 1)])
      /\ (forall fuel y, parse nc_cfg fuel (RStruct "NamespaceId") (DDict [("name", DBytes (of_string "nem")); ("bogus", DInt 1)]) <> Ok y))
  /\ (rule_for sc_cfg "TransferTransactionV1" "mosaics" = Some r_sym
      /\ class_of_type sc_cfg false (DStr (of_string "transfer_transaction_v1")) = Ok "TransferTransactionV1").
Proof.
  cbv zeta.
  assert (Hbogus : bad_value nc_cfg (RStruct "NamespaceId") (DDict [("name", DBytes (of_string "nem")); ("bogus", DInt 1)])).
  { eapply BvNonMember; [right; left; reflexivity|vm_compute; reflexivity]. }
  split; [|split].
  - split; [|split; [|split; [|split]]].
    + eapply BvElem; [left; reflexivity|]. eapply BvMember; [left; reflexivity|vm_compute; reflexivity|].
      eapply BvMember; [right; left; reflexivity|vm_compute; reflexivity|]. apply BvLeaf.
      eapply BlRange; [vm_compute; reflexivity|vm_compute; auto 6|vm_compute; intros [_ H]; discriminate].
    + eapply BvElem; [left; reflexivity|]. eapply BvMember; [left; reflexivity|vm_compute; reflexivity|].
      eapply BvComputed; [right; left; reflexivity|vm_compute; reflexivity].
    + eapply BvElem; [left; reflexivity|]. eapply BvMember; [left; reflexivity|vm_compute; reflexivity|].
      eapply BvMember; [left; reflexivity|vm_compute; reflexivity|]. eapply BvMember; [left; reflexivity|vm_compute; reflexivity|]. exact Hbogus.
    + eapply BvElem; [right; left; reflexivity|]. eapply BvMember; [right; left; reflexivity|vm_compute; reflexivity|]. apply BvLeaf.
      eapply BlRange; [vm_compute; reflexivity|vm_compute; auto 6|vm_compute; intros [H _]; apply H; reflexivity].
    + apply BvNotList. exact I.
  - split; [vm_compute; reflexivity|]. split; [vm_compute; reflexivity|]. split; [vm_compute; auto 6|]. split; [discriminate|].
    split; [vm_compute; reflexivity|]. split.
    + eapply InElem; [left; reflexivity|]. eapply InMember; [left; reflexivity|vm_compute; reflexivity|].
      eapply InMember; [left; reflexivity|vm_compute; reflexivity|]. eapply InMember; [left; reflexivity|vm_compute; reflexivity|]. apply InHere.
    + exact (nested_defect_rejected nc_cfg _ _ Hbogus).
  - split; vm_compute; reflexivity.
Qed.
Print Assumptions nested_rejections_nonvacuous.

(* the fuel premises: both example descriptors are far less than parse_fuel deep (the NEM one is 5 deep), and the created object is
   far less than type_fuel_d deep *)
Example fuel_premises_nonvacuous :
  (forall key dv, In (key, dv) ex_descriptor -> (ddepth dv < parse_fuel)%nat)
  /\ (forall key dv, In (key, dv) ex_nem_transfer -> (ddepth dv < parse_fuel)%nat)
  /\ ddepth (ex_nem_mosaics [] "amount" (DInt 5)) = 5%nat /\ (parse_fuel <= 1000)%nat
  /\ create_core_fuel nc_cfg 6 false 104 ex_nem_transfer = create_core nc_cfg false 104 ex_nem_transfer
  /\ (vdepth ex_created < type_fuel_d)%nat.
Proof.
  split; [|split; [|split; [|split; [|split]]]].
  - intros key dv Hin. vm_compute in Hin. repeat (destruct Hin as [Hin|Hin]; [inversion Hin; subst; vm_compute; repeat constructor|]). destruct Hin.
  - intros key dv Hin. vm_compute in Hin. repeat (destruct Hin as [Hin|Hin]; [inversion Hin; subst; vm_compute; repeat constructor|]). destruct Hin.
  - vm_compute. reflexivity.
  - vm_compute. repeat constructor.
  - vm_compute. reflexivity.
  - vm_compute. repeat constructor.
Qed.

(* autosort_every_depth: a NEM multisig transaction whose inner transaction (an SDK object, here built by the struct rule machinery)
   carries its two modifications in descending order.  create succeeds; sort() visits the inner transaction (depth 1), its member
   `modifications` is a keyed array, and it comes out in ascending order while autosort = false leaves it as given *)
Definition ex_pk (first : Z) : bytes := first :: List.repeat 7 31.
Definition ex_modification (kind : string) (first : Z) : dval :=
  DDict [("modification", DDict [("modification_type", DStr (of_string kind)); ("cosignatory_public_key", DBytes (ex_pk first))])].
Definition ex_inner : dval :=
  match parse nc_cfg parse_fuel (RStruct "NonVerifiableMultisigAccountModificationTransactionV1")
              (DDict [("modifications", DList [ex_modification "delete_cosignatory" 17; ex_modification "add_cosignatory" 0])]) with
  | Ok x => x | _ => DInt 0 end.
Definition ex_multisig : descriptor := [("type", DStr (of_string "multisig_transaction_v1")); ("inner_transaction", ex_inner)].
Definition ex_modification_value (kind first : Z) : value :=
  VStruct "SizePrefixedMultisigAccountModification"
    [("modification", VStruct "MultisigAccountModification" [("modification_type", VInt kind); ("cosignatory_public_key", VBytes (ex_pk first))])].

Example autosort_every_depth_nonvacuous :
  match create_core nc_cfg false 104 ex_multisig, create nc_cfg false true 104 ex_multisig, create nc_cfg false false 104 ex_multisig with
  | Ok v0, Ok v', Ok v'' =>
    exists w w' s a, vget v0 "inner_transaction" = Some w /\ vget v' "inner_transaction" = Some w' /\ visits nc_cfg v0 v' w w'
      /\ lookup_struct (n_tm nc_cfg) "NonVerifiableMultisigAccountModificationTransactionV1" = Some s /\ keyed_member s "modifications" a
      /\ vget w "modifications" = Some (VArr [ex_modification_value 2 17; ex_modification_value 1 0])
      /\ vget w' "modifications" = Some (VArr [ex_modification_value 1 0; ex_modification_value 2 17])
      /\ vget v'' "inner_transaction" = Some w
  | _, _, _ => False
  end.
Proof.
  set (c0 := create_core nc_cfg false 104 ex_multisig). set (c1 := create nc_cfg false true 104 ex_multisig).
  set (c2 := create nc_cfg false false 104 ex_multisig).
  vm_compute in c0, c1, c2. subst c0 c1 c2. cbv iota beta.
  eexists. eexists. eexists. eexists.
  split; [vm_compute; reflexivity|]. split; [vm_compute; reflexivity|]. split.
  { eapply VisMember with (n := "inner_transaction"); [vm_compute; reflexivity| |vm_compute; reflexivity|vm_compute; reflexivity|apply VisHere].
    eexists. eexists. eexists. split; [vm_compute; reflexivity|]. split; [vm_compute; reflexivity|]. split; vm_compute; reflexivity. }
  split; [vm_compute; reflexivity|]. split.
  { eexists. eexists. split; [vm_compute; reflexivity|]. split; vm_compute; reflexivity. }
  split; [vm_compute; reflexivity|]. split; vm_compute; reflexivity.
Qed.
Print Assumptions autosort_every_depth_nonvacuous.

(* create_holds_values_composed_partial: its premises hold together for the Symbol transfer (autosort on: the two mosaics come out in
   ascending order of their ids, `mosaics` is not the post member) and for the NEM multisig transaction (the visited inner object) *)
Example create_composed_nonvacuous :
  (NoDup (map fst ex_descriptor) /\ (forall k dv, In (k, dv) ex_descriptor -> nodup_keys dv)
   /\ create sc_cfg false true 152 ex_descriptor = Ok ex_created /\ "mosaics" <> post_member sc_cfg
   /\ vget ex_created "mosaics" = Some (VArr [VStruct "UnresolvedMosaic" [("mosaic_id", VInt 3); ("amount", VInt 1)];
                                              VStruct "UnresolvedMosaic" [("mosaic_id", VInt 9); ("amount", VInt 2)]]))
  /\ (NoDup (map fst ex_multisig) /\ (forall k dv, In (k, dv) ex_multisig -> nodup_keys dv)
      /\ match create nc_cfg false true 104 ex_multisig with Ok _ => True | _ => False end /\ "inner_transaction" <> post_member nc_cfg).
Proof.
  split.
  - split; [vm_compute; repeat constructor; cbn [In]; intuition discriminate|]. split; [|split; [vm_compute; reflexivity|split; [discriminate|vm_compute; reflexivity]]].
    intros k dv Hin. apply nodup_keysb_sound. vm_compute in Hin. repeat (destruct Hin as [Hin|Hin]; [inversion Hin; subst; vm_compute; reflexivity|]). destruct Hin.
  - split; [vm_compute; repeat constructor; cbn [In]; intuition discriminate|]. split; [|split; [vm_compute; exact I|discriminate]].
    intros k dv Hin. destruct Hin as [Hin|[Hin|[]]]; inversion Hin; subst; constructor.
Qed.
Print Assumptions create_composed_nonvacuous.
