(* C08 -- addresses derive from public keys per network and round-trip through text.
   Only statements; each closed by `exact` of a lemma proved in Sym/AddressProofs.v.  The left-hand functions are the model of
   symbolchain/Network.py, symbol/Network.py, nem/Network.py and ByteArray.__init__ (Sym/Address.v) instantiated with the
   constants, operators and alphabet regenerated from /repo (Gen/AddressOps.v), over the model of CPython's base64.b32encode /
   b32decode (Sym/Base32.v); the right-hand specifications (address_of, valid_address_spec, text_to_bytes, in_alphabet_spec,
   spec_size, spec_encoded_size, spec_checksum_size; Sym/AddressProofs.v, head of file) are fixed text.
   A network is (flavor, identifier): flavor Symbol hashes with SHA3-256, flavor Nem with Keccak-256. *)
From Symv Require Import Base.Bytes Base.PyOps Sym.Keccak Sym.KeccakProofs Sym.Ripemd Sym.Base32 Sym.Address Sym.AddressProofs Sym.AddressProofs2.
Open Scope Z_scope.

(* ---- parametric in the address hasher H (per flavor) and in RIPEMD-160 R: only output lengths are used ---- *)

Theorem address_structure : forall (H : flavor -> bytes -> bytes) (R : bytes -> bytes),
  (forall fl x, length (H fl x) = 32%nat) -> (forall x, length (R x) = 20%nat) ->
  forall fl id pk, 0 <= id < 256 ->
    public_key_to_address H R fl id pk = Ok (([id] ++ R (H fl pk)) ++ firstn (match fl with Symbol => 3 | Nem => 4 end) (H fl ([id] ++ R (H fl pk))))
    /\ length (address_of H R fl id pk) = match fl with Symbol => 24%nat | Nem => 25%nat end.
Proof.
  exact (fun H R Hl Rl fl id pk Hid => conj (AddressProofs.address_structure H R Hl Rl fl id pk Hid) (AddressProofs.address_of_length H R Hl Rl fl id pk)).
Qed.
Print Assumptions address_structure.

Theorem valid_on_own_network : forall (H : flavor -> bytes -> bytes) (R : bytes -> bytes),
  (forall fl x, length (H fl x) = 32%nat) -> (forall x, length (R x) = 20%nat) ->
  forall fl id pk, is_valid_address H fl id (address_of H R fl id pk) = true.
Proof. exact AddressProofs.valid_on_own_network. Qed.
Print Assumptions valid_on_own_network.

Theorem invalid_on_other_identifier : forall (H : flavor -> bytes -> bytes) (R : bytes -> bytes) fl fl' id id' pk,
  id' <> id -> is_valid_address H fl' id' (address_of H R fl id pk) = false.
Proof. exact AddressProofs.invalid_on_other_identifier. Qed.
Print Assumptions invalid_on_other_identifier.

(* "carries the network identifier and the matching checksum", for every byte string *)
Theorem valid_address_def : forall (H : flavor -> bytes -> bytes) fl id a,
  is_valid_address H fl id a = true <->
  nth_error a 0 = Some id /\ skipn 21 a = firstn (length a - 21) (H fl (firstn 21 a)).
Proof. exact AddressProofs.is_valid_address_def. Qed.
Print Assumptions valid_address_def.

(* ---- base32 ---- *)

(* Address(str(a)) = a for ALL well-formed byte strings of the address size: 24 (Symbol: '=' dropped / 'A' appended, last byte dropped) and 25 (NEM) *)
Theorem base32_roundtrip : forall fl b,
  length b = (match fl with Symbol => 24 | Nem => 25 end)%nat -> wf_bytes b = true ->
  address_from_string fl (address_to_string fl b) = Ok b.
Proof. exact AddressProofs.string_roundtrip. Qed.
Print Assumptions base32_roundtrip.

(* the text of an address determines the address: str is injective on well-formed byte strings of the network's address size *)
Theorem address_text_injective : forall fl a b,
  length a = (match fl with Symbol => 24 | Nem => 25 end)%nat -> wf_bytes a = true ->
  length b = (match fl with Symbol => 24 | Nem => 25 end)%nat -> wf_bytes b = true ->
  address_to_string fl a = address_to_string fl b -> a = b.
Proof. exact AddressProofs2.address_text_injective. Qed.
Print Assumptions address_text_injective.

(* the general lemma behind it: any length that is a multiple of 5 (each 5-byte group is one 40-bit number, read in base 256 and in base 32) *)
Theorem base32_roundtrip_any_multiple_of_5 : forall n b,
  length b = (5 * n)%nat -> wf_bytes b = true -> b32decode (b32encode b) = Ok b.
Proof. exact AddressProofs.b32_roundtrip_mult5. Qed.
Print Assumptions base32_roundtrip_any_multiple_of_5.

(* and the Symbol form for any length 5n + 4 *)
Theorem base32_roundtrip_symbol_form : forall n a,
  length a = (5 * n + 4)%nat -> wf_bytes a = true -> b32decode (address_to_string Symbol a ++ [65]) = Ok (a ++ [0]).
Proof. exact AddressProofs.sym_b32_roundtrip. Qed.
Print Assumptions base32_roundtrip_symbol_form.

(* str(address) has the network's length and alphabet *)
Theorem text_shape : forall fl b, length b = (match fl with Symbol => 24 | Nem => 25 end)%nat ->
  length (address_to_string fl b) = (match fl with Symbol => 39 | Nem => 40 end)%nat
  /\ forallb in_alphabet_spec (address_to_string fl b) = true.
Proof. exact AddressProofs.to_string_shape_spec. Qed.
Print Assumptions text_shape.

(* base64.b32decode never fails on text over A-Z2-7 whose length is a multiple of 8; the result is the number the text spells *)
Theorem b32decode_never_fails_on_alphabet : forall n s,
  length s = (8 * n)%nat -> forallb in_alphabet_spec s = true -> b32decode s = Ok (to_be (5 * n) (text_value s)).
Proof. exact AddressProofs.b32decode_total. Qed.
Print Assumptions b32decode_never_fails_on_alphabet.

(* Address(str) on text of the network's length and alphabet: never raises; Symbol ignores the 3 trailing bits of the last character *)
Theorem address_from_text : forall fl s,
  length s = (match fl with Symbol => 39 | Nem => 40 end)%nat -> forallb in_alphabet_spec s = true ->
  address_from_string fl s = Ok (match fl with Symbol => to_be 24 (text_value s / 2 ^ 3) | Nem => to_be 25 (text_value s) end).
Proof. exact AddressProofs.from_string_spec. Qed.
Print Assumptions address_from_text.

(* a string is accepted exactly when it has the network's length and alphabet and its decoded bytes are a valid address *)
Theorem valid_string_iff : forall (H : flavor -> bytes -> bytes) fl id s,
  is_valid_address_string H fl id s = Ok true <->
  length s = (match fl with Symbol => 39 | Nem => 40 end)%nat /\ forallb in_alphabet_spec s = true
  /\ is_valid_address H fl id (text_to_bytes fl s) = true.
Proof. exact AddressProofs.valid_string_iff. Qed.
Print Assumptions valid_string_iff.

Theorem valid_string_never_raises : forall (H : flavor -> bytes -> bytes) fl id s, exists b, is_valid_address_string H fl id s = Ok b.
Proof. exact AddressProofs.valid_string_total. Qed.
Print Assumptions valid_string_never_raises.

(* the text of a derived address parses back to the address and is accepted by its own network *)
Theorem derived_address_text : forall (H : flavor -> bytes -> bytes) (R : bytes -> bytes),
  (forall fl x, length (H fl x) = 32%nat) -> (forall x, length (R x) = 20%nat) ->
  (forall fl x, wf_bytes (H fl x) = true) -> (forall x, wf_bytes (R x) = true) ->
  forall fl id pk, 0 <= id < 256 ->
    address_from_string fl (address_to_string fl (address_of H R fl id pk)) = Ok (address_of H R fl id pk)
    /\ is_valid_address_string H fl id (address_to_string fl (address_of H R fl id pk)) = Ok true.
Proof. exact AddressProofs.derived_address_text. Qed.
Print Assumptions derived_address_text.

(* ---- the premises hold for the shipped hashes (Gallina SHA3-256, Keccak-256, RIPEMD-160) ---- *)

Theorem hash_premises :
  (forall fl x, length (hasher_now fl x) = 32%nat) /\ (forall x, length (ripemd160 x) = 20%nat)
  /\ (forall fl x, wf_bytes (hasher_now fl x) = true) /\ (forall x, wf_bytes (ripemd160 x) = true).
Proof. exact (conj hasher_now_length (conj ripemd160_length (conj hasher_now_wf ripemd160_wf))). Qed.
Print Assumptions hash_premises.

Theorem address_structure_symbol : forall id pk, 0 <= id < 256 ->
  public_key_to_address_now Symbol id pk =
  Ok (([id] ++ ripemd160 (sha3_256 pk)) ++ firstn 3 (sha3_256 ([id] ++ ripemd160 (sha3_256 pk)))).
Proof. exact AddressProofs.address_structure_symbol. Qed.
Print Assumptions address_structure_symbol.

Theorem address_structure_nem : forall id pk, 0 <= id < 256 ->
  public_key_to_address_now Nem id pk =
  Ok (([id] ++ ripemd160 (keccak_256 pk)) ++ firstn 4 (keccak_256 ([id] ++ ripemd160 (keccak_256 pk)))).
Proof. exact AddressProofs.address_structure_nem. Qed.
Print Assumptions address_structure_nem.

Theorem shipped_derive_validate_roundtrip : forall fl id pk a, 0 <= id < 256 ->
  public_key_to_address_now fl id pk = Ok a ->
  a = address_of hasher_now ripemd160 fl id pk
  /\ is_valid_address_now fl id a = true
  /\ (forall fl' id', id' <> id -> is_valid_address_now fl' id' a = false)
  /\ address_from_string fl (address_to_string fl a) = Ok a
  /\ is_valid_address_string_now fl id (address_to_string fl a) = Ok true.
Proof. exact AddressProofs.shipped_derive_validate_roundtrip. Qed.
Print Assumptions shipped_derive_validate_roundtrip.

(* the identifiers of the shipped networks (regenerated) are bytes and mainnet differs from testnet, so neither validates the other's addresses *)
Theorem shipped_networks_separate : forall fl pk,
  (exists a, public_key_to_address_now fl (mainnet_id fl) pk = Ok a
             /\ is_valid_address_now fl (mainnet_id fl) a = true /\ is_valid_address_now fl (testnet_id fl) a = false)
  /\ (exists a, public_key_to_address_now fl (testnet_id fl) pk = Ok a
                /\ is_valid_address_now fl (testnet_id fl) a = true /\ is_valid_address_now fl (mainnet_id fl) a = false).
Proof. exact AddressProofs.shipped_networks_separate. Qed.
Print Assumptions shipped_networks_separate.

(* non-vacuity: a concrete key on Symbol mainnet; its text; the 7 other spellings of the ignored trailing bits are accepted too (the
   property does not forbid it), a changed data bit is not; outside 0..255 there is no address *)
Example derivation_example :
  let pk := of_hex "2e834140fd66cf87b254a693a2c7862c819217b676d3943267156625e816ec6f" in
  public_key_to_address_now Symbol sym_mainnet_id pk = Ok (of_hex "6826d27e1d0a26ca4e316f901e23e55c8711db20df250def")
  /\ address_to_string Symbol (of_hex "6826d27e1d0a26ca4e316f901e23e55c8711db20df250def") = of_string "NATNE7Q5BITMUTRRN6IB4I7FLSDRDWZA34SQ33Y"
  /\ is_valid_address_string_now Symbol sym_mainnet_id (of_string "NATNE7Q5BITMUTRRN6IB4I7FLSDRDWZA34SQ33Y") = Ok true
  /\ is_valid_address_string_now Symbol sym_mainnet_id (of_string "NATNE7Q5BITMUTRRN6IB4I7FLSDRDWZA34SQ337") = Ok true
  /\ is_valid_address_string_now Symbol sym_mainnet_id (of_string "NATNE7Q5BITMUTRRN6IB4I7FLSDRDWZA34SQ33Q") = Ok false
  /\ is_valid_address_string_now Symbol sym_testnet_id (of_string "NATNE7Q5BITMUTRRN6IB4I7FLSDRDWZA34SQ33Y") = Ok false
  /\ is_valid_address_string_now Symbol sym_mainnet_id (of_string "natne7q5bitmutrrn6ib4i7flsdrdwza34sq33y") = Ok false
  /\ public_key_to_address_now Nem 256 pk = Reject.
Proof. vm_compute. repeat split. Qed.

(* non-vacuity of the length / well-formedness / alphabet / range premises (base32_roundtrip, base32_roundtrip_any_multiple_of_5,
   text_shape, b32decode_never_fails_on_alphabet, address_from_text, address_structure*, invalid_on_other_identifier): the derived
   address and its text above meet them; the premises on the hashes are discharged by hash_premises *)
Example premises_nonvacuous :
  let a := of_hex "6826d27e1d0a26ca4e316f901e23e55c8711db20df250def" in
  let s := of_string "NATNE7Q5BITMUTRRN6IB4I7FLSDRDWZA34SQ33Y" in
  (length a = 24%nat /\ wf_bytes a = true /\ address_from_string Symbol (address_to_string Symbol a) = Ok a)
  /\ (length s = 39%nat /\ forallb in_alphabet_spec s = true /\ address_from_string Symbol s = Ok a)
  /\ (length (a ++ [0]) = (5 * 5)%nat /\ wf_bytes (a ++ [0]) = true /\ b32decode (b32encode (a ++ [0])) = Ok (a ++ [0]))
  /\ (length (s ++ [65]) = (8 * 5)%nat /\ forallb in_alphabet_spec (s ++ [65]) = true)
  /\ (0 <= sym_mainnet_id < 256 /\ 0 <= sym_testnet_id < 256 /\ sym_testnet_id <> sym_mainnet_id).
Proof. vm_compute. repeat split; try reflexivity; discriminate. Qed.
Print Assumptions premises_nonvacuous.
