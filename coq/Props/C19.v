(* C19 -- the C++ linter is silent on conforming code and flags every seeded violation (proof, PARTIAL).
   Only statements; each closed by `exact` of a lemma of Lint/RegexProofs.v / Lint/LineRulesProofs.v, or (per-run kernel
   obligations on the regenerated tables) by vm_compute.  The left-hand sides are the model of linters/cpp/validation.py and
   HeaderParser.parse_file (Lint/LineRules.v) instantiated with the patterns, limits, operators and marker strings
   regenerated from /repo (Gen/LintPatterns.v); the specifications are fixed text.

   Theorems exist for: whitespace patterns, line length, `template <`, catch placement, the typo list, consecutive blank
   lines, blank line before the last line, pragma once / licence header, region pairing, undo, exit status.
   NO theorem (seeded runs against the real linter only): include order, first include, preprocessor indentation
   (C20 models those), namespace versus path, forward declarations, brace / return formatting, cross-component and
   dependency rules, and all other validators.  "Silence on the whole tree" is an execution, not a theorem.

   The two rules that look at the line after strip_comments_and_strings ("Spaces in the middle", "Comma should be
   followed by a space") are proved for EVERY line whose text left of the seeded word is `closed_prefix` (no "//", every
   "/*" closed by a "*/", quotes paired into non-empty literals without the delimiting quote -- and, in character
   literals, any quote -- inside), whatever
   follows the word; the shapes outside that class on which the linter stays silent are stated as `_refuted` with a
   witness line.  The dependency closure is characterised exactly (paths of length >= 1; loop error iff a cycle). *)
From Symv Require Import Lint.Regex Lint.RegexProofs Lint.Deps Lint.DepsProofs Base.PyOps Gen.LintPatterns Gen.LintDeps Lint.LineRules Lint.LineRulesProofs Lint.LineRulesProofs2 Lint.DepsProofs2.
Open Scope Z_scope.

(* ---- the regex engine ---- *)
Theorem derivative_correct : forall w r pr post, run (hd_error pr) r w (hd_error post) = true <-> M r pr w post.
Proof. exact run_spec. Qed.
Print Assumptions derivative_correct.

Theorem search_is_substring_match :
  forall r s, search r s = true <-> exists pre w post, s = pre ++ w ++ post /\ M r (rev pre) w post.
Proof. exact search_spec. Qed.
Print Assumptions search_is_substring_match.

Theorem search_intro : forall r w pre post, anchor_free r = true -> Matches r w -> search r (pre ++ w ++ post) = true.
Proof. exact RegexProofs.search_intro. Qed.
Print Assumptions search_intro.

(* generic seeded_flagged for search-based rules: a witness word inserted between neighbours of classes for which it is
   admissible (decided by computation on three representatives per side) is found, whatever the rest of the line is *)
Theorem seeded_flagged : forall r w pre post,
  admissible r w (cls (last_opt pre)) (cls (hd_error post)) = true -> search r (pre ++ w ++ post) = true.
Proof. exact search_intro_cls. Qed.
Print Assumptions seeded_flagged.

(* ---- per-run kernel obligations on the regenerated tables ---- *)
Theorem typo_table_ok : forallb pat_ok typo_table = true.
Proof. vm_compute. reflexivity. Qed.

Theorem typo_table_nonempty : (100 <= length typo_table)%nat.
Proof. vm_compute. repeat constructor. Qed.

Theorem single_patterns_ok :
  forallb pat_ok [ws_whitespaces; ws_spaces_start; ws_tabs_start; ws_spaces_middle; ws_space_operator; ws_tab_inside;
                  ws_carriage_return; ws_comma; template_pat; catch_pat] = true.
Proof. vm_compute. reflexivity. Qed.

Theorem comma_pattern_shape :
  fixed_len (p_re ws_comma) = Some (length (p_wit ws_comma)) /\ list_eqb (p_wit ws_comma) comma_exempt = false.
Proof. vm_compute. split; reflexivity. Qed.

Theorem blank_pattern_ok : is_blank [] = true /\ is_blank [9; 32] = true /\ is_blank [120] = false.
Proof. vm_compute. repeat split; reflexivity. Qed.

(* fixed catalogue: words that violate a rule by the rule's own wording (independent of the regenerated patterns) *)
Definition typo_pattern (message : string) : regex :=
  match filter (fun p => String.eqb (p_id p) message) typo_table with p :: _ => p_re p | [] => Empty end.
Definition comment_with (word : string) : list Z := of_string "		// seeded " ++ of_string word.
Definition fixed_typo_catalogue : list (string * string) := [
  ("Timestamp not TimeStamp or Time Stamp", "TimeStamp"); ("Timestamp not TimeStamp or Time Stamp", "Time Stamp");
  ("Filesystem not FileSystem or File System", "FileSystem"); ("Filesystem not FileSystem or File System", "File System");
  ("Filename not FileName or File_Name or File Name", "FileName"); ("Filename not FileName or File_Name or File Name", "File_Name");
  ("Filename not FileName or File_Name or File Name", "File Name");
  ("Nonzero not NonZero or Non Zero or NotZero or Not Zero", "NonZero"); ("Nonzero not NonZero or Non Zero or NotZero or Not Zero", "Non Zero");
  ("Nonzero not NonZero or Non Zero or NotZero or Not Zero", "NotZero"); ("Nonzero not NonZero or Non Zero or NotZero or Not Zero", "Not Zero");
  ("ThreadPool not Threadpool", "Threadpool"); ("Blockchain not BlockChain or Block Chain", "BlockChain");
  ("Blockchain not BlockChain or Block Chain", "Block Chain"); ("NotEmpty not NonEmpty or non-empty", "NonEmpty");
  ("NotEmpty not NonEmpty or non-empty", "non-empty"); ("Roundtrip not RoundTrip or Round Trip", "RoundTrip");
  ("Roundtrip not RoundTrip or Round Trip", "Round Trip"); ("ValidationResult not ValidatorResult", "ValidatorResult");
  ("SubCache or sub cache not Subcache or sub-cache", "Subcache"); ("SubCache or sub cache not Subcache or sub-cache", "sub-cache");
  ("catapult not cataputl", "cataputl"); ("use NoOp* instead of Noop", "Noop"); ("prefer using", "typedef");
  ("prefer uint8_t", "unsigned char"); ("cosigner(s) => cosignatory(ies)", "cosigner");
  ("use shuts down instead of shutdowns", "shutdowns"); ("rephrase to avoid ', and'", "foo, and bar");
  ("no double semicolons", "x;;"); ("no space before semicolon", "x ;"); ("use uppercase hex constants", "0xab");
  ("use `0x` no `0X`", "0XAB"); ("missing space after while", "while(x)"); ("use while (false)", "while (0)");
  ("missing space before override", "f()override"); ("do not have space before comma", "a , b")
]%string.

Theorem fixed_typo_catalogue_flagged :
  forallb (fun e => search (typo_pattern (fst e)) (comment_with (snd e))) fixed_typo_catalogue = true.
Proof. vm_compute. reflexivity. Qed.

Theorem fixed_line_catalogue_flagged :
     search (p_re ws_whitespaces) (of_string "	int x; ") = true
  /\ match_prefix (p_re ws_spaces_start) (of_string " 	int x;") = true
  /\ match_prefix (p_re ws_spaces_start) (of_string "	 int x;") = true
  /\ match_prefix (p_re ws_tabs_start) (of_string "		") = true
  /\ search (p_re ws_space_operator) (of_string "	if (! x)") = true
  /\ search (p_re ws_tab_inside) (of_string "	int x	= 1;") = true
  /\ search (p_re ws_spaces_middle) (of_string "	int x  = 1;") = true
  /\ comma_hit (of_string "	f(a,b);") = Some true
  /\ comma_hit (of_string "	F(a,)") = Some false
  /\ search (p_re ws_carriage_return) (of_string "	int x;" ++ [13]) = true
  /\ search (p_re template_pat) (of_string "	template <typename T>") = true
  /\ search (p_re catch_pat) (of_string "		catch (...) {") = true
  /\ search (p_re catch_pat) (of_string "		} catch (...) {") = false
  /\ length_line 7 (repeat 120 200) = [mkf "tooLongLines" 7 ""]
  /\ length_line 7 (repeat 120 20) = [].
Proof. vm_compute. repeat split; reflexivity. Qed.

(* ---- seeded_flagged per family: f is any file (no `accepted f` premise is needed: the report contains the finding
   whatever else it contains); the edit inserts the witness word at column k of line i + 1 ---- *)
Theorem seeded_flagged_typo : forall p hdr f i k l,
  In p typo_table -> nth_error f i = Some l -> in_ctx p (firstn k l) (skipn k l) = true ->
  In (mkf "nameTypo" (Z.of_nat i + 1) (p_id p)) (lint_file hdr (seed_word i k (p_wit p) f)).
Proof.
  exact (fun p hdr f i k l Hp Hl Hc => seeded_word_at hdr f i k (p_wit p) l _ Hl
    (per_line_typo _ _ _ (typo_reports _ _ p Hp
      (pat_search p _ _ (proj1 (forallb_forall pat_ok typo_table) typo_table_ok p Hp) Hc)))).
Qed.
Print Assumptions seeded_flagged_typo.

Local Notation single_ok p := (proj1 (forallb_forall pat_ok _) single_patterns_ok p ltac:(simpl; tauto)).

Theorem seeded_flagged_template : forall hdr f i k l,
  nth_error f i = Some l -> in_ctx template_pat (firstn k l) (skipn k l) = true ->
  In (mkf "templateFollowedBySpace" (Z.of_nat i + 1) "Template followed by space") (lint_file hdr (seed_word i k (p_wit template_pat) f)).
Proof.
  exact (fun hdr f i k l Hl Hc => seeded_word_at hdr f i k _ l _ Hl
    (per_line_template _ _ _ (template_reports _ _ (pat_search template_pat _ _ (single_ok template_pat) Hc)))).
Qed.
Print Assumptions seeded_flagged_template.

(* `catch` on a line of its own: the witness (white space + catch) starts the line *)
Theorem seeded_flagged_catch : forall hdr f i post,
  (i <= length f)%nat -> in_ctx catch_pat [] post = true ->
  In (mkf "catchAndClosingTryBraceOnSeparateLines" (Z.of_nat i + 1) "catch and closing try brace must be on same line")
     (lint_file hdr (seed_line i (p_wit catch_pat ++ post) f)).
Proof.
  exact (fun hdr f i post Hi Hc => seeded_line_at hdr f i _ _ Hi
    (per_line_catch _ _ _ (catch_reports _ _ (pat_search catch_pat [] post (single_ok catch_pat) Hc)))).
Qed.
Print Assumptions seeded_flagged_catch.

Theorem seeded_flagged_ws_trailing : forall hdr f i k l,
  nth_error f i = Some l -> in_ctx ws_whitespaces (firstn k l) (skipn k l) = true ->
  In (mkf W (Z.of_nat i + 1) "Whitespace at line ending") (lint_file hdr (seed_word i k (p_wit ws_whitespaces) f)).
Proof.
  exact (fun hdr f i k l Hl Hc => seeded_word_at hdr f i k _ l _ Hl
    (per_line_ws _ _ _ (ws_trailing_reports _ _ (pat_search ws_whitespaces _ _ (single_ok ws_whitespaces) Hc)))).
Qed.
Print Assumptions seeded_flagged_ws_trailing.

Theorem seeded_flagged_ws_spaces_start : forall hdr f i l,
  nth_error f i = Some l -> in_ctx ws_spaces_start [] l = true ->
  In (mkf W (Z.of_nat i + 1) "Spaces at beginning of a line") (lint_file hdr (seed_word i 0 (p_wit ws_spaces_start) f)).
Proof.
  exact (fun hdr f i l Hl Hc => seeded_word_at hdr f i 0 _ l _ Hl
    (per_line_ws _ _ _ (ws_spaces_start_reports _ _ (pat_match_prefix ws_spaces_start l (single_ok ws_spaces_start) Hc)))).
Qed.
Print Assumptions seeded_flagged_ws_spaces_start.

(* a new line consisting of the witness (tabs) only *)
Theorem seeded_flagged_ws_tabs_line : forall hdr f i,
  (i <= length f)%nat ->
  In (mkf W (Z.of_nat i + 1) "Tabs in empty line") (lint_file hdr (seed_line i (p_wit ws_tabs_start ++ []) f)).
Proof.
  exact (fun hdr f i Hi => seeded_line_at hdr f i _ _ Hi
    (per_line_ws _ _ _ (ws_tabs_start_reports _ _ (pat_match_prefix ws_tabs_start [] (single_ok ws_tabs_start) eq_refl)))).
Qed.
Print Assumptions seeded_flagged_ws_tabs_line.

Theorem seeded_flagged_ws_space_operator : forall hdr f i k l,
  nth_error f i = Some l -> in_ctx ws_space_operator (firstn k l) (skipn k l) = true ->
  In (mkf W (Z.of_nat i + 1) "Space after operator") (lint_file hdr (seed_word i k (p_wit ws_space_operator) f)).
Proof.
  exact (fun hdr f i k l Hl Hc => seeded_word_at hdr f i k _ l _ Hl
    (per_line_ws _ _ _ (ws_space_operator_reports _ _ (pat_search ws_space_operator _ _ (single_ok ws_space_operator) Hc)))).
Qed.
Print Assumptions seeded_flagged_ws_space_operator.

Theorem seeded_flagged_ws_tab_inside : forall hdr f i k l,
  nth_error f i = Some l -> in_ctx ws_tab_inside (firstn k l) (skipn k l) = true ->
  In (mkf W (Z.of_nat i + 1) "Tab present inside the text") (lint_file hdr (seed_word i k (p_wit ws_tab_inside) f)).
Proof.
  exact (fun hdr f i k l Hl Hc => seeded_word_at hdr f i k _ l _ Hl
    (per_line_ws _ _ _ (ws_tab_inside_reports _ _ (pat_search ws_tab_inside _ _ (single_ok ws_tab_inside) Hc)))).
Qed.
Print Assumptions seeded_flagged_ws_tab_inside.

(* PARTIAL: proved for seeded lines without "/", double and single quotes (strip_comments_and_strings is then the identity).
   Full statement: the same for every line in which the inserted double space lies outside comments and string literals. *)
Theorem seeded_flagged_ws_spaces_middle_partial : forall hdr f i k l,
  nth_error f i = Some l -> in_ctx ws_spaces_middle (firstn k l) (skipn k l) = true ->
  no_strip_chars (firstn k l ++ p_wit ws_spaces_middle ++ skipn k l) = true ->
  In (mkf W (Z.of_nat i + 1) "Spaces in the middle") (lint_file hdr (seed_word i k (p_wit ws_spaces_middle) f)).
Proof.
  exact (fun hdr f i k l Hl Hc Hn => seeded_word_at hdr f i k _ l _ Hl
    (per_line_ws _ _ _ (ws_spaces_middle_reports _ _ Hn (pat_search ws_spaces_middle _ _ (single_ok ws_spaces_middle) Hc)))).
Qed.
Print Assumptions seeded_flagged_ws_spaces_middle_partial.

(* PARTIAL: as above, and only the leftmost comma candidate of a line is examined by the code (an earlier ",)" hides later
   violations): the premise no_start says that no candidate starts left of the seeded word. *)
Theorem seeded_flagged_ws_comma_partial : forall hdr f i k l,
  nth_error f i = Some l -> in_ctx ws_comma (firstn k l) (skipn k l) = true ->
  no_strip_chars (firstn k l ++ p_wit ws_comma ++ skipn k l) = true ->
  no_start None (p_re ws_comma) (firstn k l) (p_wit ws_comma ++ skipn k l) = true ->
  In (mkf W (Z.of_nat i + 1) "Comma should be followed by a space") (lint_file hdr (seed_word i k (p_wit ws_comma) f)).
Proof.
  exact (fun hdr f i k l Hl Hc Hn Hs => seeded_word_at hdr f i k _ l _ Hl
    (per_line_ws _ _ _ (ws_comma_reports _ (firstn k l) (p_wit ws_comma) (skipn k l) _ Hn Hs
      (eq_ind_r (fun o => prefix_match o _ _ = true) (pat_prefix_match ws_comma _ _ (single_ok ws_comma) Hc) (last_or_None _))
      (proj1 comma_pattern_shape) eq_refl (proj2 comma_pattern_shape)))).
Qed.
Print Assumptions seeded_flagged_ws_comma_partial.

(* ---- the rules that look at the stripped line, for every closed prefix ----
   closed_prefix pre (a decision procedure, Lint/LineRulesProofs2.v) reads pre from the left the way the stripper does:
   (1) every "/" of pre is followed, inside pre, by something other than "/" (no "//", pre does not end with "/");
   (2) every "/*" opens a comment that is closed inside pre by the nearest "*/" after at least one code point;
   (3) in the text with these comments replaced, every double or single quote outside a literal opens a literal that is
       closed by the same quote after at least one code point, none of them a double quote and (in a character literal)
       none a single quote either -- "it's" is fine, a character literal holding a double quote is not.
   That is: the seeded word lies outside comments and string / character literals, and the comments and literals to its
   left are ones the linter's stripper delimits the way C++ does.  Outside the class: see the _refuted statements below
   (empty literal, "//" inside a literal, a double quote inside a character literal); escaped quotes inside literals are
   neither proved nor refuted in general.  Per-run kernel obligations on the regenerated patterns first. *)
Theorem stripped_rules_shape :
  anchor_free (p_re ws_spaces_middle) = true /\ matches (p_re ws_spaces_middle) (p_wit ws_spaces_middle) = true
  /\ no_strip_chars (p_wit ws_spaces_middle) = true /\ p_re ws_comma = comma_re /\ comma_exempt = [44; 41].
Proof. vm_compute. repeat split; reflexivity. Qed.

(* what strip_comments_and_strings does around a word without "/" and quotes that follows a closed prefix: it works on
   both sides independently and leaves the word alone, WHATEVER follows (comments, unclosed literals, ...) *)
Theorem strip_keeps_word_after_closed_prefix : forall pre w post,
  closed_prefix pre = true -> no_strip_chars w = true -> strip_cs (pre ++ w ++ post) = strip_cs pre ++ w ++ strip_cs post.
Proof. exact (fun pre w post Hp Hw => strip_cs_at pre w post (closed_prefix_closed pre Hp) Hw). Qed.
Print Assumptions strip_keeps_word_after_closed_prefix.

(* the class contains every line on which stripping is the identity by absence of "/" and quotes (the premise of the two
   _partial theorems above) *)
Theorem closed_prefix_contains_plain : forall l, no_strip_chars l = true -> closed_prefix l = true.
Proof. exact no_strip_closed_prefix. Qed.
Print Assumptions closed_prefix_contains_plain.

(* a double space inserted at column k of ANY line whose first k code points are a closed prefix is reported, whatever
   the rest of the line is.  The class is in the premise: prefixes outside closed_prefix on which the linter is silent are
   the _refuted statements below; prefixes holding a literal with a backslash-escaped quote are outside the class too and
   are neither proved nor refuted here (the seeded sites of the check avoid lines with a backslash). *)
Theorem seeded_flagged_ws_spaces_middle : forall hdr f i k l,
  nth_error f i = Some l -> closed_prefix (firstn k l) = true ->
  In (mkf W (Z.of_nat i + 1) "Spaces in the middle") (lint_file hdr (seed_word i k (p_wit ws_spaces_middle) f)).
Proof.
  exact (fun hdr f i k l Hl Hp => seeded_word_at hdr f i k _ l _ Hl
    (per_line_ws _ _ _ (ws_spaces_middle_reports_closed _ (firstn k l) (skipn k l)
      (proj1 stripped_rules_shape) (proj1 (proj2 stripped_rules_shape)) (proj1 (proj2 (proj2 stripped_rules_shape))) Hp))).
Qed.
Print Assumptions seeded_flagged_ws_spaces_middle.

(* a comma followed by ANY code point c other than a blank, ")" , "/" and the quotes, inserted after a closed prefix whose
   stripped form holds no exempt ",)" : reported.  (The code looks at the leftmost comma candidate of the stripped line only;
   an earlier candidate other than ",)" is as good as the seeded one, so only ",)" has to be excluded.) *)
Theorem seeded_flagged_ws_comma : forall hdr f i k l c,
  nth_error f i = Some l -> closed_prefix (firstn k l) = true ->
  no_strip_chars [44; c] = true -> c <> 32 -> c <> 41 ->
  contains comma_exempt (strip_cs (firstn k l)) = false ->
  In (mkf W (Z.of_nat i + 1) "Comma should be followed by a space") (lint_file hdr (seed_word i k [44; c] f)).
Proof.
  exact (fun hdr f i k l c Hl Hp Hw H32 H41 Hc => seeded_word_at hdr f i k _ l _ Hl
    (per_line_ws _ _ _ (ws_comma_reports_closed _ (firstn k l) c (skipn k l)
      (proj1 (proj2 (proj2 (proj2 stripped_rules_shape)))) (proj2 (proj2 (proj2 (proj2 stripped_rules_shape)))) Hp Hw H32 H41 Hc))).
Qed.
Print Assumptions seeded_flagged_ws_comma.

Example stripped_rules_nonvacuous :
  let l := of_string "	call(""a/b"", 'c', /* don't */ ""it's"", x / y) + g(u); // note" in
  nth_error [l] 0 = Some l
  /\ closed_prefix (firstn 46 l) = true /\ closed_prefix (firstn 50 l) = true
  /\ no_strip_chars [44; 120] = true /\ 120 <> 32 /\ 120 <> 41 /\ p_wit ws_comma = [44; 120]
  /\ contains comma_exempt (strip_cs (firstn 50 l)) = false
  /\ strip_cs (firstn 50 l) = of_string "	call(dummy, dummy, dummy dummy, x / y) + g(u"
  /\ In (mkf W 1 "Spaces in the middle") (lint_file false (seed_word 0 46 (p_wit ws_spaces_middle) [l]))
  /\ In (mkf W 1 "Comma should be followed by a space") (lint_file false (seed_word 0 50 [44; 120] [l])).
Proof. vm_compute. repeat split; try reflexivity; try discriminate; auto 20. Qed.

(* ---- every violation word, not only the regenerated witness: w is ANY word the rule's pattern matches between neighbours
   of the classes found at column k (admissible = the derivative matcher run on w with one representative per class;
   for a pattern without assertions that is just `matches`), inserted at ANY column of ANY line ---- *)
Theorem seeded_flagged_typo_any_word : forall p hdr f i k l w,
  In p typo_table -> nth_error f i = Some l ->
  admissible (p_re p) w (cls (last_opt (firstn k l))) (cls (hd_error (skipn k l))) = true ->
  In (mkf "nameTypo" (Z.of_nat i + 1) (p_id p)) (lint_file hdr (seed_word i k w f)).
Proof.
  exact (fun p hdr f i k l w Hp Hl Ha => seeded_word_at hdr f i k w l _ Hl
    (per_line_typo _ _ _ (typo_reports _ _ p Hp (search_intro_cls _ _ _ _ Ha)))).
Qed.
Print Assumptions seeded_flagged_typo_any_word.

Theorem seeded_flagged_template_any_word : forall hdr f i k l w,
  nth_error f i = Some l -> admissible (p_re template_pat) w (cls (last_opt (firstn k l))) (cls (hd_error (skipn k l))) = true ->
  In (mkf "templateFollowedBySpace" (Z.of_nat i + 1) "Template followed by space") (lint_file hdr (seed_word i k w f)).
Proof.
  exact (fun hdr f i k l w Hl Ha => seeded_word_at hdr f i k w l _ Hl
    (per_line_template _ _ _ (template_reports _ _ (search_intro_cls _ _ _ _ Ha)))).
Qed.
Print Assumptions seeded_flagged_template_any_word.

Theorem seeded_flagged_ws_trailing_any_word : forall hdr f i k l w,
  nth_error f i = Some l -> admissible (p_re ws_whitespaces) w (cls (last_opt (firstn k l))) (cls (hd_error (skipn k l))) = true ->
  In (mkf W (Z.of_nat i + 1) "Whitespace at line ending") (lint_file hdr (seed_word i k w f)).
Proof.
  exact (fun hdr f i k l w Hl Ha => seeded_word_at hdr f i k w l _ Hl
    (per_line_ws _ _ _ (ws_trailing_reports _ _ (search_intro_cls _ _ _ _ Ha)))).
Qed.
Print Assumptions seeded_flagged_ws_trailing_any_word.

Theorem seeded_flagged_ws_space_operator_any_word : forall hdr f i k l w,
  nth_error f i = Some l -> admissible (p_re ws_space_operator) w (cls (last_opt (firstn k l))) (cls (hd_error (skipn k l))) = true ->
  In (mkf W (Z.of_nat i + 1) "Space after operator") (lint_file hdr (seed_word i k w f)).
Proof.
  exact (fun hdr f i k l w Hl Ha => seeded_word_at hdr f i k w l _ Hl
    (per_line_ws _ _ _ (ws_space_operator_reports _ _ (search_intro_cls _ _ _ _ Ha)))).
Qed.
Print Assumptions seeded_flagged_ws_space_operator_any_word.

Theorem seeded_flagged_ws_tab_inside_any_word : forall hdr f i k l w,
  nth_error f i = Some l -> admissible (p_re ws_tab_inside) w (cls (last_opt (firstn k l))) (cls (hd_error (skipn k l))) = true ->
  In (mkf W (Z.of_nat i + 1) "Tab present inside the text") (lint_file hdr (seed_word i k w f)).
Proof.
  exact (fun hdr f i k l w Hl Ha => seeded_word_at hdr f i k w l _ Hl
    (per_line_ws _ _ _ (ws_tab_inside_reports _ _ (search_intro_cls _ _ _ _ Ha)))).
Qed.
Print Assumptions seeded_flagged_ws_tab_inside_any_word.

(* spaces (and tabs before them) in front of any line: re.match, so the word starts the line *)
Theorem seeded_flagged_ws_spaces_start_any_word : forall hdr f i l w,
  nth_error f i = Some l -> admissible (p_re ws_spaces_start) w KNone (cls (hd_error l)) = true ->
  In (mkf W (Z.of_nat i + 1) "Spaces at beginning of a line") (lint_file hdr (seed_word i 0 w f)).
Proof.
  exact (fun hdr f i l w Hl Ha => seeded_word_at hdr f i 0 w l _ Hl
    (per_line_ws _ _ _ (ws_spaces_start_reports _ _ (match_prefix_intro_cls _ w l Ha)))).
Qed.
Print Assumptions seeded_flagged_ws_spaces_start_any_word.

(* two or more blanks (any word of the pattern without "/" and quotes) after a closed prefix *)
Theorem seeded_flagged_ws_spaces_middle_any_word : forall hdr f i k l w,
  nth_error f i = Some l -> matches (p_re ws_spaces_middle) w = true -> no_strip_chars w = true ->
  closed_prefix (firstn k l) = true ->
  In (mkf W (Z.of_nat i + 1) "Spaces in the middle") (lint_file hdr (seed_word i k w f)).
Proof.
  exact (fun hdr f i k l w Hl Hm Hw Hp => seeded_word_at hdr f i k _ l _ Hl
    (per_line_ws _ _ _ (ws_spaces_middle_reports_closed_word _ (firstn k l) w (skipn k l) (proj1 stripped_rules_shape) Hm Hw Hp))).
Qed.
Print Assumptions seeded_flagged_ws_spaces_middle_any_word.

Example any_word_nonvacuous :
  let l := of_string "	int x = f(a);" in
  nth_error [l] 0 = Some l
  (* "y 	 " at the end of the line; "template 	<" and "(! " and ")	" after "= "; "	  " in front; five blanks after "=" *)
  /\ admissible (p_re ws_whitespaces) (of_string "y 	 ") (cls (last_opt (firstn 14 l))) (cls (hd_error (skipn 14 l))) = true
  /\ admissible (p_re template_pat) (of_string "template 	<") (cls (last_opt (firstn 9 l))) (cls (hd_error (skipn 9 l))) = true
  /\ admissible (p_re ws_space_operator) (of_string "(! ") (cls (last_opt (firstn 9 l))) (cls (hd_error (skipn 9 l))) = true
  /\ admissible (p_re ws_tab_inside) (of_string ")	") (cls (last_opt (firstn 9 l))) (cls (hd_error (skipn 9 l))) = true
  /\ admissible (p_re ws_spaces_start) (of_string "	  ") KNone (cls (hd_error l)) = true
  /\ matches (p_re ws_spaces_middle) (of_string "     ") = true /\ no_strip_chars (of_string "     ") = true
  /\ closed_prefix (firstn 8 l) = true
  /\ existsb (fun p => admissible (p_re p) (of_string "ime stamp") (cls (last_opt (firstn 9 l))) (cls (hd_error (skipn 9 l)))) typo_table = true.
Proof. vm_compute. repeat split; reflexivity. Qed.

(* ---- outside the class: lines on which the linter stays silent although the seeded word lies outside comments and
   literals in the C++ reading.  First what the stripper does there (general), then a witness line each. ---- *)
(* an EMPTY string literal is not recognised ("(.+?)" needs one code point): the text from it up to the next double quote
   is taken for one literal and disappears, a seeded word inside it included (known finding) *)
Theorem strip_swallows_after_empty_literal : forall pre mid post,
  closed_prefix pre = true -> no_strip_chars mid = true ->
  strip_cs (pre ++ [34; 34] ++ mid ++ [34] ++ post) = strip_cs pre ++ of_string "dummy" ++ strip_cs post.
Proof. exact (fun pre mid post Hp Hm => strip_cs_empty_literal pre mid post (closed_prefix_closed pre Hp) Hm). Qed.
Print Assumptions strip_swallows_after_empty_literal.

(* "//" is cut first, inside a string literal or not: everything from it on disappears *)
Theorem strip_cuts_at_double_slash : forall pre post,
  follow_ok 47 pre = true -> strip_cs (pre ++ [47; 47] ++ post) = strip_cs pre.
Proof. exact (fun pre post H => strip_cs_double_slash pre post (shifts_follow 47 pre H)). Qed.
Print Assumptions strip_cuts_at_double_slash.

Definition silent_on (l : line) : Prop := ws_line 1 l = [].

(* known finding: 	f("",g(""));  and the double space of  	f("")  + g(""); *)
Theorem ws_after_empty_literal_refuted :
     silent_on (of_string "	f(""""" ++ [44; 103] ++ of_string "(""""));")
  /\ silent_on (of_string "	f("""")" ++ p_wit ws_spaces_middle ++ of_string "+ g("""");").
Proof. vm_compute. split; reflexivity. Qed.

(* NOT among the recorded findings: a string literal that contains "//" hides everything to its right
   	auto x = f("http://a",b);      	auto x = f("http://a")  + 1; *)
Theorem ws_after_literal_with_slashes_refuted :
     silent_on (of_string "	auto x = f(""http://a""" ++ [44; 98] ++ of_string ");")
  /\ silent_on (of_string "	auto x = f(""http://a"")" ++ p_wit ws_spaces_middle ++ of_string "+ 1;").
Proof. vm_compute. split; reflexivity. Qed.

(* NOT among the recorded findings: a character literal holding a double quote, with a string literal further right (the
   two lines are the arguments of silent_on below, C++ text: foo( character literal of a double quote ,a, "x"); ) *)
Theorem ws_after_quote_character_refuted :
     silent_on (of_string "	foo('""'" ++ [44; 97] ++ of_string ", ""x"");")
  /\ silent_on (of_string "	foo('""')" ++ p_wit ws_spaces_middle ++ of_string "+ g(""x"");").
Proof. vm_compute. split; reflexivity. Qed.

(* the premise about ",)" cannot be dropped: only the leftmost candidate is examined.   	F(a,) g(b,c); *)
Theorem ws_comma_hidden_by_exempt_refuted :
  let pre := of_string "	F(a,) g(b" in
  closed_prefix pre = true /\ contains comma_exempt (strip_cs pre) = true /\ silent_on (pre ++ [44; 99] ++ of_string ");").
Proof. vm_compute. repeat split; reflexivity. Qed.

(* a carriage return anywhere in the file is reported once for the file (line 0) *)
Theorem seeded_flagged_ws_carriage_return : forall hdr f i k l,
  nth_error f i = Some l -> in_ctx ws_carriage_return (firstn k l) (skipn k l) = true ->
  In (mkf W 0 "Carriage returns present in file") (lint_file hdr (seed_word i k (p_wit ws_carriage_return) f)).
Proof.
  exact (fun hdr f i k l Hl Hc => lint_file_ws_final hdr _ _
    (cr_reports _ (firstn k l ++ p_wit ws_carriage_return ++ skipn k l)
      (eq_ind_r (fun x => In _ x) (in_elt _ _ _) (seed_word_shape i k _ f l Hl))
      (pat_search ws_carriage_return _ _ (single_ok ws_carriage_return) Hc))).
Qed.
Print Assumptions seeded_flagged_ws_carriage_return.

(* line length: any line of at least <regenerated limit> code points (tabs count 4, so expansion only adds) *)
Theorem seeded_flagged_length : forall hdr l1 x l2,
  line_length_limit <= Z.of_nat (length x) -> In (mkf "tooLongLines" (Z.of_nat (length l1) + 1) "") (lint_file hdr (l1 ++ x :: l2)).
Proof. exact (fun hdr l1 x l2 H => lint_file_at hdr _ l1 x l2 (per_line_length _ _ _ (length_reports _ x H))). Qed.
Print Assumptions seeded_flagged_length.

(* ---- stateful rules ---- *)
(* a blank line b directly after a blank line a (not at lines 1-2, where the real code crashes instead) *)
Theorem seeded_flagged_consecutive_blank : forall hdr l1 a b l2,
  is_blank a = true -> is_blank b = true -> (1 <= length l1)%nat ->
  In (mkf "consecutiveEmpty" (Z.of_nat (length l1) + 2) "") (lint_file hdr (l1 ++ a :: b :: l2)).
Proof. exact (fun hdr l1 a b l2 Ha Hb Hl => lint_file_consec hdr _ _ (consec_reports l1 a b l2 Ha Hb Hl)). Qed.
Print Assumptions seeded_flagged_consecutive_blank.

(* PARTIAL: a line before the last line that consists of white space but is not empty is reported.
   Full statement (every blank line p, including the empty one) is REFUTED by the next theorem. *)
Theorem seeded_flagged_blank_near_end_partial : forall hdr l1 p last,
  p <> [] -> forallb is_space p = true -> (1 <= length l1)%nat ->
  In (mkf "emptyNearEnd" (Z.of_nat (length l1) + 3) "") (lint_file hdr (l1 ++ [p; last])).
Proof. exact (fun hdr l1 p last Hp Hs Hl => lint_file_near_end hdr _ _ (near_end_reports l1 p last Hp Hs Hl)). Qed.
Print Assumptions seeded_flagged_blank_near_end_partial.

Theorem blank_near_end_empty_line_refuted : forall l1 last, near_end (l1 ++ [[]; last]) = [].
Proof. exact near_end_misses_empty_line. Qed.
Print Assumptions blank_near_end_empty_line_refuted.

Theorem seeded_flagged_missing_licence : forall hdr ls,
  (forall l, In l ls -> starts_with lic_open l = false) -> In (mkf P 0 "Missing license info") (lint_file hdr ls).
Proof. exact (fun hdr ls H => lint_file_pragma hdr ls _ (missing_license_reports hdr ls H)). Qed.
Print Assumptions seeded_flagged_missing_licence.

Theorem seeded_flagged_missing_pragma_once : forall ls,
  (forall l, In l ls -> list_eqb l pragma_once = false) -> In (mkf P 0 "Missing `#pragma once`") (lint_file true ls).
Proof. exact (fun ls H => lint_file_pragma true ls _ (missing_pragma_reports ls H)). Qed.
Print Assumptions seeded_flagged_missing_pragma_once.

(* an empty line inserted between `#pragma once` and the first #include of a header (l1 = the lines before `#pragma once`:
   the validator has left the licence comment and has decided nothing yet).  The finding carries the number of the LAST empty
   line of the file (empty_line_number keeps being overwritten), which is at least the seeded line |l1| + 2; the printed
   message of this suite has no line number. *)
Theorem seeded_flagged_pragma_empty_line : forall l1 inc l2,
  got_pragma (pragma_run (pragma_init true) 1 l1) = None -> report_empty (pragma_run (pragma_init true) 1 l1) = None ->
  inside (pragma_run (pragma_init true) 1 l1) <> 1 -> inside (pragma_run (pragma_init true) 1 l1) <> 2 ->
  starts_with pp_include inc = true ->
  exists n, Z.of_nat (length l1) + 2 <= n
            /\ In (mkf P n "Empty line after `#pragma once`") (lint_file true (seed_line (S (length l1)) [] (l1 ++ pragma_once :: inc :: l2))).
Proof.
  exact (fun l1 inc l2 Hg Hr H1 H2 Hi =>
    match pragma_empty_line_reports l1 inc l2 Hg Hr H1 H2 Hi with
    | ex_intro _ n (conj Hn H) => ex_intro _ n (conj Hn (lint_file_pragma true _ _
        (eq_ind_r (fun y => In _ (pragma_check true y)) H (seed_after_pragma l1 inc l2))))
    end).
Qed.
Print Assumptions seeded_flagged_pragma_empty_line.

Example pragma_empty_line_example :
  let head := [of_string "/**"; of_string "**/"; []] in
  got_pragma (pragma_run (pragma_init true) 1 head) = None /\ report_empty (pragma_run (pragma_init true) 1 head) = None
  /\ inside (pragma_run (pragma_init true) 1 head) = 3
  /\ pragma_check true (head ++ [pragma_once; of_string "#include <x>"]) = []
  /\ pragma_check true (head ++ [pragma_once; []; of_string "#include <x>"]) = [mkf P 5 "Empty line after `#pragma once`"].
Proof. vm_compute. repeat split; reflexivity. Qed.

(* deleting an end-of-region marker from a file whose markers are balanced *)
Theorem seeded_flagged_region_unclosed : forall hdr l1 x l2,
  is_kind REnd x = true -> count_kind ROpen (l1 ++ x :: l2) = count_kind REnd (l1 ++ x :: l2) ->
  exists n, In (mkf R n "non-closed region (probable location)") (lint_file hdr (unseed_line (length l1) (l1 ++ x :: l2))).
Proof.
  exact (fun hdr l1 x l2 Hx Hb =>
    match region_delete_end_reports l1 x l2 Hx Hb with
    | ex_intro _ n H => ex_intro _ n (lint_file_region hdr _ _ (eq_ind_r (fun y => In _ (region_check y)) H (delete_at_shape (length l1) l1 x l2 eq_refl)))
    end).
Qed.
Print Assumptions seeded_flagged_region_unclosed.

Theorem seeded_flagged_region_malformed : forall hdr l1 x l2,
  region_kind_of x = Some RInvalid -> In (mkf R (Z.of_nat (length l1) + 1) "invalid region") (lint_file hdr (l1 ++ x :: l2)).
Proof. exact (fun hdr l1 x l2 H => lint_file_region hdr _ _ (region_invalid_reports l1 x l2 H)). Qed.
Print Assumptions seeded_flagged_region_malformed.

(* ---- dependency rules (DepsChecker over the regenerated deps.config) ---- *)
Definition deps_fuel : nat := Z.to_nat (define_level_limit - define_level_start).
Definition compiled_now : list rule := match create_rules deps_fuel deps_defines deps_lines with Some c => c | None => [] end.

(* per-run kernel obligations: the nesting test is `level >= limit`; the shipped configuration parses completely, every
   name is a translatable regex, expansion stays within the nesting limit and process_rules finds no loop *)
Theorem deps_config_ok :
  define_level_op = Ge /\ deps_unparseable = 0%nat /\ deps_untranslatable = 0%nat
  /\ (if create_rules deps_fuel deps_defines deps_lines then true else false) = true.
Proof. vm_compute. repeat split; reflexivity. Qed.

(* fixed catalogue: catapult/crypto may include catapult/utils and the top-level catapult directory, not catapult/cache;
   a single directory name is read relative to the including directory *)
Theorem fixed_dependency_catalogue :
     deps_allowed deps_names compiled_now (of_string "catapult/crypto") (of_string "catapult/utils") = true
  /\ deps_allowed deps_names compiled_now (of_string "catapult/crypto") (of_string "catapult") = true
  /\ deps_allowed deps_names compiled_now (of_string "catapult/crypto") (of_string "catapult/cache") = false
  /\ deps_allowed deps_names compiled_now (of_string "catapult/utils") (of_string "catapult/cache") = false
  /\ deps_allowed deps_names compiled_now (of_string "catapult/thread") (of_string "detail") = true.
Proof. vm_compute. repeat split; reflexivity. Qed.

Theorem define_expansion_is_leaf_product : forall fuel d lines ex a b,
  process_defines fuel d lines = Some ex -> (In (a, b) ex <-> exists s t, In (s, t) lines /\ leaf d s a /\ leaf d t b).
Proof. exact process_defines_spec. Qed.
Print Assumptions define_expansion_is_leaf_product.

(* PARTIAL (soundness half): every compiled allow-pair is a path in the graph of expanded rules.  Full statement: on an
   acyclic graph the compiled pairs are exactly the paths of length >= 1, and a cycle yields the loop error. *)
Theorem dependency_closure_sound_partial : forall ex t a b, process_rules ex = Some t -> In (a, b) (flatten t) -> reach ex a b.
Proof. exact process_rules_sound. Qed.
Print Assumptions dependency_closure_sound_partial.

(* completeness, hence the exact characterisation: the compiled pairs are the paths of length >= 1 *)
Theorem dependency_closure_exact : forall ex t a b, process_rules ex = Some t -> (In (a, b) (flatten t) <-> reach ex a b).
Proof. exact process_rules_exact. Qed.
Print Assumptions dependency_closure_exact.

(* the answer is the loop error exactly when the graph of expanded rules has a cycle (the fuel of the model, one unit per
   source name, never runs out: None is always RuntimeError('loop in rules detected')) *)
Theorem dependency_loop_error_iff_cycle : forall ex, process_rules ex = None <-> exists a, reach ex a a.
Proof. exact process_rules_none_iff. Qed.
Print Assumptions dependency_loop_error_iff_cycle.

Theorem dependency_closure_total_on_acyclic : forall ex, (forall a, ~ reach ex a a) -> exists t, process_rules ex = Some t.
Proof. exact process_rules_acyclic. Qed.
Print Assumptions dependency_closure_total_on_acyclic.

(* DepsChecker.match answers True exactly when some path of declared rules connects names matching the two directories *)
Theorem dependency_allowed_iff_path : forall table fuel d lines compiled ex src dest,
  create_rules fuel d lines = Some compiled -> process_defines fuel d lines = Some ex ->
  (deps_allowed table compiled src dest = true
   <-> exists a b, reach ex a b /\ matches (name_regex table a) src = true /\ matches (name_regex table b) (fixed_dest src dest) = true).
Proof. exact deps_allowed_iff. Qed.
Print Assumptions dependency_allowed_iff_path.

(* the shipped deps.config: no cycle (its closure is computed) *)
Theorem shipped_rules_acyclic :
  match process_defines deps_fuel deps_defines deps_lines with
  | Some ex => forall a, ~ reach ex a a
  | None => False
  end.
Proof.
  destruct (process_defines deps_fuel deps_defines deps_lines) as [ex |] eqn:E.
  - intros a Hr. pose proof (process_rules_cycle ex a Hr) as N.
    pose proof (proj2 (proj2 (proj2 deps_config_ok))) as K. unfold create_rules in K. rewrite E, N in K. discriminate K.
  - pose proof (proj2 (proj2 (proj2 deps_config_ok))) as K. unfold create_rules in K. rewrite E in K. discriminate K.
Qed.
Print Assumptions shipped_rules_acyclic.

Example dependency_closure_nonvacuous :
  let ex : list rule := [("a", "b"); ("b", "c"); ("a", "d")]%string in
  let cyc : list rule := [("a", "b"); ("b", "a")]%string in
  process_rules ex = Some [("b", ["c"]); ("a", ["c"; "b"; "d"])]%string
  /\ reach ex "a"%string "c"%string /\ In ("a", "c")%string (flatten [("b", ["c"]); ("a", ["c"; "b"; "d"])]%string)
  /\ process_rules cyc = None /\ reach cyc "a"%string "a"%string.
Proof.
  cbv zeta. split; [vm_compute; reflexivity |]. split.
  - eapply reach_step; [left; reflexivity |]. apply reach_edge. right. left. reflexivity.
  - split; [vm_compute; auto |]. split; [vm_compute; reflexivity |].
    eapply reach_step; [left; reflexivity |]. apply reach_edge. right. left. reflexivity.
Qed.

(* an include whose directories are not connected by any path of declared rules is reported *)
Theorem seeded_flagged_dependency : forall table fuel d lines compiled src dest ex,
  create_rules fuel d lines = Some compiled -> process_defines fuel d lines = Some ex ->
  (forall a b, reach ex a b -> matches (name_regex table a) src = true -> matches (name_regex table b) (fixed_dest src dest) = true -> False) ->
  deps_allowed table compiled src dest = false.
Proof. exact dependency_flagged. Qed.
Print Assumptions seeded_flagged_dependency.

(* ---- undoing the edit gives back the file, hence the original report (silence for an accepted file) ---- *)
Theorem unseed_restores : forall hdr f i k w l,
  nth_error f i = Some l -> (k <= length l)%nat ->
  unseed_word i k w (seed_word i k w f) = f /\ lint_file hdr (unseed_word i k w (seed_word i k w f)) = lint_file hdr f.
Proof.
  exact (fun hdr f i k w l Hl Hk =>
    conj (unseed_seed_word i k w f l Hl Hk) (f_equal (lint_file hdr) (unseed_seed_word i k w f l Hl Hk))).
Qed.
Print Assumptions unseed_restores.

Theorem unseed_restores_line : forall hdr f i l,
  (i <= length f)%nat -> unseed_line i (seed_line i l f) = f /\ lint_file hdr (unseed_line i (seed_line i l f)) = lint_file hdr f.
Proof.
  exact (fun hdr f i l Hi => conj (unseed_seed_line i l f Hi) (f_equal (lint_file hdr) (unseed_seed_line i l f Hi))).
Qed.
Print Assumptions unseed_restores_line.

(* ---- exit status: main() calls os.sys.exit(total) where total = sum over all suites of len(errors); the status seen by
   the caller is total mod 256, so it is non-zero for 1 .. 255 failures -- and zero again for 256 ---- *)
Theorem exit_nonzero : forall suites k,
  (forall x, In x suites -> 0 <= x) -> In k suites -> 1 <= k -> total_failures suites < 256 ->
  exit_status (total_failures suites) <> 0.
Proof.
  exact (fun suites k Hpos Hin Hk Hlt => exit_nonzero_lt256 _
    (conj (Z.le_trans _ _ _ Hk (eq_ind_r (fun t => 0 + k <= t) (fold_add_in suites 0 k Hpos Hin) (total_failures_sum suites))) Hlt)).
Qed.
Print Assumptions exit_nonzero.

Example exit_status_wraps : exit_status 256 = 0 /\ exit_status 1 = 1 /\ exit_status 255 = 255.
Proof. vm_compute. repeat split; reflexivity. Qed.

(* non-vacuity: the premises of the family theorems are satisfiable on a small file *)
Example seeded_example :
  let f := [of_string "	int x = 1;"; []; of_string "	// comment"] in
  in_ctx ws_tab_inside (firstn 6 (of_string "	int x = 1;")) (skipn 6 (of_string "	int x = 1;")) = true
  /\ lint_file false f <> lint_file false (seed_word 0 6 (p_wit ws_tab_inside) f)
  /\ forallb (fun p => in_ctx p (of_string "	// comment ") []) (firstn 20 typo_table) = true.
Proof. vm_compute. repeat split; try reflexivity. discriminate. Qed.

(* non-vacuity of the family premises, ALL premises of each theorem together, on a small file (i, k, l as in the theorem statements) *)
Example family_premises_nonvacuous :
  let l0 := of_string "	int x = f(a, b);" in let l2 := of_string "	// comment " in
  let f := [l0; []; l2] in
  (* seeded_flagged_typo: every pattern of the regenerated table, at the end of the comment line *)
  (forallb (fun p => existsb (fun q => String.eqb (p_id q) (p_id p)) typo_table) (firstn 20 typo_table) = true
   /\ nth_error f 2 = Some l2 /\ forallb (fun p => in_ctx p (firstn 12 l2) (skipn 12 l2)) (firstn 20 typo_table) = true)
  (* template, trailing white space, spaces at line start, space after operator, tab inside, carriage return: column 5 / 17 / 0 of line 1 *)
  /\ (nth_error f 0 = Some l0
      /\ in_ctx template_pat (firstn 5 l0) (skipn 5 l0) = true /\ in_ctx ws_whitespaces (firstn 17 l0) (skipn 17 l0) = true
      /\ in_ctx ws_spaces_start [] l0 = true /\ in_ctx ws_space_operator (firstn 5 l0) (skipn 5 l0) = true
      /\ in_ctx ws_tab_inside (firstn 5 l0) (skipn 5 l0) = true /\ in_ctx ws_carriage_return (firstn 5 l0) (skipn 5 l0) = true)
  (* seeded_flagged_catch *)
  /\ ((1 <= length f)%nat /\ in_ctx catch_pat [] (of_string " (...) {") = true)
  (* seeded_flagged_ws_spaces_middle_partial, seeded_flagged_ws_comma_partial *)
  /\ (in_ctx ws_spaces_middle (firstn 5 l0) (skipn 5 l0) = true /\ no_strip_chars (firstn 5 l0 ++ p_wit ws_spaces_middle ++ skipn 5 l0) = true
      /\ in_ctx ws_comma (firstn 5 l0) (skipn 5 l0) = true /\ no_strip_chars (firstn 5 l0 ++ p_wit ws_comma ++ skipn 5 l0) = true
      /\ no_start None (p_re ws_comma) (firstn 5 l0) (p_wit ws_comma ++ skipn 5 l0) = true)
  (* line length, consecutive blank lines, blank line near the end *)
  /\ (line_length_limit <= Z.of_nat (length (repeat 120 200)) /\ is_blank [] = true /\ is_blank [9] = true /\ (1 <= length [l0])%nat
      /\ [9] <> [] /\ forallb is_space [9] = true)
  (* licence / pragma once: a file without either *)
  /\ ((forall l, In l f -> starts_with lic_open l = false) /\ (forall l, In l f -> list_eqb l pragma_once = false))
  (* regions: a balanced file whose end marker is deleted; a malformed marker *)
  /\ (let open := of_string "// region x" in let close := of_string "// endregion" in
      is_kind REnd close = true /\ count_kind ROpen ([open] ++ close :: [l0]) = count_kind REnd ([open] ++ close :: [l0])
      /\ region_kind_of (of_string "// my region") = Some RInvalid)
  (* exit status *)
  /\ ((forall x, In x [0; 3; 0] -> 0 <= x) /\ In 3 [0; 3; 0] /\ 1 <= 3 /\ total_failures [0; 3; 0] < 256).
Proof.
  cbv zeta.
  split; [vm_compute; repeat split; reflexivity|]. split; [vm_compute; repeat split; reflexivity|].
  split; [split; [repeat constructor|vm_compute; reflexivity]|].
  split; [vm_compute; repeat split; reflexivity|].
  split; [vm_compute; repeat split; try reflexivity; try discriminate; repeat constructor|].
  split; [split; intros l H; cbn [In] in H; repeat (destruct H as [<-|H]; [vm_compute; reflexivity|]); contradiction|].
  split; [vm_compute; repeat split; reflexivity|].
  split; [intros x H; cbn [In] in H; repeat (destruct H as [<-|H]; [vm_compute; discriminate|]); contradiction|].
  vm_compute. repeat split; auto; discriminate.
Qed.
Print Assumptions family_premises_nonvacuous.

(* non-vacuity of the dependency theorems on a toy configuration: define D = {b, c}; rule a -> D; directory names a, x/b, x/c.  The
   expansion is the leaf product, the compiled pairs are paths (process_rules answers), and an include from directory a into x/d (no
   rule reaches a name matching it) meets ALL premises of seeded_flagged_dependency, whereas x/b is allowed *)
Example dependency_premises_nonvacuous :
  let d : defines := [("D", ["b"; "c"])]%string in let lines : list rule := [("a", "D")]%string in
  let ex : list rule := [("a", "b"); ("a", "c")]%string in
  let table := [("a", Lit (of_string "a")); ("b", Lit (of_string "x/b")); ("c", Lit (of_string "x/c"))]%string in
  process_defines 3 d lines = Some ex
  /\ create_rules 3 d lines = Some ex
  /\ process_rules ex <> None
  /\ (forall a b, reach ex a b -> matches (name_regex table a) (of_string "a") = true ->
        matches (name_regex table b) (fixed_dest (of_string "a") (of_string "x/d")) = true -> False)
  /\ deps_allowed table ex (of_string "a") (of_string "x/d") = false
  /\ deps_allowed table ex (of_string "a") (of_string "x/b") = true.
Proof.
  cbv zeta. split; [vm_compute; reflexivity|]. split; [vm_compute; reflexivity|]. split; [vm_compute; discriminate|].
  split; [|vm_compute; split; reflexivity].
  assert (Hedge : forall a b, In (a, b) [("a", "b"); ("a", "c")]%string -> a = "a"%string /\ (b = "b"%string \/ b = "c"%string)).
  { intros a b H. cbn [In] in H. destruct H as [H|[H|[]]]; injection H as <- <-; auto. }
  intros a b Hr _ Hm.
  assert (Hb : b = "b"%string \/ b = "c"%string).
  { clear Hm. induction Hr as [a b H|a b c H _ IH]; [exact (proj2 (Hedge a b H))|exact IH]. }
  destruct Hb as [-> | ->]; vm_compute in Hm; discriminate Hm.
Qed.
Print Assumptions dependency_premises_nonvacuous.
