(* C18 -- derived facts handed to generators follow from the schema relations alone.
   Only statements; each closed by `exact` of a lemma proved in Cats/DeriveProofs.v.  The left-hand functions are the model of
   catparser/generators/util.py (Cats/Derive.v) instantiated with the operators, connectives, attribute names and DisplayType values
   regenerated from /repo (Gen/DeriveOps.v); the right-hand specifications (first_occurrences, has_factory, spec_*, base, demanded,
   closure, ...) are fixed text at the head of each part of Cats/DeriveProofs.v.

   `ds` ranges over ALL lists of declarations (any number of factories, descendants, discriminators; any nesting); `order` over the
   iteration orders of the Python set struct_names. *)
From Symv Require Import Cats.Derive Cats.DeriveProofs.
Open Scope string_scope.

(* keys = factory types of the structs that have one, in first-occurrence order; children of k = the structs recording k as factory
   type, in declaration order; names = discriminator list of the first child (inherited from the abstract struct by expansion);
   values = first matching initializer per name IN DISCRIMINATOR ORDER; types = the member types in that order *)
Theorem factory_map_spec : forall ds m, no_empty_factory ds -> build_factory_map ds = Ok m ->
  map fst m = first_occurrences (factory_types ds)
  /\ forall k fd, In (k, fd) m ->
       fd_children fd = filter (has_factory k) (structs_of ds)
       /\ exists c, find (has_factory k) (structs_of ds) = Some c
            /\ spec_discriminator c = Some (fd_names fd)
            /\ map (spec_value c) (fd_names fd) = map Some (fd_values fd)
            /\ map (spec_member_type c) (fd_names fd) = map Some (fd_types fd).
Proof. exact DeriveProofs.factory_map_spec. Qed.
Print Assumptions factory_map_spec.

(* no crash (`next` never exhausts) when every descendant carries its discriminator, initializers and members *)
Theorem factory_map_no_crash : forall ds,
  (forall s, In (DStruct s) ds -> s_factory_type s <> None -> carries s) -> exists m, build_factory_map ds = Ok m.
Proof. exact DeriveProofs.factory_map_no_crash. Qed.
Print Assumptions factory_map_no_crash.

(* per struct, in declaration order: each member's bound_field is the last of its binders (the arrays whose size names it, its own
   sizeof target); size_fields are the sizeof members measuring it, in declaration order; is_contents_abstract iff the element type
   is an abstract struct; type_model is the declared model of a named type, else the member itself *)
Theorem bind_spec : forall ds order ps M, extend_models ds order = Ok (ps, M) ->
  Forall2 (fun s p =>
    p_name p = s_name s /\ p_fields p = s_fields s
    /\ Forall2 (fun f x => fx_abstract x = spec_contents_abstract ds f /\ fx_type_model x = spec_type_model ds f) (s_fields s) (p_exts p)
    /\ forall i, bound_of (p_binds p) i = spec_bound (s_fields s) i /\ sizes_of (p_binds p) i = spec_size_fields (s_fields s) i)
  (structs_of ds) ps.
Proof. exact DeriveProofs.bind_spec_full. Qed.
Print Assumptions bind_spec.

(* readable instances of spec_bound: a count / byte-size member named by exactly one binder is bound to that array ... *)
Theorem bind_unique_array : forall fs i j, spec_bound_candidates fs i = [j] -> spec_bound fs i = Some j.
Proof. intros fs i j H. unfold spec_bound. rewrite H. reflexivity. Qed.
Print Assumptions bind_unique_array.

(* demanded <= marked <= closure(demanded); nothing demanded -> nothing marked.  For every enumeration order of struct_names. *)
Theorem unaligned_sandwich : forall ds order ps M, fresh ds -> order_ok ds order -> extend_models ds order = Ok (ps, M) ->
  (forall x, demanded ds x -> In x M)
  /\ (forall x, In x M -> closure ds (demanded ds) x)
  /\ ((forall x, ~ demanded ds x) -> M = []).
Proof. exact DeriveProofs.unaligned_sandwich. Qed.
Print Assumptions unaligned_sandwich.

(* the fixed-point loop never runs out of fuel: number of structs + 1 passes suffice (already_marked strictly grows) *)
Theorem propagate_fuel_sufficient : forall ds order M, incl order (struct_names ds) -> propagate_unaligned ds order M <> Crash "fuel".
Proof. exact DeriveProofs.propagate_fuel_sufficient. Qed.
Print Assumptions propagate_fuel_sufficient.

(* extend_models (intended behaviour: element types are inspected only when they are structs) never crashes on a schema whose
   references resolve; the only non-Ok outcome is the documented RuntimeError('array field not handled ..') = Reject *)
Theorem extend_no_crash : forall ds order, resolves ds -> incl order (struct_names ds) -> forall c, extend_models ds order <> Crash c.
Proof. exact DeriveProofs.extend_no_crash. Qed.
Print Assumptions extend_no_crash.

(* struct_names is a Python set: its iteration order is unspecified.  The theorems above hold for every order.  The outcome itself is
   independent of the order whenever no struct that records a factory type is itself recorded as a factory type (no abstract struct
   inlines an abstract struct); otherwise it can differ (order_can_matter below). *)
Theorem order_independent_when_flat : forall ds order order', flat ds -> resolves ds -> order_ok ds order -> order_ok ds order' ->
  match extend_models ds order, extend_models ds order' with
  | Ok (ps, M), Ok (ps', M') => ps = ps' /\ same_set M M'
  | Reject, Reject => True
  | _, _ => False
  end.
Proof. exact DeriveProofs.order_independent_flat. Qed.
Print Assumptions order_independent_when_flat.

(* non-vacuity: a schema with 2 factories, interleaved descendants, 2 discriminators (initializers in the other order) and an aligned
   struct used in an unaligned one satisfies every premise above, and the functions compute the expected values on it *)
Example example_premises :
  fresh example_schema /\ no_empty_factory example_schema /\ order_ok example_schema example_order /\ resolves example_schema
  /\ flat example_schema /\ (forall s, In (DStruct s) example_schema -> s_factory_type s <> None -> carries s).
Proof.
  exact (conj example_fresh (conj example_no_empty_factory (conj example_order_ok (conj example_resolves (conj example_flat example_carries))))).
Qed.

Example example_values :
  match build_factory_map example_schema with
  | Ok m => fm_view m =
      [("Shape", (["Circle"; "Square"], [AvStr "kind"; AvStr "version"], [AvStr "ALPHA"; AvStr "V_ONE"],
                  [FName "Kind"; FInt {| it_unsigned := true; it_size := 1; it_sizeref := None |}]));
       ("Event", (["Click"; "Scroll"], [AvStr "code"], [AvStr "E_ONE"], [FInt {| it_unsigned := true; it_size := 4; it_sizeref := None |}]))]
  | _ => False
  end
  /\ match extend_models example_schema example_order with
     | Ok (ps, M) => M = ["Shape"; "Square"; "Circle"; "Point"] /\ length ps = 8%nat
     | _ => False
     end.
Proof. vm_compute. repeat split. Qed.

(* the marks may depend on the enumeration order when an abstract struct inlines an abstract struct (both results obey the sandwich) *)
Example order_can_matter :
  extend_models chain_schema ["FooBase"; "Bee"; "Uu"; "Ss"; "Foo"; "Container"]
  <> extend_models chain_schema ["Ss"; "Container"; "Foo"; "FooBase"; "Uu"; "Bee"].
Proof. vm_compute. intro H. discriminate H. Qed.

(* non-vacuity on the SHIPPED schemas (regenerated from the .cats files): both are fresh, every enumeration of their struct names is an
   admissible order (here: declaration order and its reverse), their factory maps build and extend_models answers Ok -- the premises of
   factory_map_spec, bind_spec, unaligned_sandwich, propagate_fuel_sufficient (order_ok gives incl); and the count members of the Symbol
   transfer transaction have exactly one binder each (bind_unique_array: message_size -> message, mosaics_count -> mosaics).
   (resolves / flat / carries are shown on example_schema above only: there is no boolean decider for them.) *)
From Symv Require Import Gen.SchemaSc Gen.SchemaNc.
Lemma fresh_of_forallb : forall ds,
  forallb (fun d => match d with DStruct s => negb (s_requires_unaligned s) | _ => true end) ds = true -> fresh ds.
Proof. intros ds H s Hs. rewrite forallb_forall in H. specialize (H _ Hs). cbn in H. destruct (s_requires_unaligned s); [discriminate|reflexivity]. Qed.

Example shipped_premises :
  fresh sc_schema /\ fresh nc_schema
  /\ order_ok sc_schema (struct_names sc_schema) /\ order_ok nc_schema (rev (struct_names nc_schema))
  /\ match build_factory_map sc_schema with Ok m => map fst m = first_occurrences (factory_types sc_schema) | _ => False end
  /\ match extend_models sc_schema (struct_names sc_schema) with Ok (ps, M) => length ps = length (structs_of sc_schema) | _ => False end
  /\ match extend_models nc_schema (rev (struct_names nc_schema)) with Ok (ps, M) => length ps = length (structs_of nc_schema) | _ => False end
  /\ match lookup sc_schema "TransferTransactionV1" with
     | Some (DStruct s) => spec_bound_candidates (s_fields s) 13 = [18%nat] /\ spec_bound_candidates (s_fields s) 14 = [17%nat]
     | _ => False
     end.
Proof.
  split; [apply fresh_of_forallb; vm_compute; reflexivity|]. split; [apply fresh_of_forallb; vm_compute; reflexivity|].
  split; [intro x; reflexivity|]. split; [intro x; symmetry; apply in_rev|].
  vm_compute. repeat split; reflexivity.
Qed.
Print Assumptions shipped_premises.
