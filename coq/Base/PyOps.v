(* Python operators as data, so that the operator written in the source is a value the translators can regenerate. *)
From Symv Require Export Base.Bytes.
Open Scope Z_scope.

Inductive pyop := Lt | Le | Gt | Ge | Eq | Ne | Add | Sub | Mul | FloorDiv | Mod | BitOr | BitAnd | BitXor | LShift | RShift.

(* arithmetic/bitwise meaning (comparison operators yield 1/0 as Python bools do) *)
Definition cmp (o : pyop) (a b : Z) : bool :=
  match o with
  | Lt => a <? b | Le => a <=? b | Gt => b <? a | Ge => b <=? a | Eq => a =? b | Ne => negb (a =? b)
  | _ => false
  end.

Definition ev2 (o : pyop) (a b : Z) : Z :=
  match o with
  | Add => a + b | Sub => a - b | Mul => a * b | FloorDiv => a / b | Mod => a mod b
  | BitOr => Z.lor a b | BitAnd => Z.land a b | BitXor => Z.lxor a b
  | LShift => Z.shiftl a b | RShift => Z.shiftr a b
  | _ => if cmp o a b then 1 else 0
  end.

Inductive endian := LittleE | BigE.
Definition int_to_bytes (e : endian) (n : nat) (x : Z) : bytes := match e with LittleE => to_le n x | BigE => to_be n x end.
Definition int_from_bytes (e : endian) (bs : bytes) : Z := match e with LittleE => from_le bs | BigE => from_be bs end.

(* Python slice l[lo:hi] for 0 <= lo, hi *)
Definition slice {A} (lo hi : nat) (l : list A) : list A := firstn (hi - lo) (skipn lo l).

Fixpoint update_nth {A} (n : nat) (f : A -> A) (l : list A) : list A :=
  match l, n with
  | [], _ => []
  | x :: r, O => f x :: r
  | x :: r, S k => x :: update_nth k f r
  end.

(* outcome of a Python call: a value, a raised ValueError-like rejection, or any other exception ("crash") *)
Inductive result (A : Type) := Ok (a : A) | Reject | Crash (kind : string).
Arguments Ok {A} a. Arguments Reject {A}. Arguments Crash {A} kind.
Definition bind {A B} (r : result A) (f : A -> result B) : result B :=
  match r with Ok a => f a | Reject => Reject | Crash k => Crash k end.
