(* Bytes as lists of Z in [0,256); little/big endian integers; hex rendering. Model file: definitions only. *)
From Coq Require Export String Ascii ZArith Bool List.
Export ListNotations.
Open Scope Z_scope.

Definition bytes := list Z.

Definition is_byte (b : Z) : bool := (0 <=? b) && (b <? 256).
Definition wf_bytes (bs : bytes) : bool := forallb is_byte bs.

(* n little-endian bytes of x (x taken modulo 2^(8n), so two's complement for negative x) *)
Fixpoint to_le (n : nat) (x : Z) : bytes :=
  match n with O => [] | S k => (x mod 256) :: to_le k (x / 256) end.

Fixpoint from_le (bs : bytes) : Z :=
  match bs with [] => 0 | b :: r => b + 256 * from_le r end.

Definition to_be (n : nat) (x : Z) : bytes := rev (to_le n x).
Definition from_be (bs : bytes) : Z := from_le (rev bs).

(* signed reading: value in [-2^(8n-1), 2^(8n-1)) *)
Definition from_le_signed (bs : bytes) : Z :=
  let u := from_le bs in
  let m := 2 ^ (8 * Z.of_nat (length bs)) in
  if 2 * u <? m then u else u - m.

Definition zeros (n : nat) : bytes := repeat 0 n.

Fixpoint xor_bytes (a b : bytes) : bytes :=
  match a, b with
  | x :: a', y :: b' => Z.lxor x y :: xor_bytes a' b'
  | _, _ => []
  end.

(* chunks of n (n > 0); fuel = length *)
Fixpoint chunks_fuel (fuel n : nat) (l : bytes) : list bytes :=
  match fuel with
  | O => []
  | S f => match l with [] => [] | _ => firstn n l :: chunks_fuel f n (skipn n l) end
  end.
Definition chunks (n : nat) (l : bytes) : list bytes := chunks_fuel (length l) n l.

(* ---- hex ---- *)
Definition hex_digit (d : Z) : ascii :=
  match d with
  | 0 => "0" | 1 => "1" | 2 => "2" | 3 => "3" | 4 => "4" | 5 => "5" | 6 => "6" | 7 => "7"
  | 8 => "8" | 9 => "9" | 10 => "a" | 11 => "b" | 12 => "c" | 13 => "d" | 14 => "e" | _ => "f"
  end%char.

Fixpoint to_hex (bs : bytes) : string :=
  match bs with
  | [] => EmptyString
  | b :: r => String (hex_digit (b / 16)) (String (hex_digit (b mod 16)) (to_hex r))
  end.

Definition of_ascii (c : ascii) : Z := Z.of_N (N_of_ascii c).
Fixpoint of_string (s : string) : bytes :=
  match s with EmptyString => [] | String c r => of_ascii c :: of_string r end.

Definition hex_val (c : ascii) : Z :=
  let n := of_ascii c in
  if (48 <=? n) && (n <=? 57) then n - 48
  else if (97 <=? n) && (n <=? 102) then n - 87
  else if (65 <=? n) && (n <=? 70) then n - 55 else 0.

Fixpoint of_hex (s : string) : bytes :=
  match s with
  | String a (String b r) => (16 * hex_val a + hex_val b) :: of_hex r
  | _ => []
  end.

(* decimal rendering of a Z for case output *)
Fixpoint dec_digits (fuel : nat) (x : Z) (acc : string) : string :=
  match fuel with
  | O => acc
  | S f => let acc' := String (ascii_of_N (Z.to_N (48 + x mod 10))) acc in
           if x <? 10 then acc' else dec_digits f (x / 10) acc'
  end.
Definition Z_to_string (x : Z) : string :=
  if x <? 0 then String "-"%char (dec_digits 100 (- x) EmptyString) else dec_digits 100 x EmptyString.

Definition bool_to_string (b : bool) : string := if b then "T"%string else "F"%string.
