(* Lemmas about little-endian integers and bit flags. *)
From Symv Require Import Base.Bytes.
From Coq Require Import Lia ZifyBool.
Open Scope Z_scope.

Lemma length_to_le n x : length (to_le n x) = n.
Proof. revert x; induction n as [|n IH]; intros x; cbn [to_le length]; [reflexivity | now rewrite IH]. Qed.

Lemma wf_to_le n x : wf_bytes (to_le n x) = true.
Proof.
  revert x; induction n as [|n IH]; intros x; cbn [to_le wf_bytes forallb]; [reflexivity|].
  fold (wf_bytes (to_le n (x / 256))). rewrite IH, Bool.andb_true_r.
  unfold is_byte. pose proof (Z.mod_pos_bound x 256 ltac:(lia)). lia.
Qed.

Lemma from_le_to_le n x : from_le (to_le n x) = x mod 2 ^ (8 * Z.of_nat n).
Proof.
  revert x; induction n as [|n IH]; intros x; cbn [to_le from_le].
  - change (2 ^ (8 * Z.of_nat 0)) with 1. now rewrite Z.mod_1_r.
  - rewrite IH. replace (8 * Z.of_nat (S n)) with (8 + 8 * Z.of_nat n) by lia.
    rewrite Z.pow_add_r by lia. change (2 ^ 8) with 256.
    rewrite Z.rem_mul_r by (try apply Z.pow_pos_nonneg; lia). lia.
Qed.

Lemma from_le_to_le_small n x : 0 <= x < 2 ^ (8 * Z.of_nat n) -> from_le (to_le n x) = x.
Proof. intros Hx. rewrite from_le_to_le. now apply Z.mod_small. Qed.

Lemma from_le_bound bs : wf_bytes bs = true -> 0 <= from_le bs < 2 ^ (8 * Z.of_nat (length bs)).
Proof.
  induction bs as [|b r IH]; cbn [wf_bytes forallb from_le length]; intros H.
  - change (2 ^ (8 * Z.of_nat 0)) with 1. lia.
  - apply Bool.andb_true_iff in H as [Hb Hr]. specialize (IH Hr).
    replace (8 * Z.of_nat (S (length r))) with (8 + 8 * Z.of_nat (length r)) by lia.
    rewrite Z.pow_add_r by lia. change (2 ^ 8) with 256. unfold is_byte in Hb. lia.
Qed.

Lemma to_le_from_le bs : wf_bytes bs = true -> to_le (length bs) (from_le bs) = bs.
Proof.
  induction bs as [|b r IH]; cbn [wf_bytes forallb from_le length to_le]; intros H; [reflexivity|].
  apply Bool.andb_true_iff in H as [Hb Hr]. unfold is_byte in Hb.
  replace ((b + 256 * from_le r) mod 256) with b by (clear - Hb; Z.div_mod_to_equations; lia).
  replace ((b + 256 * from_le r) / 256) with (from_le r) by (clear - Hb; Z.div_mod_to_equations; lia).
  now rewrite IH.
Qed.

Lemma wf_firstn n bs : wf_bytes bs = true -> wf_bytes (firstn n bs) = true.
Proof.
  revert bs; induction n as [|n IH]; intros [|b r]; cbn [firstn wf_bytes forallb]; try reflexivity.
  intros H; apply Bool.andb_true_iff in H as [Hb Hr]. rewrite Hb. cbn. now apply IH.
Qed.

Lemma wf_skipn n bs : wf_bytes bs = true -> wf_bytes (skipn n bs) = true.
Proof.
  revert bs; induction n as [|n IH]; intros [|b r]; cbn [skipn wf_bytes forallb]; try reflexivity; try easy.
  intros H; apply Bool.andb_true_iff in H as [Hb Hr]. now apply IH.
Qed.

Lemma wf_app a b : wf_bytes (a ++ b) = wf_bytes a && wf_bytes b.
Proof. unfold wf_bytes. apply forallb_app. Qed.

(* ---- the single-bit flag 2^k on numbers below 2^(k+1) ---- *)
Lemma land_pow2 a k : 0 <= k -> Z.land a (2 ^ k) = if Z.testbit a k then 2 ^ k else 0.
Proof.
  intros Hk. apply Z.bits_inj'. intros n Hn. rewrite Z.land_spec.
  destruct (Z.testbit a k) eqn:Ha.
  - rewrite Z.pow2_bits_eqb by lia. destruct (Z.eqb_spec k n) as [->|]; [now rewrite Ha | now rewrite Bool.andb_false_r].
  - rewrite Z.pow2_bits_eqb by lia. rewrite Z.bits_0. destruct (Z.eqb_spec k n) as [->|]; [now rewrite Ha | now rewrite Bool.andb_false_r].
Qed.

Lemma testbit_top a k : 0 <= k -> 0 <= a < 2 ^ (k + 1) -> Z.testbit a k = (2 ^ k <=? a).
Proof.
  intros Hk Ha. rewrite Z.testbit_eqb by lia.
  rewrite Z.pow_add_r in Ha by lia. change (2 ^ 1) with 2 in Ha.
  assert (Hp : 0 < 2 ^ k) by (apply Z.pow_pos_nonneg; lia).
  destruct (Z.leb_spec (2 ^ k) a) as [Hle|Hlt].
  - assert (a / 2 ^ k = 1) as -> by (symmetry; apply Z.div_unique with (r := a - 2 ^ k); lia). reflexivity.
  - rewrite Z.div_small by lia. reflexivity.
Qed.

Lemma lor_pow2 a k : 0 <= k -> Z.lor a (2 ^ k) = if Z.testbit a k then a else a + 2 ^ k.
Proof.
  intros Hk. pose proof (land_pow2 a k Hk) as Hl. destruct (Z.testbit a k) eqn:Ha.
  - apply Z.bits_inj'. intros n Hn. rewrite Z.lor_spec, Z.pow2_bits_eqb by lia.
    destruct (Z.eqb_spec k n) as [->|]; [now rewrite Ha | now rewrite Bool.orb_false_r].
  - rewrite <- Z.lxor_lor by exact Hl. symmetry. now apply Z.add_nocarry_lxor.
Qed.

(* clearing / setting the top bit of a (k+1)-bit number, as arithmetic *)
Lemma clear_top a k : 0 <= k -> 0 <= a < 2 ^ (k + 1) ->
  (if Z.land a (2 ^ k) =? 0 then a else a - 2 ^ k) = a mod 2 ^ k.
Proof.
  intros Hk Ha. rewrite land_pow2, testbit_top by lia.
  assert (Hp : 0 < 2 ^ k) by (apply Z.pow_pos_nonneg; lia).
  rewrite Z.pow_add_r in Ha by lia. change (2 ^ 1) with 2 in Ha.
  destruct (Z.leb_spec (2 ^ k) a) as [Hle|Hlt].
  - destruct (Z.eqb_spec (2 ^ k) 0); [lia|]. apply Z.mod_unique with (q := 1); lia.
  - cbn. symmetry. apply Z.mod_small; lia.
Qed.

Lemma set_top a k : 0 <= k -> 0 <= a < 2 ^ (k + 1) -> Z.lor a (2 ^ k) = a mod 2 ^ k + 2 ^ k.
Proof.
  intros Hk Ha. rewrite lor_pow2, testbit_top by lia.
  assert (Hp : 0 < 2 ^ k) by (apply Z.pow_pos_nonneg; lia).
  rewrite Z.pow_add_r in Ha by lia. change (2 ^ 1) with 2 in Ha.
  destruct (Z.leb_spec (2 ^ k) a) as [Hle|Hlt].
  - assert (a mod 2 ^ k = a - 2 ^ k) as -> by (symmetry; apply Z.mod_unique with (q := 1); lia). lia.
  - rewrite Z.mod_small by lia. lia.
Qed.
