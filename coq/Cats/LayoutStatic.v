(* Static (value-independent) sizes and offsets of the leading fixed-size members of a struct, read off the schema. Definitions only. *)
From Symv Require Export Cats.Layout.
Open Scope string_scope.
Open Scope list_scope.
Open Scope Z_scope.

Section Static.
Variable tm : list decl.

Fixpoint static_type_size (fuel : nat) (t : string) : option Z :=
  match fuel with
  | O => None
  | S k =>
    match lookup tm t with
    | Some (DAlias _ (LInt i) _) => Some (it_size i)
    | Some (DAlias _ (LBuffer n) _) => Some n
    | Some (DEnum _ b _ _ _) => Some (it_size b)
    | Some (DStruct s) =>
      (fix go (fs : list field) : option Z :=
         match fs with
         | [] => Some 0
         | f :: r =>
           match f_cond f, f_type f with
           | None, FInt i => option_map (Z.add (it_size i)) (go r)
           | None, FName ft => match static_type_size k ft, go r with Some a, Some b => Some (a + b) | _, _ => None end
           | _, _ => None
           end
         end) (non_const (s_fields s))
    | None => None
    end
  end.

Definition static_field_size (f : field) : option Z :=
  match f_cond f, f_type f with
  | None, FInt i => Some (it_size i)
  | None, FName ft => static_type_size 16 ft
  | _, _ => None
  end.

(* byte offset of member `name` within the encoding of struct `s`, when every member before it has a static size *)
Definition offset_of (sname name : string) : option Z :=
  match lookup_struct tm sname with
  | Some s =>
    (fix go (fs : list field) (acc : Z) : option Z :=
       match fs with
       | [] => None
       | f :: r => if String.eqb (f_name f) name then Some acc
                   else match static_field_size f with Some n => go r (acc + n) | None => None end
       end) (non_const (s_fields s)) 0
  | None => None
  end.
End Static.
