(* Proofs about sorting keyed arrays and about the order on sort keys. *)
From Symv Require Import Base.Bytes Base.PyOps Cats.LayoutInst Cats.Sort.
From Coq Require Import Lia ZifyBool Permutation Sorted.
Open Scope Z_scope.

Section SortGeneric.
Variable A : Type.
Variable lt : keyv -> keyv -> bool.
Notation pair := (keyv * A)%type.

Lemma insert_perm (x : pair) l : Permutation (insert_sorted lt x l) (x :: l).
Proof.
  induction l as [|y r IH]; cbn [insert_sorted]; [reflexivity|].
  destruct (lt (fst y) (fst x)); [|reflexivity].
  rewrite IH. apply perm_swap.
Qed.

Lemma sort_perm (l : list pair) : Permutation (sort_pairs lt l) l.
Proof. induction l as [|x l IH]; cbn [sort_pairs fold_right]; [reflexivity|]. fold (sort_pairs lt l). rewrite insert_perm. now constructor. Qed.

(* non-descending: no element is smaller than its predecessor *)
Definition nondesc (p q : pair) : Prop := lt (fst q) (fst p) = false.
Definition ascending (p q : pair) : Prop := lt (fst p) (fst q) = true.

Hypothesis lt_asym : forall a b, lt a b = true -> lt b a = false.

Lemma insert_hd (x : pair) l z : HdRel nondesc z l -> nondesc z x -> HdRel nondesc z (insert_sorted lt x l).
Proof.
  intros Hl Hx. destruct l as [|y r]; cbn [insert_sorted]; [now constructor|].
  destruct (lt (fst y) (fst x)); constructor; [now inversion Hl | exact Hx].
Qed.

Lemma insert_sorted_sorted (x : pair) l : Sorted nondesc l -> Sorted nondesc (insert_sorted lt x l).
Proof.
  induction l as [|y r IH]; intros Hs; cbn [insert_sorted]; [repeat constructor|].
  inversion Hs as [|? ? Hr Hhd]; subst.
  destruct (lt (fst y) (fst x)) eqn:Hyx.
  - constructor; [now apply IH|]. apply insert_hd; [exact Hhd|]. unfold nondesc. now apply lt_asym.
  - constructor; [exact Hs|]. constructor. exact Hyx.
Qed.

Lemma sort_sorted (l : list pair) : Sorted nondesc (sort_pairs lt l).
Proof. induction l as [|x l IH]; cbn [sort_pairs fold_right]; [constructor|]. now apply insert_sorted_sorted. Qed.

Lemma sorted_fixed (l : list pair) : Sorted nondesc l -> sort_pairs lt l = l.
Proof.
  induction l as [|x l IH]; intros Hs; [reflexivity|]. cbn [sort_pairs fold_right]. fold (sort_pairs lt l).
  inversion Hs as [|? ? Hr Hhd]; subst. rewrite (IH Hr).
  destruct l as [|y r]; [reflexivity|]. cbn [insert_sorted]. inversion Hhd as [|? ? Hxy]; subst. unfold nondesc in Hxy. now rewrite Hxy.
Qed.

Theorem sort_idempotent (l : list pair) : sort_pairs lt (sort_pairs lt l) = sort_pairs lt l.
Proof. apply sorted_fixed, sort_sorted. Qed.

(* with a strict total order on the keys that occur and pairwise distinct keys the result is STRICTLY ascending and unique *)
Hypothesis lt_trans : forall a b c, lt a b = true -> lt b c = true -> lt a c = true.

Definition keys_total (l : list pair) : Prop :=
  forall p q, In p l -> In q l -> p = q \/ lt (fst p) (fst q) = true \/ lt (fst q) (fst p) = true.

Lemma nondesc_strict (l : list pair) : keys_total l -> NoDup l -> Sorted nondesc l -> StronglySorted ascending l.
Proof.
  intros Htot Hnd Hs. assert (Hl : Sorted ascending l).
  { induction Hs as [|x l Hs IH Hhd]; [constructor|].
    inversion Hnd as [|? ? Hnin Hnd']; subst.
    constructor; [apply IH; [intros p q Hp Hq; apply Htot; now right | exact Hnd']|].
    destruct l as [|y r]; constructor. inversion Hhd as [|? ? Hxy]; subst. unfold nondesc in Hxy.
    destruct (Htot x y (or_introl eq_refl) (or_intror (or_introl eq_refl))) as [->|[H|H]]; [exfalso; apply Hnin; now left|exact H|congruence]. }
  apply Sorted_StronglySorted; [|exact Hl]. intros p q r. unfold ascending. apply lt_trans.
Qed.

Lemma strongly_sorted_unique (l l' : list pair) :
  StronglySorted ascending l -> StronglySorted ascending l' -> Permutation l l' -> l = l'.
Proof.
  revert l'. induction l as [|x l IH]; intros l' Hs Hs' Hp.
  - apply Permutation_nil in Hp. now subst.
  - destruct l' as [|y l']; [apply Permutation_sym, Permutation_nil in Hp; discriminate|].
    inversion Hs as [|? ? Hsl Hall]; subst. inversion Hs' as [|? ? Hsl' Hall']; subst.
    assert (x = y) as ->.
    { assert (Hx : In x (y :: l')) by (eapply Permutation_in; [exact Hp | now left]).
      assert (Hy : In y (x :: l)) by (eapply Permutation_in; [apply Permutation_sym; exact Hp | now left]).
      destruct Hx as [->|Hx]; [reflexivity|]. destruct Hy as [->|Hy]; [reflexivity|].
      rewrite Forall_forall in Hall, Hall'. pose proof (Hall y Hy) as H1. pose proof (Hall' x Hx) as H2.
      unfold ascending in *. rewrite (lt_asym _ _ H1) in H2. discriminate. }
    f_equal. apply IH; [exact Hsl | exact Hsl' | now apply Permutation_cons_inv in Hp].
Qed.

Theorem sort_strict (l : list pair) : keys_total l -> NoDup l -> StronglySorted ascending (sort_pairs lt l).
Proof.
  intros Htot Hnd. apply nondesc_strict; [| |apply sort_sorted].
  - intros p q Hp Hq. apply Htot; eapply Permutation_in; try apply sort_perm; assumption.
  - eapply Permutation_NoDup; [apply Permutation_sym, sort_perm | exact Hnd].
Qed.

Theorem sort_order_independent (l l' : list pair) :
  keys_total l -> NoDup l -> Permutation l l' -> sort_pairs lt l = sort_pairs lt l'.
Proof.
  intros Htot Hnd Hp. apply strongly_sorted_unique.
  - now apply sort_strict.
  - apply sort_strict; [|eapply Permutation_NoDup; eassumption].
    intros p q Hp' Hq'. apply Htot; eapply Permutation_in; try (apply Permutation_sym; exact Hp); assumption.
  - rewrite sort_perm, Hp. apply Permutation_sym, sort_perm.
Qed.

(* equal keys: Python's sort is stable, so the input order of the equal elements survives (and such arrays are not encodable) *)
Theorem sort_stable_on_equal_keys (x y : pair) : lt (fst x) (fst y) = false -> lt (fst y) (fst x) = false ->
  sort_pairs lt [x; y] = [x; y].
Proof. intros H1 H2. cbn. now rewrite H2. Qed.

End SortGeneric.

Lemma insert_ext {A} (lt lt' : keyv -> keyv -> bool) (x : keyv * A) l :
  (forall y, In y l -> lt (fst y) (fst x) = lt' (fst y) (fst x)) -> insert_sorted lt x l = insert_sorted lt' x l.
Proof.
  induction l as [|y r IH]; intros H; cbn [insert_sorted]; [reflexivity|].
  rewrite (H y (or_introl eq_refl)). destruct (lt' (fst y) (fst x)); [|reflexivity]. f_equal. apply IH. intros z Hz. apply H. now right.
Qed.

Lemma sort_ext {A} (lt lt' : keyv -> keyv -> bool) (l : list (keyv * A)) :
  (forall p q, In p l -> In q l -> lt (fst p) (fst q) = lt' (fst p) (fst q)) -> sort_pairs lt l = sort_pairs lt' l.
Proof.
  induction l as [|x l IH]; intros H; [reflexivity|]. cbn [sort_pairs fold_right]. fold (sort_pairs lt l) (sort_pairs lt' l).
  rewrite <- IH by (intros p q Hp Hq; apply H; now right).
  apply insert_ext. intros y Hy. apply H; [right; eapply Permutation_in; [apply sort_perm | exact Hy] | now left].
Qed.

(* ---- the order on flat keys is a strict total order, and Python's >= test is its negation ---- *)
Lemma bytes_lt_irrefl a : bytes_lt a a = false.
Proof. induction a as [|x a IH]; cbn; [reflexivity|]. rewrite Z.ltb_irrefl. exact IH. Qed.

Lemma bytes_lt_trans a : forall b c, bytes_lt a b = true -> bytes_lt b c = true -> bytes_lt a c = true.
Proof.
  induction a as [|x a IH]; intros [|y b] [|z c]; cbn; try discriminate; try reflexivity.
  destruct (Z.ltb_spec x y), (Z.ltb_spec y x), (Z.ltb_spec y z), (Z.ltb_spec z y), (Z.ltb_spec x z), (Z.ltb_spec z x);
    try discriminate; try reflexivity; try lia; intros; eapply IH; eassumption.
Qed.

Lemma bytes_trichotomy a : forall b, bytes_lt a b = true \/ bytes_eq a b = true \/ bytes_lt b a = true.
Proof.
  induction a as [|x a IH]; intros [|y b]; cbn; auto.
  destruct (Z.ltb_spec x y), (Z.ltb_spec y x); auto; try lia.
  assert (x = y) as -> by lia. rewrite Z.eqb_refl. cbn. apply IH.
Qed.

Lemma bytes_eq_eq a : forall b, bytes_eq a b = true -> a = b.
Proof. induction a as [|x a IH]; intros [|y b]; cbn; try discriminate; [reflexivity|]. intros H. apply Bool.andb_true_iff in H as [H1 H2]. f_equal; [lia | now apply IH]. Qed.

Lemma bytes_eq_refl a : bytes_eq a a = true.
Proof. induction a as [|x a IH]; cbn; [reflexivity|]. now rewrite Z.eqb_refl, IH. Qed.

Lemma bytes_lt_not_eq a b : bytes_lt a b = true -> bytes_eq a b = false.
Proof. intros H. destruct (bytes_eq a b) eqn:He; [|reflexivity]. apply bytes_eq_eq in He. subst. now rewrite bytes_lt_irrefl in H. Qed.

Lemma atom_eq_eq a b : atom_eq a b = true -> a = b.
Proof. destruct a, b; cbn; try discriminate; intros H; f_equal; [lia | now apply bytes_eq_eq]. Qed.

Lemma atom_lt_irrefl a : atom_lt a a = false.
Proof. destruct a; cbn; [apply Z.ltb_irrefl | apply bytes_lt_irrefl | reflexivity]. Qed.

Lemma atom_lt_trans a b c : atom_lt a b = true -> atom_lt b c = true -> atom_lt a c = true.
Proof. destruct a, b, c; cbn; try discriminate; [lia | apply bytes_lt_trans]. Qed.

Lemma atom_trichotomy a b : same_atom a b = true -> atom_lt a b = true \/ atom_eq a b = true \/ atom_lt b a = true.
Proof. destruct a, b; cbn; try discriminate; intros _; [lia | apply bytes_trichotomy]. Qed.

Lemma atom_lt_not_eq a b : atom_lt a b = true -> atom_eq a b = false.
Proof. destruct a, b; cbn; try discriminate; [lia | apply bytes_lt_not_eq]. Qed.

Lemma atom_eq_refl a : is_atom a = true -> atom_eq a a = true.
Proof. destruct a; cbn; try discriminate; intros _; [apply Z.eqb_refl | apply bytes_eq_refl]. Qed.

Lemma atom_eq_sym a b : atom_eq a b = atom_eq b a.
Proof. destruct a, b; cbn; try reflexivity; [apply Z.eqb_sym|]. revert b0; induction b as [|x b IH]; intros [|y c]; cbn; try reflexivity. now rewrite Z.eqb_sym, IH. Qed.

Lemma atom_eq_true_lt_false p q : atom_eq p q = true -> atom_lt p q = false.
Proof. intros H. apply atom_eq_eq in H. subst. apply atom_lt_irrefl. Qed.

Lemma tuple_lt_irrefl x : tuple_lt x x = false.
Proof. induction x as [|p x IH]; cbn; [reflexivity|]. destruct (atom_eq p p); [exact IH | apply atom_lt_irrefl]. Qed.

Lemma tuple_lt_trans x : forall y z, tuple_lt x y = true -> tuple_lt y z = true -> tuple_lt x z = true.
Proof.
  induction x as [|p x IH]; intros [|q y] [|r z]; cbn; try discriminate; try reflexivity.
  destruct (atom_eq p q) eqn:Epq.
  - apply atom_eq_eq in Epq. subst q. destruct (atom_eq p r); [apply IH | congruence].
  - destruct (atom_eq q r) eqn:Eqr.
    + apply atom_eq_eq in Eqr. subst r. rewrite Epq. intros H _. exact H.
    + intros H1 H2. pose proof (atom_lt_trans _ _ _ H1 H2) as H3. now rewrite (atom_lt_not_eq _ _ H3).
Qed.

Lemma tuple_trichotomy x : forall y, same_tuple x y = true ->
  tuple_lt x y = true \/ x = y \/ tuple_lt y x = true.
Proof.
  induction x as [|p x IH]; intros [|q y]; cbn; try discriminate; auto.
  intros H. apply Bool.andb_true_iff in H as [Hpq Hxy].
  rewrite (atom_eq_sym q p).
  destruct (atom_eq p q) eqn:E.
  - apply atom_eq_eq in E. subst q. destruct (IH y Hxy) as [H|[->|H]]; auto.
  - destruct (atom_trichotomy p q Hpq) as [H|[H|H]]; auto. congruence.
Qed.

Theorem key_lt_spec_irrefl k : key_lt_spec k k = false.
Proof. destruct k; cbn; [apply Z.ltb_irrefl | apply bytes_lt_irrefl | apply tuple_lt_irrefl]. Qed.

Theorem key_lt_spec_trans a b c : key_lt_spec a b = true -> key_lt_spec b c = true -> key_lt_spec a c = true.
Proof.
  destruct a, b, c; cbn; try discriminate; try (intros; lia); try apply bytes_lt_trans; try apply tuple_lt_trans.
Qed.

Theorem key_lt_spec_asym a b : key_lt_spec a b = true -> key_lt_spec b a = false.
Proof.
  intros H. destruct (key_lt_spec b a) eqn:E; [|reflexivity].
  pose proof (key_lt_spec_trans _ _ _ H E) as H2. now rewrite key_lt_spec_irrefl in H2.
Qed.

Theorem key_trichotomy a b : same_shape a b = true -> key_lt_spec a b = true \/ a = b \/ key_lt_spec b a = true.
Proof.
  destruct a, b; cbn; try discriminate; intros H.
  - destruct (Z.lt_total z z0) as [|[->|]]; [left; lia | auto | right; right; lia].
  - destruct (bytes_trichotomy b b0) as [|[E|]]; auto. apply bytes_eq_eq in E. subst. auto.
  - destruct (tuple_trichotomy l l0 H) as [|[->|]]; auto.
Qed.

(* Python's comparison under the regenerated operator, on flat keys of one shape *)
Lemma tuple_go_lt x : forall y, forallb is_atom x = true -> same_tuple x y = true ->
  (fix go (x y : list keyv) {struct x} : bool :=
     match x, y with
     | [], [] => cmp Lt 0 0
     | [], _ :: _ => cmp Lt 0 1
     | _ :: _, [] => cmp Lt 1 0
     | p :: x', q :: y' => if key_eq p q then go x' y' else key_cmp Lt p q
     end) x y = tuple_lt x y.
Proof.
  induction x as [|p x IH]; intros [|q y]; cbn; try discriminate; try reflexivity.
  intros Ha Hs. apply Bool.andb_true_iff in Ha as [Hp Hx]. apply Bool.andb_true_iff in Hs as [Hpq Hxy].
  destruct p, q; cbn in *; try discriminate; rewrite (IH y Hx Hxy); reflexivity.
Qed.

Lemma tuple_go_ge x : forall y, forallb is_atom x = true -> same_tuple x y = true ->
  (fix go (x y : list keyv) {struct x} : bool :=
     match x, y with
     | [], [] => cmp Ge 0 0
     | [], _ :: _ => cmp Ge 0 1
     | _ :: _, [] => cmp Ge 1 0
     | p :: x', q :: y' => if key_eq p q then go x' y' else key_cmp Ge p q
     end) x y = negb (tuple_lt x y).
Proof.
  induction x as [|p x IH]; intros [|q y]; cbn; try discriminate; try reflexivity.
  intros Ha Hs. apply Bool.andb_true_iff in Ha as [Hp Hx]. apply Bool.andb_true_iff in Hs as [Hpq Hxy].
  destruct p, q; cbn in *; try discriminate; rewrite (IH y Hx Hxy).
  - destruct (z =? z0); [reflexivity|]. lia.
  - destruct (bytes_eq b b0); reflexivity.
Qed.

Theorem key_cmp_lt_spec a b : flat_key a = true -> same_shape a b = true -> key_cmp Lt a b = key_lt_spec a b.
Proof. destruct a, b; cbn; try discriminate; try reflexivity. apply tuple_go_lt. Qed.

Theorem key_cmp_ge_spec a b : flat_key a = true -> same_shape a b = true -> key_cmp Ge a b = negb (key_lt_spec a b).
Proof.
  destruct a, b; cbn; try discriminate.
  - intros _ _. lia.
  - reflexivity.
  - apply tuple_go_ge.
Qed.
