(* Completeness of the second validation stage for initializer constants: an `initializes` attribute whose constant is unknown (in a
   concrete struct) or whose constant has a type that prints differently from the target's type is reported on its struct.
   Also: the printed form separates the types the parser produces (standard integers, named types), and a witness that it does NOT
   separate all values of the datatype (same_type is finer than str()). *)
From Symv Require Import Cats.Validate Cats.ValidateSpec Cats.ValidateProofs.
From Coq Require Import Lia.
Open Scope string_scope.
Open Scope list_scope.
#[local] Arguments String.eqb : simpl never.

(* specification (fixed text) *)
Inductive broken_initializer (st : struct) : Prop :=
(* the constant is no member of a concrete struct (abstract and inline structs may name a constant of their users) *)
| BrokenInitializerConstant attrs a target value rest :
    s_attrs st = Some attrs -> In a attrs -> at_name a = "initializes" -> at_values a = AvStr target :: AvStr value :: rest ->
    concrete st = true -> ~ In value (map fst (members (s_fields st))) -> broken_initializer st
(* target and constant are members whose types print differently (AstValidator compares str(field_type)) *)
| BrokenInitializerType attrs a target value rest t1 t2 :
    s_attrs st = Some attrs -> In a attrs -> at_name a = "initializes" -> at_values a = AvStr target :: AvStr value :: rest ->
    In (target, t1) (members (s_fields st)) -> In (value, t2) (members (s_fields st)) -> str_ftype t1 <> str_ftype t2 ->
    broken_initializer st.

Lemma nodupb_false_twice l : nodupb l = false -> exists l1 n l2 l3, l = l1 ++ n :: l2 ++ n :: l3.
Proof.
  induction l as [|x r IH]; [discriminate|]. cbn [nodupb]. intros H. apply andb_false_iff in H. destruct H as [H|H].
  - apply negb_false_iff in H. apply existsb_exists in H. destruct H as (y & Hy & E). apply String.eqb_eq in E. subst y.
    apply in_split in Hy. destruct Hy as (l2 & l3 & ->). exists [], x, l2, l3. reflexivity.
  - destruct (IH H) as (l1 & n & l2 & l3 & ->). exists (x :: l1), n, l2, l3. reflexivity.
Qed.

Lemma dict_get_nodup_In (ms : list (string * ftype)) k v : NoDup (map fst ms) -> In (k, v) ms -> dict_get ms k = Some v.
Proof.
  induction ms as [|[k' v'] r IH]; [contradiction|]. cbn [map fst dict_get]. intros Hnd Hin. inversion Hnd as [|? ? Hnin Hnd']; subst.
  destruct Hin as [E|Hin].
  - injection E as -> ->. now rewrite String.eqb_refl.
  - destruct (k' =? k) eqn:E; [|now apply IH]. apply String.eqb_eq in E. subst k'. exfalso. apply Hnin.
    change k with (fst (k, v)). now apply in_map.
Qed.

Lemma is_concrete_of_concrete st : concrete st = true -> is_concrete st = true.
Proof. unfold concrete, is_concrete. destruct (s_disp st); try discriminate; reflexivity. Qed.

Lemma detect_initializer_attr st : nodupb (map fst (members (s_fields st))) = true -> broken_initializer st ->
  struct_attr_errs (fmap_of (s_fields st)) st <> [].
Proof.
  intros Hnd Hb. set (fm := fmap_of (s_fields st)).
  assert (Hinit : forall attrs a target value rest,
            s_attrs st = Some attrs -> In a attrs -> at_name a = "initializes" -> at_values a = AvStr target :: AvStr value :: rest ->
            initializer_errs fm st (PvStr target, PvStr value) <> [] -> struct_attr_errs fm st <> []).
  { intros attrs a target value rest Hattrs Hin Hname Hv Hne. unfold struct_attr_errs.
    apply nonempty_app_r, nonempty_app_r, nonempty_app_r. unfold struct_initializers_total. rewrite Hattrs.
    pose proof (initializer_pairs_In attrs a target (AvStr value) rest Hin Hname Hv) as Hp. cbn [pv_of] in Hp.
    induction (initializer_pairs_total attrs) as [|x r IH]; [contradiction|]. cbn [flat_map]. destruct Hp as [->|Hp].
    - apply nonempty_app_l. exact Hne.
    - apply nonempty_app_r. auto. }
  destruct Hb as [attrs a target value rest Hattrs Hin Hname Hv Hconc Hn | attrs a target value rest t1 t2 Hattrs Hin Hname Hv H1 H2 Hne].
  - apply (Hinit attrs a target value rest Hattrs Hin Hname Hv).
    assert (Hmiss : pv_in_fm (PvStr value) fm = false) by (simpl; unfold dict_mem, fm; now rewrite fmap_mem_false).
    unfold initializer_errs, check_initializer_name. rewrite Hmiss, (is_concrete_of_concrete st Hconc).
    unfold pymem, vo_init_mem, vo_init_target_raises. cbn [negb].
    destruct (negb (pv_in_fm (PvStr target) fm)); cbn [andb app]; discriminate.
  - apply (Hinit attrs a target value rest Hattrs Hin Hname Hv).
    assert (Hfm : fm = members (s_fields st)) by (apply fmap_of_unique; exact Hnd).
    apply nodupb_NoDup in Hnd.
    assert (G1 : dict_get fm target = Some t1) by (rewrite Hfm; now apply dict_get_nodup_In).
    assert (G2 : dict_get fm value = Some t2) by (rewrite Hfm; now apply dict_get_nodup_In).
    unfold initializer_errs, check_initializer_name. cbn [pv_in_fm]. unfold dict_mem. rewrite G1, G2.
    unfold pymem, vo_init_mem, vo_init_target_raises, vo_init_type_ne, pyeqs, opt_str_eqb. cbn [negb andb app].
    destruct (str_ftype t1 =? str_ftype t2) eqn:E; [apply String.eqb_eq in E; contradiction|]. cbn [negb]. discriminate.
Qed.

Theorem detect_initializer_site t st :
  nodupb (map decl_name t) = true -> In (DStruct st) t -> broken_initializer st ->
  exists e, In e (verrors Post t) /\ e_type e = s_name st.
Proof.
  intros Hnd Hin Hb. destruct (nodupb (map fst (members (s_fields st)))) eqn:Hm.
  - pose proof (detect_initializer_attr st Hm Hb) as Hne.
    destruct (struct_attr_errs (fmap_of (s_fields st)) st) as [|e r] eqn:E; [congruence|].
    exists e. split.
    + apply (verrors_In Post t (DStruct st)); auto. simpl. unfold struct_errs. apply in_or_app. right. apply in_or_app. right.
      rewrite attrs_checked_post, E. now left.
    + apply (struct_attr_errs_names (fmap_of (s_fields st)) st). rewrite E. now left.
  - destruct (nodupb_false_twice _ Hm) as (l1 & n & l2 & l3 & Hl).
    destruct (duplicate_error_twice MDupField (s_name st) l1 n l2 l3) as (e & He & Ht & _).
    exists e. split; [|exact Ht].
    apply (verrors_In Post t (DStruct st)); auto. simpl. unfold struct_errs. apply in_or_app. left.
    unfold member_names. rewrite named_fields_members, Hl. exact He.
Qed.

(* a broken initializer constant of struct D: same frame conditions as for the other struct-level attributes *)
Theorem completeness_initializer s s' D sp sp' st' :
  consistent Before s = true -> consistent After sp = true ->
  confined [D] s s' -> confined (carriers s D) sp sp' -> initializes_complete sp' = true ->
  In (DStruct st') sp' -> s_name st' = D -> broken_initializer st' ->
  exists es_pre es_post,
    validate Pre s' = Ok es_pre /\ validate Post sp' = Ok es_post /\ reported s D None (es_pre ++ es_post).
Proof.
  intros Hs Hsp Hconf Hconf' Hwf Hin Hname Hb.
  exists (verrors Pre s'), (verrors Post sp'). split; [apply validate_total; discriminate|].
  split; [apply validate_total; intros _; now rewrite <- initializes_complete_wf|].
  assert (Hnd' : nodupb (map decl_name sp') = true).
  { rewrite (confined_names _ _ _ Hconf'). apply (consistent_nodup _ _ Hsp). }
  split.
  - destruct (detect_initializer_site sp' st' Hnd' Hin Hb) as [e [He Ht]].
    exists e. split; [apply in_or_app; now right|]. split; [congruence | discriminate].
  - intros e He. apply in_app_or in He. destruct He as [He|He].
    + apply (frame Pre (carriers s D) s s'); auto; [apply (verrors_consistent Before s Hs)|].
      apply (confined_weaken [D]); [|assumption]. intros y [<-|[]]. apply carriers_self.
    + apply (frame Post (carriers s D) sp sp'); auto. apply (verrors_consistent After sp Hsp).
Qed.

(* ------------------------------------------------------------------------------------------------------------------ *)
(* the printed form separates the types the parser produces for constants and their targets: standard integers and named types whose
   name is not the text of an integer type *)
Definition std_int (i : intty) : bool := existsb (Z.eqb (it_size i)) [1; 2; 4; 8]%Z.
Definition int_text (n : string) : bool :=
  existsb (String.eqb n) ["uint8"; "uint16"; "uint32"; "uint64"; "int8"; "int16"; "int32"; "int64"; "uint?"; "int?"].
Definition plain_type (t : ftype) : bool :=
  match t with FInt i => std_int i | FName n => negb (int_text n) | FArray _ => false end.

Lemma std_int_cases i : std_int i = true -> it_size i = 1%Z \/ it_size i = 2%Z \/ it_size i = 4%Z \/ it_size i = 8%Z.
Proof. unfold std_int. cbn [existsb]. intros H. repeat (apply orb_true_iff in H; destruct H as [H|H]; [apply Z.eqb_eq in H; auto|]). discriminate. Qed.

Lemma str_intty_int_text i : int_text (str_intty i) = true.
Proof.
  unfold str_intty, it_short_name. destruct (it_unsigned i);
    destruct (it_size i) as [|[[[[|[]|]|[]|]|[[]|[]|]|]|[[[]|[]|]|[[]|[]|]|]|]|]; reflexivity.
Qed.

Theorem plain_types_differ_in_text t1 t2 :
  plain_type t1 = true -> plain_type t2 = true -> same_type t1 t2 = false -> str_ftype t1 <> str_ftype t2.
Proof.
  destruct t1 as [i|n|x], t2 as [j|m|y]; cbn [plain_type same_type str_ftype]; try discriminate; intros P1 P2 Hs E.
  - apply std_int_cases in P1. apply std_int_cases in P2. unfold intty_same in Hs. unfold str_intty, it_short_name in E.
    destruct (it_unsigned i), (it_unsigned j); destruct P1 as [P1|[P1|[P1|P1]]], P2 as [P2|[P2|[P2|P2]]]; rewrite P1, P2 in *;
      cbn in Hs; try discriminate Hs; cbn in E; discriminate E.
  - rewrite <- E, str_intty_int_text in P2. discriminate.
  - rewrite E, str_intty_int_text in P1. discriminate.
  - subst m. rewrite String.eqb_refl in Hs. discriminate.
Qed.

(* an array type never prints like an integer type, nor like a named type whose name does not begin with "array(" *)
Definition not_array_text (t : ftype) : bool :=
  match t with FInt _ => true | FName n => negb (String.prefix "array(" n) | FArray _ => false end.

Lemma prefix_append p s : String.prefix p (p ++ s)%string = true.
Proof. induction p as [|c p IH]; [destruct s; reflexivity|]. cbn. rewrite IH. destruct (Ascii.ascii_dec c c); [reflexivity|congruence]. Qed.

Theorem array_differs_in_text x t : not_array_text t = true -> str_ftype (FArray x) <> str_ftype t.
Proof.
  destruct t as [i|n|y]; cbn [not_array_text str_ftype]; try discriminate; intros H E; unfold str_array in E.
  - unfold str_intty, it_short_name in E. destruct (it_unsigned i); cbn in E; discriminate E.
  - rewrite <- E in H. rewrite prefix_append in H. discriminate.
Qed.
