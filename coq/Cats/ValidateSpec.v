(* C06, specification side (fixed text, written from the property statement).  Independent of Cats/Validate.v and of Gen/:
   imports only the datatype of schemas.

   - `consistent stage s`: every reference of the schema resolves and is well typed -- member-level references within the declaring
     struct body (both stages), struct-level attributes within the layout at hand (stage After: the expanded layout);
   - `carriers s D`: the struct D plus every struct that (transitively) inlines it, named or unnamed;
   - `confined C t t'`: t' differs from t only in declarations named in C, whose interface (name, disposition, the is_size_implicit
     attribute, and at least the member / value names) is preserved -- what breaking one site does to a schema and, through
     expansion, to its expanded form;
   - `broken_site t D m`: the schema t contains, in struct (or enum) D at member m, a reference that does not resolve, one constructor
     per breakage kind of the property;
   - the break functions `break_*`, which rewrite exactly one site of a schema. *)
From Symv Require Export Cats.Ast.
Open Scope string_scope.
Open Scope list_scope.

Inductive stage := Before | After.

(* ---- resolution ---- *)
Definition lookup (s : list decl) (n : string) : option decl := find (fun d => decl_name d =? n) s.
Definition declared (s : list decl) (n : string) : bool := match lookup s n with Some _ => true | None => false end.
Definition is_struct (s : list decl) (n : string) : bool := match lookup s n with Some (DStruct _) => true | _ => false end.
Fixpoint nodupb (l : list string) : bool :=
  match l with [] => true | x :: r => negb (existsb (String.eqb x) r) && nodupb r end.

Definition members (fs : list field) : list (string * ftype) :=
  flat_map (fun f => match f with Field n ty _ _ _ _ => [(n, ty)] | InlinePlaceholder _ _ => [] end) fs.
Definition member_type (ms : list (string * ftype)) (n : string) : option ftype :=
  match find (fun p => fst p =? n) ms with Some p => Some (snd p) | None => None end.
Definition has_member (ms : list (string * ftype)) (n : string) : bool := match member_type ms n with Some _ => true | None => false end.
Definition struct_has_member (s : list decl) (tn k : string) : bool :=
  match lookup s tn with Some (DStruct st) => has_member (members (s_fields st)) k | _ => false end.
Definition enum_value_names (s : list decl) (ty : ftype) : option (list string) :=
  match ty with
  | FName n => match lookup s n with Some (DEnum _ _ vs _ _) => Some (map ev_name vs) | _ => None end
  | _ => None
  end.
(* a condition / constant value: a member of the referenced enumeration, or a numeral when the type is not an enumeration *)
Definition value_ok (s : list decl) (ty : ftype) (v : cvalue) : bool :=
  match enum_value_names s ty, v with
  | Some names, CvName x => existsb (String.eqb x) names
  | Some _, CvNum _ => false
  | None, CvNum _ => true
  | None, CvName _ => false
  end.
Definition is_flag_attr (attrs : option (list attribute)) (name : string) : bool :=
  match find_attr attrs name with Some a => at_is_flag a | None => false end.
Definition size_implicit_struct (s : list decl) (n : string) : bool :=
  match lookup s n with Some (DStruct st) => is_flag_attr (s_attrs st) "is_size_implicit" | _ => false end.
Definition inline_struct (s : list decl) (n : string) : bool :=
  match lookup s n with Some (DStruct st) => match s_disp st with SdInline => true | _ => false end | _ => false end.

(* which attribute applies to which kind of member *)
Definition applicable (ty : ftype) (a : string) : bool :=
  match ty with
  | FInt _ => a =? "sizeref"
  | FArray _ => (a =? "sort_key") || (a =? "alignment") || (a =? "is_byte_constrained")
  | FName _ => false
  end.

(* ---- member-level consistency (within the declaring struct body) ---- *)
Definition consistent_type (s : list decl) (ms : list (string * ftype)) (ty : ftype) : bool :=
  match ty with
  | FName n => declared s n
  | FInt i => match it_sizeref i with None => true | Some (p, _) => has_member ms p end
  | FArray a =>
    match a_elem a with ElName n => declared s n | ElInt _ => true end
    && match a_size a with SzName m => has_member ms m | _ => true end
    && match a_sort_key a with
       | None => true
       | Some k => match a_elem a with ElName n => struct_has_member s n k | ElInt _ => false end
       end
  end.
Definition consistent_inline (s : list decl) (ty : ftype) (disp : disposition) : bool :=
  match disp with
  | DispInline => match ty with FName n => inline_struct s n | _ => false end
  | _ => true
  end.
Definition consistent_value (s : list decl) (ms : list (string * ftype)) (ty : ftype) (value : fvalue) (disp : disposition) : bool :=
  match disp with
  | DispSizeof =>
    match value with
    | VName target => match member_type ms target with Some (FName tn) => size_implicit_struct s tn | _ => false end
    | _ => false
    end
  | _ =>
    match value with
    | VNone => true
    | VNum n => value_ok s ty (CvNum n)
    | VName x => value_ok s ty (CvName x)
    | VCond c => match member_type ms (c_link c) with Some lty => value_ok s lty (c_value c) | None => false end
    end
  end.
Definition consistent_attrs (ty : ftype) (attrs : option (list attribute)) : bool :=
  match attrs with None => true | Some l => forallb (fun a => applicable ty (at_name a)) l end.
Definition consistent_member (s : list decl) (ms : list (string * ftype)) (f : field) : bool :=
  match f with
  | InlinePlaceholder tn _ => is_struct s tn
  | Field _ ty v d a _ => consistent_type s ms ty && consistent_inline s ty d && consistent_value s ms ty v d && consistent_attrs ty a
  end.

(* ---- struct-level attributes (within the layout at hand) ---- *)
Definition intty_same (a b : intty) : bool := Bool.eqb (it_unsigned a) (it_unsigned b) && (it_size a =? it_size b)%Z.
Definition elem_same (a b : elemty) : bool :=
  match a, b with ElInt x, ElInt y => intty_same x y | ElName x, ElName y => x =? y | _, _ => false end.
Definition asize_same (a b : asize) : bool :=
  match a, b with SzNum x, SzNum y => (x =? y)%Z | SzName x, SzName y => x =? y | SzFill, SzFill => true | _, _ => false end.
Definition same_type (a b : ftype) : bool :=
  match a, b with
  | FInt x, FInt y => intty_same x y
  | FName x, FName y => x =? y
  | FArray x, FArray y => elem_same (a_elem x) (a_elem y) && asize_same (a_size x) (a_size y)
  | _, _ => false
  end.
Definition transform_ok (v : avalue) : bool := match v with AvNone => true | AvStr x => x =? "ripemd_keccak_256" | AvNum _ => false end.
Fixpoint comparer_ok (ms : list (string * ftype)) (l : list avalue) : bool :=
  match l with
  | [] => true
  | AvStr n :: tr :: r => has_member ms n && transform_ok tr && comparer_ok ms r
  | _ => false
  end.
Definition concrete (st : struct) : bool := match s_disp st with SdNone => true | _ => false end.
Definition consistent_struct_attr (st : struct) (ms : list (string * ftype)) (a : attribute) : bool :=
  if at_name a =? "size" then
    match at_values a with [AvStr n] => match member_type ms n with Some (FInt _) => true | _ => false end | _ => false end
  else if at_name a =? "discriminator" then
    forallb (fun v => match v with AvStr n => has_member ms n | _ => false end) (at_values a)
  else if at_name a =? "comparer" then comparer_ok ms (at_values a)
  else if at_name a =? "initializes" then
    match at_values a with
    | [AvStr target; AvStr value] =>
      match member_type ms target with
      | None => false
      | Some t1 => match member_type ms value with Some t2 => same_type t1 t2 | None => negb (concrete st) end
      end
    | _ => false
    end
  else true.
Definition consistent_struct_attrs (st : struct) : bool :=
  match s_attrs st with None => true | Some l => forallb (consistent_struct_attr st (members (s_fields st))) l end.

Definition consistent_decl (g : stage) (s : list decl) (d : decl) : bool :=
  match d with
  | DAlias _ _ _ => true
  | DEnum _ _ vs _ _ => nodupb (map ev_name vs)
  | DStruct st =>
    nodupb (map fst (members (s_fields st)))
    && forallb (consistent_member s (members (s_fields st))) (s_fields st)
    && match g with Before => true | After => consistent_struct_attrs st end
  end.
Definition consistent (g : stage) (s : list decl) : bool := nodupb (map decl_name s) && forallb (consistent_decl g s) s.

(* ---- carriers ---- *)
Definition inlines (st : struct) (n : string) : bool :=
  existsb (fun f => match f with
                    | InlinePlaceholder t _ => t =? n
                    | Field _ (FName t) _ DispInline _ _ => t =? n
                    | _ => false
                    end) (s_fields st).
Definition carriers_step (s : list decl) (acc : list string) : list string :=
  flat_map (fun d => match d with
                     | DStruct st => if negb (existsb (String.eqb (s_name st)) acc) && existsb (inlines st) acc then [s_name st] else []
                     | _ => []
                     end) s.
Fixpoint carriers_fuel (fuel : nat) (s : list decl) (acc : list string) : list string :=
  match fuel with O => acc | S k => carriers_fuel k s (acc ++ carriers_step s acc) end.
Definition carriers (s : list decl) (D : string) : list string := carriers_fuel (length s) s [D].

(* ---- changes confined to a set of declarations ---- *)
Definition same_interface (d d' : decl) : Prop :=
  match d, d' with
  | DEnum n _ vs _ _, DEnum n' _ vs' _ _ => n = n' /\ incl (map ev_name vs) (map ev_name vs')
  | DStruct a, DStruct b =>
    s_name a = s_name b /\ s_disp a = s_disp b
    /\ find_attr (s_attrs a) "is_size_implicit" = find_attr (s_attrs b) "is_size_implicit"
    /\ incl (map fst (members (s_fields a))) (map fst (members (s_fields b)))
  | _, _ => False
  end.
Definition confined (C : list string) (t t' : list decl) : Prop :=
  Forall2 (fun d d' => d = d' \/ (In (decl_name d) C /\ same_interface d d')) t t'.

(* ---- broken sites ---- *)
Definition fresh_type (t : list decl) (n : string) : Prop := lookup t n = None.
(* a name no struct of the schema has as a member / no enumeration has as a value *)
Definition fresh_member (t : list decl) (k : string) : Prop :=
  k <> "" /\ forall st, In (DStruct st) t -> ~ In k (map fst (members (s_fields st))).
Definition fresh_const (t : list decl) (x : string) : Prop :=
  forall n b vs a c, In (DEnum n b vs a c) t -> ~ In x (map ev_name vs).
Definition set_elem (a : array) (e : elemty) : array :=
  {| a_elem := e; a_size := a_size a; a_sort_key := a_sort_key a; a_byte_constrained := a_byte_constrained a;
     a_alignment := a_alignment a; a_last_padded := a_last_padded a |}.
Definition set_size (a : array) (z : asize) : array :=
  {| a_elem := a_elem a; a_size := z; a_sort_key := a_sort_key a; a_byte_constrained := a_byte_constrained a;
     a_alignment := a_alignment a; a_last_padded := a_last_padded a |}.
Definition set_sort_key (a : array) (k : option string) : array :=
  {| a_elem := a_elem a; a_size := a_size a; a_sort_key := k; a_byte_constrained := a_byte_constrained a;
     a_alignment := a_alignment a; a_last_padded := a_last_padded a |}.
Definition set_sizeref (i : intty) (r : option (string * option Z)) : intty :=
  {| it_unsigned := it_unsigned i; it_size := it_size i; it_sizeref := r |}.
Definition set_link (c : conditional) (l : string) : conditional := {| c_value := c_value c; c_op := c_op c; c_link := l |}.
Definition set_cvalue (c : conditional) (v : cvalue) : conditional := {| c_value := v; c_op := c_op c; c_link := c_link c |}.

(* the four member attributes of the grammar *)
Inductive known_attribute : string -> Prop :=
| KnownSizeref : known_attribute "sizeref"
| KnownSortKey : known_attribute "sort_key"
| KnownAlignment : known_attribute "alignment"
| KnownByteConstrained : known_attribute "is_byte_constrained".

(* the member-level breakage kinds: the field f of a struct with members ms, in schema t, carries a reference that does not resolve *)
Inductive broken_field (t : list decl) (ms : list (string * ftype)) : field -> Prop :=
| BrokenMemberType n bad v d a c : fresh_type t bad -> broken_field t ms (Field n (FName bad) v d a c)
| BrokenElemType n arr bad v d a c : fresh_type t bad -> a_elem arr = ElName bad -> broken_field t ms (Field n (FArray arr) v d a c)
| BrokenSizeMember n arr bad v d a c : a_size arr = SzName bad -> ~ In bad (map fst ms) -> broken_field t ms (Field n (FArray arr) v d a c)
| BrokenSortKey n arr bad v d a c :
    a_sort_key arr = Some bad -> fresh_member t bad -> broken_field t ms (Field n (FArray arr) v d a c)
| BrokenSizeofMember n ty bad a c : ~ In bad (map fst ms) -> broken_field t ms (Field n ty (VName bad) DispSizeof a c)
| BrokenSizeref n i bad delta v d a c :
    it_sizeref i = Some (bad, delta) -> ~ In bad (map fst ms) -> broken_field t ms (Field n (FInt i) v d a c)
| BrokenCondMember n ty cnd d a c : d <> DispSizeof -> ~ In (c_link cnd) (map fst ms) -> broken_field t ms (Field n ty (VCond cnd) d a c)
| BrokenCondValue n ty cnd x d a c :
    d <> DispSizeof -> c_value cnd = CvName x -> fresh_const t x -> broken_field t ms (Field n ty (VCond cnd) d a c)
| BrokenConstValue n ty x d a c : d <> DispSizeof -> fresh_const t x -> broken_field t ms (Field n ty (VName x) d a c)
(* stretch kinds *)
| BrokenSizeofFixed n ty target rty a c :
    nodupb (map fst ms) = true -> member_type ms target = Some rty -> (forall tn, rty = FName tn -> is_struct t tn = false) ->
    broken_field t ms (Field n ty (VName target) DispSizeof a c)
| BrokenSizeofNotImplicit n ty target tn st a c :
    nodupb (map fst ms) = true -> member_type ms target = Some (FName tn) -> lookup t tn = Some (DStruct st) -> find_attr (s_attrs st) "is_size_implicit" = None ->
    broken_field t ms (Field n ty (VName target) DispSizeof a c)
| BrokenNamedInline n ty v a c :
    (forall tn, ty = FName tn -> inline_struct t tn = false) -> broken_field t ms (Field n ty v DispInline a c)
| BrokenAttribute n ty v d attrs att c :
    In att attrs -> applicable ty (at_name att) = false -> known_attribute (at_name att) -> broken_field t ms (Field n ty v d (Some attrs) c).

(* struct / enum D of schema t has a broken site at member m (None: the site has no member, e.g. an unnamed inline or an enum) *)
Inductive broken_site (t : list decl) : string -> option string -> Prop :=
| SiteField st f n :
    In (DStruct st) t -> In f (s_fields st) -> field_name f = Some n -> broken_field t (members (s_fields st)) f ->
    broken_site t (s_name st) (Some n)
| SiteInlinedType st bad c : In (DStruct st) t -> In (InlinePlaceholder bad c) (s_fields st) -> fresh_type t bad -> broken_site t (s_name st) None
| SiteDuplicateMember st n : In (DStruct st) t -> (exists l1 l2 l3, map fst (members (s_fields st)) = l1 ++ n :: l2 ++ n :: l3) -> broken_site t (s_name st) (Some n)
| SiteDuplicateEnumValue name b vs a c n : In (DEnum name b vs a c) t -> (exists l1 l2 l3, map ev_name vs = l1 ++ n :: l2 ++ n :: l3) -> broken_site t name (Some n).

(* struct-level attribute sites, visible in the expanded layout (stage After) *)
Fixpoint comparer_members (l : list avalue) : list avalue := match l with a :: _ :: r => a :: comparer_members r | _ => [] end.
Inductive broken_struct_attr (st : struct) : Prop :=
(* @size names no member, or a member that is not an integer *)
| BrokenSizeAttr a n : find_attr (s_attrs st) "size" = Some a -> at_values a = [AvStr n] -> n <> "" ->
    (forall i, ~ In (n, FInt i) (members (s_fields st))) -> broken_struct_attr st
| BrokenDiscriminator a n : find_attr (s_attrs st) "discriminator" = Some a -> In (AvStr n) (at_values a) ->
    ~ In n (map fst (members (s_fields st))) -> broken_struct_attr st
| BrokenComparer a n : find_attr (s_attrs st) "comparer" = Some a -> In (AvStr n) (comparer_members (at_values a)) ->
    ~ In n (map fst (members (s_fields st))) -> broken_struct_attr st
| BrokenInitializerTarget attrs a n v rest : s_attrs st = Some attrs -> In a attrs -> at_name a = "initializes" -> at_values a = AvStr n :: v :: rest ->
    ~ In n (map fst (members (s_fields st))) -> broken_struct_attr st.

(* every `initializes` attribute carries its two values (the grammar: "initializes" "(" PROPERTY_NAME "," CONST_PROPERTY_NAME ")") *)
Definition initializes_complete (s : list decl) : bool :=
  forallb (fun d => match d with
                    | DStruct st => match s_attrs st with
                                    | Some l => forallb (fun a => if "initializes" =? at_name a then (2 <=? length (at_values a))%nat else true) l
                                    | None => true
                                    end
                    | _ => true
                    end) s.

(* ---- breaking exactly one site ---- *)
Definition with_fields (st : struct) (fs : list field) : struct :=
  {| s_name := s_name st; s_disp := s_disp st; s_fields := fs; s_factory_type := s_factory_type st; s_attrs := s_attrs st;
     s_comment := s_comment st; s_requires_unaligned := s_requires_unaligned st |}.
Fixpoint replace_nth {A} (i : nat) (x : A) (l : list A) : list A :=
  match l, i with [], _ => [] | _ :: r, O => x :: r | y :: r, S k => y :: replace_nth k x r end.
Fixpoint insert_after {A} (i : nat) (x : A) (l : list A) : list A :=
  match l, i with [], _ => [x] | y :: r, O => y :: x :: r | y :: r, S k => y :: insert_after k x r end.
Definition update_struct (s : list decl) (D : string) (f : struct -> struct) : list decl :=
  map (fun d => match d with DStruct st => if s_name st =? D then DStruct (f st) else d | _ => d end) s.

(* site = (struct name, index of the member in the struct body) *)
Definition site := (string * nat)%type.
Definition site_field (s : list decl) (x : site) : option field :=
  match lookup s (fst x) with Some (DStruct st) => nth_error (s_fields st) (snd x) | _ => None end.
Definition rewrite_site (s : list decl) (x : site) (f' : field) : list decl :=
  update_struct s (fst x) (fun st => with_fields st (replace_nth (snd x) f' (s_fields st))).

Definition break_member_type (bad : string) (f : field) : option field :=
  match f with Field n (FName _) v d a c => Some (Field n (FName bad) v d a c) | _ => None end.
Definition break_elem_type (bad : string) (f : field) : option field :=
  match f with Field n (FArray arr) v d a c => Some (Field n (FArray (set_elem arr (ElName bad))) v d a c) | _ => None end.
Definition break_inlined_type (bad : string) (f : field) : option field :=
  match f with InlinePlaceholder _ c => Some (InlinePlaceholder bad c) | _ => None end.
Definition break_size_member (bad : string) (f : field) : option field :=
  match f with Field n (FArray arr) v d a c => Some (Field n (FArray (set_size arr (SzName bad))) v d a c) | _ => None end.
Definition break_sort_key (bad : string) (f : field) : option field :=
  match f with Field n (FArray arr) v d a c => Some (Field n (FArray (set_sort_key arr (Some bad))) v d a c) | _ => None end.
Definition break_sizeof_member (bad : string) (f : field) : option field :=
  match f with Field n ty (VName _) DispSizeof a c => Some (Field n ty (VName bad) DispSizeof a c) | _ => None end.
Definition break_sizeref (bad : string) (f : field) : option field :=
  match f with
  | Field n (FInt i) v d a c =>
    match it_sizeref i with Some (_, delta) => Some (Field n (FInt (set_sizeref i (Some (bad, delta)))) v d a c) | None => None end
  | _ => None
  end.
Definition not_sizeof (d : disposition) : bool := match d with DispSizeof => false | _ => true end.
Definition break_cond_member (bad : string) (f : field) : option field :=
  match f with
  | Field n ty (VCond cnd) d a c => if not_sizeof d then Some (Field n ty (VCond (set_link cnd bad)) d a c) else None
  | _ => None
  end.
Definition break_cond_value (bad : string) (f : field) : option field :=
  match f with
  | Field n ty (VCond cnd) d a c => if not_sizeof d then Some (Field n ty (VCond (set_cvalue cnd (CvName bad))) d a c) else None
  | _ => None
  end.
Definition break_const_value (bad : string) (f : field) : option field :=
  match f with
  | Field n ty (VName _) d a c => if not_sizeof d then Some (Field n ty (VName bad) d a c) else None
  | Field n ty (VNum _) d a c => if not_sizeof d then Some (Field n ty (VName bad) d a c) else None
  | _ => None
  end.

Definition break_with (brk : string -> field -> option field) (bad : string) (x : site) (s : list decl) : option (list decl) :=
  match site_field s x with
  | Some f => match brk bad f with Some f' => Some (rewrite_site s x f') | None => None end
  | None => None
  end.

(* duplicate member: a second member with the name of member i is inserted after it *)
Definition break_duplicate_member (x : site) (s : list decl) : option (list decl) :=
  match site_field s x with
  | Some (Field n ty v d a c) =>
    Some (update_struct s (fst x) (fun st => with_fields st (insert_after (snd x) (Field n ty v d a c) (s_fields st))))
  | _ => None
  end.
(* duplicate enum value name: value i of enum E is repeated at the end *)
Definition break_duplicate_enum_value (E : string) (i : nat) (s : list decl) : option (list decl) :=
  match lookup s E with
  | Some (DEnum n b vs a c) =>
    match nth_error vs i with
    | Some v => Some (map (fun d => match d with DEnum n' b' vs' a' c' => if n' =? E then DEnum n' b' (vs' ++ [v]) a' c' else d | _ => d end) s)
    | None => None
    end
  | _ => None
  end.
