(* Proofs about Cats/Expand.v (the model of AstPostProcessor and the ast.py copy functions).
   Part 0: specifications -- fixed text written from the property statement (literal strings, no regenerated constant).
   Part 1: prefix copy.  Part 2: named pass.  Part 3: unnamed pass (Flat, fuel from acyclicity).  Part 4: frame. *)
From Symv Require Import Cats.Expand.
From Coq Require Import Lia Permutation.
Open Scope string_scope.

(* ================================================================================================================== *)
(* Part 0: specifications *)

Definition spec_point (x n : string) : string := x ++ "_" ++ n.
Definition spec_name (x n : string) : string := if String.eqb n "__value__" then x else spec_point x n.

Definition spec_int (x : string) (i : intty) : intty :=
  {| it_unsigned := it_unsigned i; it_size := it_size i;
     it_sizeref := match it_sizeref i with Some (p, d) => Some (spec_point x p, d) | None => None end |}.
Definition spec_asize (x : string) (sz : asize) : asize :=
  match sz with SzName n => SzName (spec_point x n) | SzNum z => SzNum z | SzFill => SzFill end.
Definition spec_array (x : string) (a : array) : array :=
  {| a_elem := a_elem a; a_size := spec_asize x (a_size a); a_sort_key := option_map (spec_point x) (a_sort_key a);
     a_byte_constrained := a_byte_constrained a; a_alignment := a_alignment a; a_last_padded := a_last_padded a |}.
Definition spec_type (x : string) (t : ftype) : ftype :=
  match t with FInt i => FInt (spec_int x i) | FName n => FName n | FArray a => FArray (spec_array x a) end.
(* a condition's link is re-pointed; the member a `sizeof` member measures is re-pointed like a member name; constants are kept *)
Definition spec_value (x : string) (d : disposition) (v : fvalue) : fvalue :=
  match v with
  | VCond c => VCond {| c_value := c_value c; c_op := c_op c; c_link := spec_point x (c_link c) |}
  | VNone => VNone | VNum n => VNum n
  | VName s => match d with DispSizeof => VName (spec_name x s) | _ => VName s end
  end.
(* the comment of the copy of member n: the `[n] ...` entry of the documentation of the named inline (None when absent) *)
Definition spec_comment (site_comment : option string) (n : string) : option string :=
  match site_comment with Some c => member_comment (build_comment_map c) n | None => None end.

Definition prefix_copy (x : string) (site_comment : option string) (m : field) : field :=
  match m with
  | Field n t v d a _ => Field (spec_name x n) (spec_type x t) (spec_value x d v) d a (spec_comment site_comment n)
  | InlinePlaceholder t c => InlinePlaceholder t c
  end.

Definition is_field (f : field) : bool := match f with Field _ _ _ _ _ _ => true | InlinePlaceholder _ _ => false end.

(* the members a declared member stands for after the named pass, looking templates up in env *)
Definition expand_member (env : list decl) (m : field) : list field :=
  match m with
  | Field x (FName t) _ DispInline _ cmt =>
    match lookup env t with Some (DStruct T) => map (prefix_copy x cmt) (s_fields T) | _ => [] end
  | _ => [m]
  end.
Definition expand_decl (env : list decl) (d : decl) : decl :=
  match d with DStruct st => DStruct (set_fields st (flat_map (expand_member env) (s_fields st))) | _ => d end.

(* a named inline site is well-formed in env: its target exists, is another struct, is marked inline, contains only members *)
Definition site_ok (env : list decl) (self : string) (m : field) : Prop :=
  match m with
  | Field _ (FName t) _ DispInline _ _ =>
    t <> self /\ exists T, lookup env t = Some (DStruct T) /\ s_disp T = SdInline /\ forallb is_field (s_fields T) = true
  | Field _ _ _ DispInline _ _ => False
  | _ => True
  end.
Definition sites_ok (env : list decl) (d : decl) : Prop :=
  match d with DStruct st => forall m, In m (s_fields st) -> site_ok env (s_name st) m | _ => True end.
Definition named_wf (s : list decl) : Prop := NoDup (map decl_name s) /\ forall d, In d s -> sites_ok s d.

(* ================================================================================================================== *)
(* Part 1: prefix copy *)

Lemma copy_name_spec x n : copy_name x n = spec_name x n.
Proof. reflexivity. Qed.

Lemma copy_ftype_spec x t : copy_ftype x t = spec_type x t.
Proof.
  destruct t as [i|n|a]; cbn; [|reflexivity|].
  - unfold copy_int, spec_int, set_sizeref. destruct (it_sizeref i) as [[p d]|]; reflexivity.
  - unfold copy_array, spec_array. destruct (a_size a), (a_sort_key a); reflexivity.
Qed.

Lemma copy_fvalue_spec x d v : copy_fvalue x d v = spec_value x d v.
Proof. destruct v; try reflexivity. destruct d; reflexivity. Qed.

Lemma copy_field_spec x cmt n t v d a c :
  copy_field x (match cmt with Some c => build_comment_map c | None => [] end) (Field n t v d a c)
  = Ok (prefix_copy x cmt (Field n t v d a c)).
Proof.
  cbn [copy_field prefix_copy]. rewrite copy_name_spec, copy_ftype_spec, copy_fvalue_spec.
  destruct cmt; reflexivity.
Qed.

Lemma is_inline_iff T : is_inline T = true <-> s_disp T = SdInline.
Proof. unfold is_inline. destruct (s_disp T); cbn; split; congruence. Qed.

Lemma mapM_ok {A B} (f : A -> result B) (g : A -> B) l : (forall x, In x l -> f x = Ok (g x)) -> mapM f l = Ok (map g l).
Proof.
  induction l as [|x r IH]; intros H; [reflexivity|]. cbn. rewrite (H x (or_introl eq_refl)). cbn.
  rewrite IH by (intros; apply H; right; assumption). reflexivity.
Qed.

Lemma apply_inline_template_spec T x cmt :
  s_disp T = SdInline -> forallb is_field (s_fields T) = true ->
  apply_inline_template T x cmt = Ok (map (prefix_copy x cmt) (s_fields T)).
Proof.
  intros Hd Hf. unfold apply_inline_template. apply is_inline_iff in Hd. rewrite Hd. cbn [negb].
  apply mapM_ok. intros f Hin. rewrite forallb_forall in Hf. specialize (Hf f Hin).
  destruct f; [apply copy_field_spec|discriminate].
Qed.

Lemma apply_inline_template_not_inline T x cmt : s_disp T <> SdInline -> apply_inline_template T x cmt = Reject.
Proof.
  intros Hd. unfold apply_inline_template.
  destruct (is_inline T) eqn:E; [apply is_inline_iff in E; contradiction|reflexivity].
Qed.

(* every property of a member other than its name, the references and the comment is kept *)
Lemma prefix_copy_keeps x cmt n t v d a c :
  exists n' t' v' c', prefix_copy x cmt (Field n t v d a c) = Field n' t' v' d a c'
  /\ match t, t' with
     | FInt i, FInt i' => it_unsigned i' = it_unsigned i /\ it_size i' = it_size i
     | FName s, FName s' => s' = s
     | FArray r, FArray r' =>
       a_elem r' = a_elem r /\ a_byte_constrained r' = a_byte_constrained r /\ a_alignment r' = a_alignment r
       /\ a_last_padded r' = a_last_padded r
       /\ (a_size r = SzFill -> a_size r' = SzFill) /\ (forall z, a_size r = SzNum z -> a_size r' = SzNum z)
     | _, _ => False
     end
  /\ match v, v' with
     | VCond k, VCond k' => c_value k' = c_value k /\ c_op k' = c_op k
     | VName s, VName s' => s' = match d with DispSizeof => spec_name x s | _ => s end
     | _, _ => v' = v
     end.
Proof.
  eexists _, _, _, _. split; [reflexivity|]. split.
  - destruct t as [i|s|r]; cbn; auto. repeat split; auto. intros E; rewrite E; reflexivity. intros z E; rewrite E; reflexivity.
  - destruct v; cbn; auto. destruct d; reflexivity.
Qed.

Lemma prefix_copy_is_field x cmt m : is_field (prefix_copy x cmt m) = is_field m.
Proof. destruct m; reflexivity. Qed.

(* ================================================================================================================== *)
(* lookup / update *)

Lemma lookup_app_l s1 s2 n d : lookup s1 n = Some d -> lookup (s1 ++ s2)%list n = Some d.
Proof. unfold lookup. induction s1 as [|e r IH]; cbn; [discriminate|]. destruct (String.eqb (decl_name e) n); auto. Qed.

Lemma lookup_none_notin s n : lookup s n = None <-> ~ In n (map decl_name s).
Proof.
  unfold lookup. induction s as [|e r IH]; cbn; [tauto|].
  destruct (String.eqb (decl_name e) n) eqn:E.
  - apply String.eqb_eq in E. split; [discriminate|]. intros H; exfalso; apply H; left; assumption.
  - apply String.eqb_neq in E. rewrite IH. tauto.
Qed.

Lemma lookup_app_r s1 s2 n : ~ In n (map decl_name s1) -> lookup (s1 ++ s2)%list n = lookup s2 n.
Proof.
  unfold lookup. induction s1 as [|e r IH]; cbn; [reflexivity|]. intros H.
  destruct (String.eqb (decl_name e) n) eqn:E; [apply String.eqb_eq in E; tauto|]. apply IH. tauto.
Qed.

Lemma lookup_head d r : lookup (d :: r) (decl_name d) = Some d.
Proof. unfold lookup. cbn. rewrite String.eqb_refl. reflexivity. Qed.

Lemma lookup_name s n d : lookup s n = Some d -> decl_name d = n /\ In d s.
Proof.
  unfold lookup. intros H. apply find_some in H. destruct H as [Hin E]. apply String.eqb_eq in E. auto.
Qed.

Lemma lookup_in_nodup s d : NoDup (map decl_name s) -> In d s -> lookup s (decl_name d) = Some d.
Proof.
  induction s as [|e r IH]; cbn; [tauto|]. intros Hnd [->|Hin]; [apply lookup_head|].
  inversion Hnd as [|? ? Hn Hnd']; subst. unfold lookup. cbn.
  destruct (String.eqb (decl_name e) (decl_name d)) eqn:E.
  - apply String.eqb_eq in E. exfalso. apply Hn. rewrite E. apply in_map. assumption.
  - apply IH; assumption.
Qed.

Lemma update_notin s st : ~ In (s_name st) (map decl_name s) -> update s st = s.
Proof.
  unfold update. induction s as [|e r IH]; cbn; [reflexivity|]. intros H.
  destruct (String.eqb (decl_name e) (s_name st)) eqn:E; [apply String.eqb_eq in E; tauto|].
  f_equal. apply IH. tauto.
Qed.

Lemma update_app s1 s2 st : update (s1 ++ s2)%list st = (update s1 st ++ update s2 st)%list.
Proof. unfold update. apply map_app. Qed.

Lemma update_middle done d r st :
  NoDup (map decl_name (done ++ d :: r)%list) -> decl_name d = s_name st ->
  update (done ++ d :: r)%list st = (done ++ DStruct st :: r)%list.
Proof.
  intros Hnd Hn. rewrite map_app in Hnd. cbn in Hnd. pose proof (NoDup_remove_2 _ _ _ Hnd) as Hnot.
  rewrite in_app_iff in Hnot. rewrite update_app. rewrite update_notin by (rewrite <- Hn; tauto).
  f_equal. unfold update at 1. cbn. rewrite Hn, String.eqb_refl. f_equal.
  apply update_notin. rewrite <- Hn. tauto.
Qed.

Lemma set_fields_same st : set_fields st (s_fields st) = st.
Proof. destruct st; reflexivity. Qed.

(* ================================================================================================================== *)
(* Part 2: the named pass *)

Lemma is_named_inline_iff f :
  is_named_inline f = true <-> exists n t v a c, f = Field n t v DispInline a c.
Proof.
  destruct f as [n t v d a c|t c].
  - assert (E : is_named_inline (Field n t v d a c) = match d with DispInline => true | _ => false end)
      by (destruct d; reflexivity).
    rewrite E. destruct d; split; try discriminate; try (intros (? & ? & ? & ? & ? & [=])); eauto 7.
  - split; [discriminate|]. intros (? & ? & ? & ? & ? & [=]).
Qed.

Lemma expand_member_not_site env m : is_named_inline m = false -> expand_member env m = [m].
Proof.
  destruct m as [n t v d a c|]; [|reflexivity]. destruct d; try (destruct t; reflexivity).
  intros H. apply not_true_iff_false in H. exfalso. apply H. apply is_named_inline_iff. eauto 7.
Qed.

Lemma resolve_other s cur t : t <> s_name cur -> resolve s cur t = lookup s t.
Proof. intros H. unfold resolve. apply String.eqb_neq in H. rewrite H. reflexivity. Qed.

Lemma named_fields_spec s self fs : forall acc,
  (forall m, In m fs -> site_ok s (s_name self) m) ->
  named_fields s self fs acc = Ok (acc ++ flat_map (expand_member s) fs)%list.
Proof.
  induction fs as [|f r IH]; intros acc H; cbn [named_fields flat_map].
  - rewrite app_nil_r. reflexivity.
  - destruct (is_named_inline f) eqn:E.
    + apply is_named_inline_iff in E. destruct E as (x & t & v & a & c & ->).
      pose proof (H _ (or_introl eq_refl)) as Hs. cbn in Hs. destruct t as [i|t|ar]; try contradiction.
      destruct Hs as (Hne & T & Hl & Hd & Hf).
      rewrite resolve_other by (cbn; assumption). rewrite Hl.
      rewrite apply_inline_template_spec by assumption. cbn [bind].
      rewrite IH by (intros; apply H; right; assumption).
      cbn [expand_member]. rewrite Hl. rewrite app_assoc. reflexivity.
    + rewrite IH by (intros; apply H; right; assumption).
      rewrite expand_member_not_site by assumption. rewrite <- app_assoc. reflexivity.
Qed.

Lemma named_struct_spec s st :
  sites_ok s (DStruct st) -> named_struct s st = Ok (set_fields st (flat_map (expand_member s) (s_fields st))).
Proof. intros H. unfold named_struct. rewrite named_fields_spec by exact H. reflexivity. Qed.

Lemma flat_map_no_sites env fs : existsb is_named_inline fs = false -> flat_map (expand_member env) fs = fs.
Proof.
  induction fs as [|f r IH]; cbn; [reflexivity|]. intros H. apply orb_false_iff in H. destruct H as [H1 H2].
  rewrite expand_member_not_site by assumption. cbn. f_equal. auto.
Qed.

Lemma expand_decl_no_sites env d : is_struct_with has_named_inline d = false -> expand_decl env d = d.
Proof.
  destruct d as [| |st]; try reflexivity. cbn. unfold has_named_inline. intros H.
  rewrite flat_map_no_sites by assumption. rewrite set_fields_same. reflexivity.
Qed.

(* the whole pass, declaration by declaration: a declaration sees the ones before it already expanded, later ones as declared *)
Fixpoint named_seq (done todo : list decl) : list decl :=
  match todo with
  | [] => []
  | d :: r => let d' := expand_decl (done ++ d :: r) d in d' :: named_seq (done ++ [d']) r
  end.

Fixpoint named_seq_ok (done todo : list decl) : Prop :=
  match todo with
  | [] => True
  | d :: r => sites_ok (done ++ d :: r) d /\ named_seq_ok (done ++ [expand_decl (done ++ d :: r) d]) r
  end.

Lemma expand_decl_name env d : decl_name (expand_decl env d) = decl_name d.
Proof. destruct d; reflexivity. Qed.

Lemma named_loop_seq todo : forall done,
  NoDup (map decl_name (done ++ todo)%list) -> named_seq_ok done todo ->
  named_loop (worklist has_named_inline todo) (done ++ todo)%list = Ok (done ++ named_seq done todo)%list.
Proof.
  induction todo as [|d r IH]; intros done Hnd Hok; cbn [named_seq].
  - reflexivity.
  - destruct Hok as [Hs Hok]. unfold worklist. cbn [filter].
    assert (Hstep : forall d', decl_name d' = decl_name d ->
              NoDup (map decl_name ((done ++ [d']) ++ r)%list)).
    { intros d' Hn. rewrite <- app_assoc. cbn. rewrite map_app in *. cbn in *. rewrite Hn. assumption. }
    destruct (is_struct_with has_named_inline d) eqn:E.
    + destruct d as [| |st]; try discriminate. cbn [map decl_name named_loop].
      assert (Hl : lookup (done ++ DStruct st :: r)%list (s_name st) = Some (DStruct st)).
      { rewrite lookup_app_r. apply (lookup_head (DStruct st)).
        rewrite map_app in Hnd. cbn in Hnd. pose proof (NoDup_remove_2 _ _ _ Hnd) as Hnot.
        rewrite in_app_iff in Hnot. tauto. }
      rewrite Hl. rewrite named_struct_spec by assumption. cbn [bind].
      rewrite update_middle by (auto). fold (worklist has_named_inline r).
      pose proof (IH (done ++ [expand_decl (done ++ DStruct st :: r) (DStruct st)])%list
                    (Hstep _ (expand_decl_name _ _)) Hok) as IH'.
      rewrite <- !app_assoc in IH'. cbn [app] in IH'. exact IH'.
    + rewrite (expand_decl_no_sites _ _ E) in *. fold (worklist has_named_inline r).
      pose proof (IH (done ++ [d])%list (Hstep _ eq_refl) Hok) as IH'.
      rewrite <- !app_assoc in IH'. cbn [app] in IH'. exact IH'.
Qed.

(* -- shape invariance: names, struct dispositions and "only members" survive the expansion, so well-formedness of the
      declared schema gives well-formedness of every intermediate state *)
Definition same_shape (d d' : decl) : Prop :=
  decl_name d' = decl_name d /\
  match d with
  | DStruct T => exists T', d' = DStruct T' /\ s_disp T' = s_disp T
                 /\ (forallb is_field (s_fields T) = true -> forallb is_field (s_fields T') = true)
  | _ => d' = d
  end.

Lemma same_shape_refl d : same_shape d d.
Proof. split; [reflexivity|]. destruct d; eauto. Qed.

Lemma lookup_shape s s' t T :
  Forall2 same_shape s s' -> lookup s t = Some (DStruct T) ->
  exists T', lookup s' t = Some (DStruct T') /\ s_disp T' = s_disp T
             /\ (forallb is_field (s_fields T) = true -> forallb is_field (s_fields T') = true).
Proof.
  unfold lookup. induction 1 as [|d d' r r' [Hn Hd] _ IH]; cbn; [discriminate|]. rewrite Hn.
  destruct (String.eqb (decl_name d) t); [|exact IH].
  intros [= ->]. destruct Hd as (T' & -> & H1 & H2). eauto.
Qed.

Lemma site_ok_shape s s' self m : Forall2 same_shape s s' -> site_ok s self m -> site_ok s' self m.
Proof.
  intros HF. destruct m as [n t v d a c|]; [|auto]. destruct t; destruct d; cbn; auto.
  intros (Hne & T & Hl & Hd & Hf). split; [assumption|].
  destruct (lookup_shape _ _ _ _ HF Hl) as (T' & Hl' & Hd' & Hf'). exists T'. rewrite Hd'. auto.
Qed.

Lemma sites_ok_shape s s' d : Forall2 same_shape s s' -> sites_ok s d -> sites_ok s' d.
Proof. intros HF. destruct d; cbn; auto. intros H m Hin. eapply site_ok_shape; eauto. Qed.

Lemma forallb_is_field_flat_map env fs :
  (forall m, In m fs -> is_named_inline m = true ->
     match m with Field _ (FName t) _ _ _ _ => exists T, lookup env t = Some (DStruct T) /\ forallb is_field (s_fields T) = true
     | _ => False end) ->
  forallb is_field fs = true -> forallb is_field (flat_map (expand_member env) fs) = true.
Proof.
  induction fs as [|f r IH]; intros H Hf; [reflexivity|]. cbn in Hf. apply andb_true_iff in Hf. destruct Hf as [Hf1 Hf2].
  cbn [flat_map]. rewrite forallb_app. rewrite IH; [|intros m Hm; apply H; right; exact Hm|exact Hf2]. rewrite andb_true_r.
  destruct (is_named_inline f) eqn:E.
  - pose proof (H f (or_introl eq_refl) E) as Hm.
    apply is_named_inline_iff in E. destruct E as (n & t & v & a & c & ->).
    destruct t as [|t|]; try contradiction. destruct Hm as (T & Hl & HT).
    cbn [expand_member]. rewrite Hl. rewrite forallb_forall in *. intros m Hin. apply in_map_iff in Hin.
    destruct Hin as (m0 & <- & Hin). rewrite prefix_copy_is_field. auto.
  - rewrite expand_member_not_site by assumption. cbn. rewrite Hf1. reflexivity.
Qed.

Lemma expand_decl_shape env d : sites_ok env d -> same_shape d (expand_decl env d).
Proof.
  intros Hs. split; [apply expand_decl_name|]. destruct d as [| |T]; try reflexivity.
  cbn. eexists; split; [reflexivity|]. split; [reflexivity|]. cbn [s_fields set_fields].
  apply forallb_is_field_flat_map. intros m Hin E. specialize (Hs m Hin).
  apply is_named_inline_iff in E. destruct E as (n & t & v & a & c & ->). cbn in Hs.
  destruct t; try contradiction. destruct Hs as (_ & T' & Hl & _ & Hf). eauto.
Qed.

Lemma named_seq_ok_from_wf todo : forall done0 done,
  Forall2 same_shape done0 done ->
  (forall d, In d todo -> sites_ok (done0 ++ todo) d) ->
  named_seq_ok done todo.
Proof.
  induction todo as [|d r IH]; intros done0 done HF Hwf; cbn [named_seq_ok]; [exact I|].
  assert (HF' : Forall2 same_shape (done0 ++ d :: r)%list (done ++ d :: r)%list).
  { apply Forall2_app; [assumption|]. clear. induction (d :: r); constructor; auto using same_shape_refl. }
  assert (Hd : sites_ok (done ++ d :: r) d).
  { eapply sites_ok_shape; [exact HF'|]. apply Hwf. left; reflexivity. }
  split; [exact Hd|].
  apply (IH (done0 ++ [d])%list).
  - apply Forall2_app; [assumption|]. constructor; [|constructor]. apply expand_decl_shape. exact Hd.
  - intros d0 Hin. rewrite <- app_assoc. apply Hwf. right; assumption.
Qed.

(* expand_named_spec, general form *)
Theorem expand_named_seq s : named_wf s -> expand_named s = Ok (named_seq [] s).
Proof.
  intros [Hnd Hwf]. unfold expand_named.
  apply (named_loop_seq s []); [exact Hnd|]. apply (named_seq_ok_from_wf s [] []); [constructor|exact Hwf].
Qed.

Lemma named_seq_length todo : forall done, length (named_seq done todo) = length todo.
Proof. induction todo as [|d r IH]; intros done; cbn; [reflexivity|]. rewrite IH. reflexivity. Qed.

Lemma named_seq_nth todo : forall done i d,
  nth_error todo i = Some d ->
  nth_error (named_seq done todo) i
  = Some (expand_decl (done ++ firstn i (named_seq done todo) ++ skipn i todo) d).
Proof.
  induction todo as [|e r IH]; intros done i d H; [destruct i; discriminate|].
  destruct i as [|i]; cbn in H.
  - injection H as ->. reflexivity.
  - cbn [named_seq nth_error firstn skipn]. rewrite (IH _ _ _ H). rewrite <- app_assoc. reflexivity.
Qed.

Theorem expand_named_nth s : named_wf s ->
  exists s', expand_named s = Ok s' /\ length s' = length s /\
  forall i d, nth_error s i = Some d -> nth_error s' i = Some (expand_decl (firstn i s' ++ skipn i s) d).
Proof.
  intros H. exists (named_seq [] s). split; [apply expand_named_seq; assumption|]. split; [apply named_seq_length|].
  intros i d Hn. apply (named_seq_nth s [] i d Hn).
Qed.

(* -- templates that are not themselves users ("flat" templates): every site sees the declared template *)
Definition site_target (m : field) : option string :=
  match m with Field _ (FName t) _ DispInline _ _ => Some t | _ => None end.
Definition flat_templates (s : list decl) : Prop :=
  forall st m t T, In (DStruct st) s -> In m (s_fields st) -> site_target m = Some t ->
    lookup s t = Some (DStruct T) -> has_named_inline T = false.

Lemma lookup_map_app (f : decl -> decl) l1 l2 t :
  (forall d, decl_name (f d) = decl_name d) ->
  lookup (map f l1 ++ l2)%list t = match lookup l1 t with Some d => Some (f d) | None => lookup l2 t end.
Proof.
  intros Hf. unfold lookup. induction l1 as [|e r IH]; cbn; [reflexivity|]. rewrite Hf.
  destruct (String.eqb (decl_name e) t); [reflexivity|exact IH].
Qed.

Lemma lookup_app l1 l2 t : lookup (l1 ++ l2)%list t = match lookup l1 t with Some d => Some d | None => lookup l2 t end.
Proof. rewrite <- (map_id l1) at 1. apply lookup_map_app. reflexivity. Qed.

Lemma expand_member_agree s env m :
  (forall t, site_target m = Some t -> lookup env t = lookup s t) -> expand_member env m = expand_member s m.
Proof.
  intros H. destruct m as [n t v d a c|]; [|reflexivity]. destruct t; try reflexivity. destruct d; try reflexivity.
  cbn. rewrite (H _ eq_refl). reflexivity.
Qed.

Lemma expand_decl_agree s env d :
  (forall st m t, d = DStruct st -> In m (s_fields st) -> site_target m = Some t -> lookup env t = lookup s t) ->
  expand_decl env d = expand_decl s d.
Proof.
  intros H. destruct d as [| |st]; try reflexivity. cbn. f_equal. f_equal.
  specialize (H st). induction (s_fields st) as [|m r IH]; [reflexivity|]. cbn. f_equal.
  - apply expand_member_agree. intros t Ht. apply (H m t eq_refl (or_introl eq_refl) Ht).
  - apply IH. intros m0 t0 E Hin. apply (H m0 t0 E (or_intror Hin)).
Qed.

Lemma site_target_ok env self m t : site_ok env self m -> site_target m = Some t ->
  exists T, lookup env t = Some (DStruct T).
Proof.
  destruct m as [n ty v d a c|]; [|discriminate]. destruct ty; try discriminate. destruct d; try discriminate.
  cbn. intros (_ & T & Hl & _) [= ->]. eauto.
Qed.

Lemma named_seq_flat s : named_wf s -> flat_templates s ->
  forall todo done0, s = (done0 ++ todo)%list -> named_seq (map (expand_decl s) done0) todo = map (expand_decl s) todo.
Proof.
  intros [Hnd Hwf] Hflat. induction todo as [|d r IH]; intros done0 Hs; [reflexivity|].
  cbn [named_seq map].
  assert (Hd : expand_decl (map (expand_decl s) done0 ++ d :: r) d = expand_decl s d).
  { apply expand_decl_agree. intros st m t -> Hin Ht.
    assert (HinS : In (DStruct st) s) by (rewrite Hs; apply in_or_app; right; left; reflexivity).
    destruct (site_target_ok _ _ _ _ (Hwf _ HinS m Hin) Ht) as (T & Hl).
    pose proof (Hflat _ _ _ _ HinS Hin Ht Hl) as HT.
    rewrite lookup_map_app by apply expand_decl_name. rewrite Hl. rewrite Hs in Hl. rewrite lookup_app in Hl.
    destruct (lookup done0 t) as [d0|]; [|exact Hl]. injection Hl as ->.
    rewrite expand_decl_no_sites by exact HT. reflexivity. }
  rewrite Hd. f_equal.
  specialize (IH (done0 ++ [d])%list). rewrite map_app in IH. cbn [map] in IH. apply IH.
  rewrite <- app_assoc. exact Hs.
Qed.

(* expand_named_spec *)
Theorem expand_named_flat s : named_wf s -> flat_templates s -> expand_named s = Ok (map (expand_decl s) s).
Proof.
  intros Hwf Hflat. rewrite expand_named_seq by assumption. f_equal.
  apply (named_seq_flat s Hwf Hflat s []). reflexivity.
Qed.

(* -- frame, first half: a declaration that is not itself a user is left alone by the named pass (any schema, even ill-formed) *)
Lemma update_nth_other s st i d :
  nth_error s i = Some d -> decl_name d <> s_name st -> nth_error (update s st) i = Some d.
Proof.
  intros Hn Hne. unfold update. rewrite nth_error_map, Hn. cbn. apply String.eqb_neq in Hne. rewrite Hne. reflexivity.
Qed.

Lemma named_struct_name s st st' : named_struct s st = Ok st' -> s_name st' = s_name st.
Proof.
  unfold named_struct. destruct (named_fields s st (s_fields st) []); cbn; try discriminate. intros [= <-]. reflexivity.
Qed.

Lemma named_loop_frame names : forall s s', named_loop names s = Ok s' ->
  forall i d, nth_error s i = Some d -> ~ In (decl_name d) names -> nth_error s' i = Some d.
Proof.
  induction names as [|n r IH]; intros s s' H i d Hn Hnot; cbn in H.
  - injection H as <-. exact Hn.
  - destruct (lookup s n) as [[| |st]|] eqn:El; try discriminate.
    destruct (named_struct s st) as [st'| |] eqn:Es; cbn in H; try discriminate.
    apply (IH _ _ H).
    + apply update_nth_other; [exact Hn|]. rewrite (named_struct_name _ _ _ Es).
      apply lookup_name in El. destruct El as [El _]. cbn in El. rewrite El. intros E. apply Hnot. left. symmetry. exact E.
    + intros Hin. apply Hnot. right. exact Hin.
Qed.

Lemma nodup_name_inj s d1 d2 : NoDup (map decl_name s) -> In d1 s -> In d2 s -> decl_name d1 = decl_name d2 -> d1 = d2.
Proof.
  intros Hnd H1 H2 E. pose proof (lookup_in_nodup s d1 Hnd H1) as L1. pose proof (lookup_in_nodup s d2 Hnd H2) as L2.
  rewrite E in L1. congruence.
Qed.

Theorem named_template_unchanged s s' i d :
  NoDup (map decl_name s) -> expand_named s = Ok s' ->
  nth_error s i = Some d -> is_struct_with has_named_inline d = false -> nth_error s' i = Some d.
Proof.
  intros Hnd H Hn Hd. apply (named_loop_frame _ _ _ H i d Hn).
  unfold worklist. intros Hin. apply in_map_iff in Hin. destruct Hin as (d2 & E & Hin).
  apply filter_In in Hin. destruct Hin as [Hin2 Hf].
  assert (d2 = d) by (apply (nodup_name_inj s); auto; eapply nth_error_In; eauto). subst. congruence.
Qed.

(* -- frame, second half (named pass): two schemas that agree on a struct and on the templates it names expand it equally *)
Theorem named_site_frame s1 s2 d :
  named_wf s1 -> flat_templates s1 -> named_wf s2 -> flat_templates s2 ->
  (forall st m t, d = DStruct st -> In m (s_fields st) -> site_target m = Some t -> lookup s1 t = lookup s2 t) ->
  exists s1' s2', expand_named s1 = Ok s1' /\ expand_named s2 = Ok s2' /\
  forall i j, nth_error s1 i = Some d -> nth_error s2 j = Some d ->
    nth_error s1' i = nth_error s2' j /\ nth_error s1' i = Some (expand_decl s1 d).
Proof.
  intros W1 F1 W2 F2 Hag. exists (map (expand_decl s1) s1), (map (expand_decl s2) s2).
  split; [apply expand_named_flat; assumption|]. split; [apply expand_named_flat; assumption|].
  intros i j H1 H2. rewrite !nth_error_map, H1, H2. cbn. split; [|reflexivity]. f_equal. apply expand_decl_agree. exact Hag.
Qed.

(* ================================================================================================================== *)
(* Part 3: the unnamed pass *)

(* -- specification: the recursive in-place splice, as a relation (no bound on the depth) *)
Inductive Flat (s : list decl) : list field -> list field -> Prop :=
| Flat_nil : Flat s [] []
| Flat_field n t v d a c fs out : Flat s fs out -> Flat s (Field n t v d a c :: fs) (Field n t v d a c :: out)
| Flat_inline t c T fs o1 o2 :
    lookup s t = Some (DStruct T) -> Flat s (s_fields T) o1 -> Flat s fs o2 -> Flat s (InlinePlaceholder t c :: fs) (o1 ++ o2).

Lemma Flat_fun s fs o1 : Flat s fs o1 -> forall o2, Flat s fs o2 -> o1 = o2.
Proof.
  induction 1 as [|n t v d a c fs out H IH|t c T fs o1 o2 Hl H1 IH1 H2 IH2]; intros o' H'; inversion H'; subst.
  - reflexivity.
  - f_equal. auto.
  - match goal with E1 : lookup s t = Some (DStruct T), E2 : lookup s t = Some (DStruct ?T2) |- _ =>
      rewrite E1 in E2; injection E2 as <- end.
    f_equal; auto.
Qed.

Lemma Flat_app s f1 o1 : Flat s f1 o1 -> forall f2 o2, Flat s f2 o2 -> Flat s (f1 ++ f2) (o1 ++ o2).
Proof.
  induction 1 as [|n t v d a c fs out H IH|t c T fs o1 o2 Hl H1 IH1 H2 IH2]; intros f2 o' H'; cbn.
  - assumption.
  - constructor. auto.
  - rewrite <- app_assoc. econstructor; eauto.
Qed.

Lemma Flat_app_inv s f1 : forall f2 o, Flat s (f1 ++ f2) o ->
  exists o1 o2, o = (o1 ++ o2)%list /\ Flat s f1 o1 /\ Flat s f2 o2.
Proof.
  induction f1 as [|m r IH]; intros f2 o H; cbn in H.
  - exists [], o. repeat split; [constructor|assumption].
  - inversion H as [|n t v d a c fs out Hf|t c T fs o1 o2 Hl Hf1 Hf2]; subst.
    + destruct (IH _ _ Hf) as (o1 & o2 & -> & Ha & Hb). exists (Field n t v d a c :: o1), o2.
      repeat split; [constructor|]; assumption.
    + destruct (IH _ _ Hf2) as (p1 & p2 & -> & Ha & Hb). exists (o1 ++ p1)%list, p2.
      rewrite app_assoc. repeat split; [econstructor; eauto|assumption].
Qed.

Lemma Flat_members s fs : forallb is_field fs = true -> Flat s fs fs.
Proof.
  induction fs as [|m r IH]; cbn; [constructor|]. intros H. apply andb_true_iff in H. destruct H as [H1 H2].
  destruct m; [|discriminate]. constructor. auto.
Qed.

Lemma Flat_out_members s fs o : Flat s fs o -> forallb is_field o = true.
Proof. induction 1; cbn; auto. rewrite forallb_app. rewrite IHFlat1, IHFlat2. reflexivity. Qed.

(* -- one pass of the while loop as a pure function *)
Definition splice_member (s : list decl) (m : field) : list field :=
  match m with
  | InlinePlaceholder t _ => match lookup s t with Some (DStruct T) => s_fields T | _ => [] end
  | _ => [m]
  end.
Definition splice1 (s : list decl) (fs : list field) : list field := flat_map (splice_member s) fs.

Fixpoint pass_pure (s : list decl) (cur : struct) (fs : list field) : struct :=
  match fs with
  | [] => cur
  | InlinePlaceholder t _ :: r =>
    match lookup s t with Some (DStruct T) => pass_pure s (splice_into cur T) r | _ => pass_pure s cur r end
  | f :: r => pass_pure s (set_fields cur (s_fields cur ++ [f])) r
  end.

Definition resolvable (s : list decl) (self : string) (fs : list field) : Prop :=
  forall t c, In (InlinePlaceholder t c) fs -> t <> self /\ exists T, lookup s t = Some (DStruct T).

Lemma unnamed_fields_pure s fs : forall cur,
  resolvable s (s_name cur) fs -> unnamed_fields s cur fs = Ok (pass_pure s cur fs).
Proof.
  induction fs as [|m r IH]; intros cur H; [reflexivity|]. destruct m as [n t v d a c|t c].
  - cbn [unnamed_fields pass_pure]. apply IH. intros t0 c0 Hin. apply (H t0 c0). right. exact Hin.
  - cbn [unnamed_fields pass_pure]. destruct (H t c (or_introl eq_refl)) as (Hne & T & Hl).
    rewrite resolve_other by assumption. rewrite Hl. apply IH.
    intros t0 c0 Hin. apply (H t0 c0). right. exact Hin.
Qed.

Lemma pass_pure_fields s fs : forall cur, s_fields (pass_pure s cur fs) = (s_fields cur ++ splice1 s fs)%list.
Proof.
  induction fs as [|m r IH]; intros cur; cbn [pass_pure splice1 flat_map]; [rewrite app_nil_r; reflexivity|].
  fold (splice1 s r). destruct m as [n t v d a c|t c].
  - rewrite IH. cbn. rewrite <- app_assoc. reflexivity.
  - cbn [splice_member]. destruct (lookup s t) as [[| |T]|]; rewrite IH; cbn; try reflexivity.
    rewrite <- app_assoc. reflexivity.
Qed.

Lemma pass_pure_static s fs : forall cur,
  s_name (pass_pure s cur fs) = s_name cur /\ s_disp (pass_pure s cur fs) = s_disp cur
  /\ s_comment (pass_pure s cur fs) = s_comment cur /\ s_requires_unaligned (pass_pure s cur fs) = s_requires_unaligned cur.
Proof.
  induction fs as [|m r IH]; intros cur; [auto|]. destruct m as [n t v d a c|t c]; cbn [pass_pure].
  - apply (IH (set_fields cur _)).
  - destruct (lookup s t) as [[| |T]|]; try apply IH. apply (IH (splice_into cur T)).
Qed.

(* -- depth of the unnamed-inline graph below a member list; false also when a target is missing or not a struct *)
Fixpoint term (f : nat) (s : list decl) (fs : list field) {struct f} : bool :=
  match f with
  | O => forallb is_field fs
  | S f' =>
    forallb (fun m => match m with
                      | InlinePlaceholder t _ => match lookup s t with Some (DStruct T) => term f' s (s_fields T) | _ => false end
                      | _ => true
                      end) fs
  end.

(* every unnamed-inline target is a declared struct and no struct (transitively) inlines itself *)
Definition acyclic (s : list decl) : bool :=
  forallb (fun d => match d with DStruct st => term (length s) s (s_fields st) | _ => true end) s.

Lemma term_S_iff f s fs :
  term (S f) s fs = true <->
  forall m, In m fs -> match m with
                      | InlinePlaceholder t _ => exists T, lookup s t = Some (DStruct T) /\ term f s (s_fields T) = true
                      | _ => True
                      end.
Proof.
  cbn [term]. rewrite forallb_forall. split; intros H m Hin; specialize (H m Hin); destruct m as [|t c]; auto.
  - destruct (lookup s t) as [[| |T]|]; try discriminate. eauto.
  - destruct H as (T & -> & H). exact H.
Qed.

Lemma term_mono f : forall s fs, term f s fs = true -> term (S f) s fs = true.
Proof.
  induction f as [|f IH]; intros s fs H.
  - apply term_S_iff. intros m Hin. cbn in H. rewrite forallb_forall in H. specialize (H m Hin). destruct m; [exact I|discriminate].
  - apply term_S_iff. intros m Hin. rewrite term_S_iff in H. specialize (H m Hin). destruct m as [|t c]; [exact I|].
    destruct H as (T & Hl & H). eauto.
Qed.

Lemma term_le f g s fs : (f <= g)%nat -> term f s fs = true -> term g s fs = true.
Proof. induction 1 as [|g Hle IH]; [auto|]. intros H0. apply term_mono. auto. Qed.

Lemma term_app f s l1 l2 : term f s (l1 ++ l2) = term f s l1 && term f s l2.
Proof. destruct f; cbn [term]; apply forallb_app. Qed.

Lemma term_field f s m : is_field m = true -> term f s [m] = true.
Proof. destruct m; [|discriminate]. destruct f; reflexivity. Qed.

Lemma term_0_members s fs : term 0 s fs = true -> splice1 s fs = fs.
Proof.
  cbn. induction fs as [|m r IH]; cbn; [reflexivity|]. intros H. apply andb_true_iff in H. destruct H as [H1 H2].
  destruct m; [|discriminate]. cbn. f_equal. auto.
Qed.

(* one splice lowers the depth by one *)
Lemma term_splice f s fs : term (S f) s fs = true -> term f s (splice1 s fs) = true.
Proof.
  rewrite term_S_iff. induction fs as [|m r IH]; intros H; cbn [splice1 flat_map].
  - destruct f; reflexivity.
  - fold (splice1 s r). rewrite term_app. rewrite IH by (intros; apply H; right; assumption). rewrite andb_true_r.
    specialize (H m (or_introl eq_refl)). destruct m as [n t v d a c|t c].
    + apply term_field. reflexivity.
    + destruct H as (T & Hl & H). cbn. rewrite Hl. exact H.
Qed.

Lemma term_splice_le f s fs : term f s fs = true -> term f s (splice1 s fs) = true.
Proof.
  destruct f as [|f]; intros H.
  - rewrite term_0_members by assumption. assumption.
  - apply term_mono. apply term_splice. assumption.
Qed.

Lemma term_resolvable f s fs : term (S f) s fs = true ->
  forall t c, In (InlinePlaceholder t c) fs -> exists T, lookup s t = Some (DStruct T) /\ term f s (s_fields T) = true.
Proof. rewrite term_S_iff. intros H t c Hin. apply (H _ Hin). Qed.

(* a struct of finite depth does not inline itself directly *)
Lemma term_no_self f : forall s st, lookup s (s_name st) = Some (DStruct st) -> term f s (s_fields st) = true ->
  forall c, ~ In (InlinePlaceholder (s_name st) c) (s_fields st).
Proof.
  induction f as [|f IH]; intros s st Hl H c Hin.
  - cbn in H. rewrite forallb_forall in H. specialize (H _ Hin). discriminate.
  - destruct (term_resolvable _ _ _ H _ _ Hin) as (T & Hl' & HT). rewrite Hl in Hl'. injection Hl' as <-.
    apply (IH s st Hl HT c Hin).
Qed.

(* -- the store: lookup after update *)
Lemma lookup_update s st t :
  lookup (update s st) t
  = match lookup s t with Some d => Some (if String.eqb t (s_name st) then DStruct st else d) | None => None end.
Proof.
  unfold lookup, update. induction s as [|e r IH]; cbn; [reflexivity|].
  destruct (String.eqb (decl_name e) (s_name st)) eqn:E1.
  - apply String.eqb_eq in E1. rewrite E1. cbn [decl_name].
    destruct (String.eqb (s_name st) t) eqn:E2; [|exact IH].
    apply String.eqb_eq in E2. rewrite <- E2, String.eqb_refl. reflexivity.
  - destruct (String.eqb (decl_name e) t) eqn:E2; [|exact IH].
    apply String.eqb_eq in E2. subst t. rewrite E1. reflexivity.
Qed.

Lemma lookup_update_other s st t : t <> s_name st -> lookup (update s st) t = lookup s t.
Proof. intros H. rewrite lookup_update. apply String.eqb_neq in H. rewrite H. destruct (lookup s t); reflexivity. Qed.

Lemma lookup_update_same s st d : lookup s (s_name st) = Some d -> lookup (update s st) (s_name st) = Some (DStruct st).
Proof. intros H. rewrite lookup_update, H, String.eqb_refl. reflexivity. Qed.

(* -- replacing a struct by its one-level splice: depth does not grow, the flattening is preserved *)
Section Step.
Variables (s : list decl) (X X' : struct).
Hypothesis HX : lookup s (s_name X) = Some (DStruct X).
Hypothesis Hname : s_name X' = s_name X.
Hypothesis Hfields : s_fields X' = splice1 s (s_fields X).

Lemma step_term f : forall fs, term f s fs = true -> term f (update s X') fs = true.
Proof.
  induction f as [|f IH]; intros fs H; [exact H|].
  apply term_S_iff. rewrite term_S_iff in H. intros m Hin. specialize (H m Hin). destruct m as [|t c]; [exact I|].
  destruct H as (T & Hl & HT). rewrite lookup_update, Hl, Hname.
  destruct (String.eqb t (s_name X)) eqn:E.
  - apply String.eqb_eq in E. subst t. rewrite HX in Hl. injection Hl as <-.
    exists X'. split; [reflexivity|]. rewrite Hfields. apply IH. apply term_splice_le. exact HT.
  - exists T. split; [reflexivity|]. apply IH. exact HT.
Qed.

Lemma splice_back fs : (forall t c, In (InlinePlaceholder t c) fs -> exists T, lookup s t = Some (DStruct T)) ->
  forall o, Flat s (splice1 s fs) o -> Flat s fs o.
Proof.
  induction fs as [|m r IH]; intros Hres o H; cbn [splice1 flat_map] in H; [exact H|]. fold (splice1 s r) in H.
  assert (Hres' : forall t c, In (InlinePlaceholder t c) r -> exists T, lookup s t = Some (DStruct T))
    by (intros; eapply Hres; right; eassumption).
  destruct m as [n t v d a c|t c].
  - cbn in H. inversion H; subst. constructor. auto.
  - destruct (Hres t c (or_introl eq_refl)) as (T & Hl). cbn [splice_member] in H. rewrite Hl in H.
    apply Flat_app_inv in H. destruct H as (o1 & o2 & -> & H1 & H2). econstructor; eauto.
Qed.

Hypothesis HresX : forall t c, In (InlinePlaceholder t c) (s_fields X) -> exists T, lookup s t = Some (DStruct T).

Lemma step_flat fs o : Flat (update s X') fs o -> Flat s fs o.
Proof.
  induction 1 as [|n t v d a c fs out H IH|t c T fs o1 o2 Hl H1 IH1 H2 IH2].
  - constructor.
  - constructor. assumption.
  - rewrite lookup_update, Hname in Hl. destruct (lookup s t) as [d0|] eqn:El; [|discriminate].
    destruct (String.eqb t (s_name X)) eqn:E.
    + apply String.eqb_eq in E. subst t. injection Hl as <-. rewrite HX in El. injection El as <-.
      apply (Flat_inline s _ c X); [exact HX| |exact IH2].
      apply splice_back; [exact HresX|]. rewrite <- Hfields. exact IH1.
    + injection Hl as ->. econstructor; eauto.
Qed.
End Step.

(* -- the invariant of the two loops *)
Definition same_static (d0 d : decl) : Prop :=
  match d0 with
  | DStruct X0 =>
    match d with
    | DStruct X => s_name X = s_name X0 /\ s_disp X = s_disp X0 /\ s_comment X = s_comment X0
                   /\ s_requires_unaligned X = s_requires_unaligned X0
    | _ => False
    end
  | _ => d = d0
  end.

Lemma same_static_refl d : same_static d d.
Proof. destruct d; cbn; auto. Qed.

Lemma same_static_name d0 d : same_static d0 d -> decl_name d = decl_name d0.
Proof. destruct d0; cbn; try (intros ->; reflexivity). destruct d; try contradiction. intros (H & _). exact H. Qed.

Lemma same_static_names s0 s : Forall2 same_static s0 s -> map decl_name s = map decl_name s0.
Proof. induction 1; cbn; [reflexivity|]. f_equal; auto using same_static_name. Qed.

Lemma same_static_lookup s0 s m : Forall2 same_static s0 s ->
  match lookup s0 m, lookup s m with
  | Some d0, Some d => same_static d0 d
  | None, None => True
  | _, _ => False
  end.
Proof.
  unfold lookup. induction 1 as [|d0 d r0 r H _ IH]; cbn; [exact I|]. rewrite (same_static_name _ _ H).
  destruct (String.eqb (decl_name d0) m); [exact H|exact IH].
Qed.

Lemma same_static_lookup_fwd s0 s m X0 : Forall2 same_static s0 s -> lookup s0 m = Some (DStruct X0) ->
  exists X, lookup s m = Some (DStruct X) /\ same_static (DStruct X0) (DStruct X).
Proof.
  intros HF Hl. pose proof (same_static_lookup s0 s m HF) as H. rewrite Hl in H.
  destruct (lookup s m) as [[| |X]|]; try contradiction. eauto.
Qed.

Lemma same_static_lookup_bwd s0 s m X : Forall2 same_static s0 s -> lookup s m = Some (DStruct X) ->
  exists X0, lookup s0 m = Some (DStruct X0) /\ same_static (DStruct X0) (DStruct X).
Proof.
  intros HF Hl. pose proof (same_static_lookup s0 s m HF) as H. rewrite Hl in H.
  destruct (lookup s0 m) as [[| |X0]|]; try contradiction; try discriminate. eauto.
Qed.

Definition Inv (s0 s : list decl) : Prop :=
  Forall2 same_static s0 s /\ NoDup (map decl_name s) /\
  forall m X0 X, lookup s0 m = Some (DStruct X0) -> lookup s m = Some (DStruct X) ->
    (forall o, Flat s (s_fields X) o -> Flat s0 (s_fields X0) o)
    /\ (forall f, term f s0 (s_fields X0) = true -> term f s (s_fields X) = true).

Lemma Inv_refl s0 : NoDup (map decl_name s0) -> Inv s0 s0.
Proof.
  intros H. split; [|split; [exact H|]].
  - induction s0; constructor; auto using same_static_refl. apply IHs0. inversion H; assumption.
  - intros m X0 X H0 H1. rewrite H0 in H1. injection H1 as <-. auto.
Qed.

Lemma Inv_step s0 s X X' :
  Inv s0 s -> lookup s (s_name X) = Some (DStruct X) -> same_static (DStruct X) (DStruct X') ->
  s_fields X' = splice1 s (s_fields X) ->
  (forall t c, In (InlinePlaceholder t c) (s_fields X) -> exists T, lookup s t = Some (DStruct T)) ->
  Inv s0 (update s X').
Proof.
  intros (HF & Hnd & Hcl) HX Hst Hfields Hres. destruct Hst as (Hname & Hdisp & Hcom & Hun).
  assert (HF' : Forall2 same_static s0 (update s X')).
  { assert (Hin : forall d, In d s -> decl_name d = s_name X -> d = DStruct X).
    { intros d Hd Hn. apply (nodup_name_inj s); auto. apply lookup_name in HX. tauto. }
    clear Hcl Hres HX Hfields. unfold update. revert Hnd Hin. induction HF as [|d0 d r0 r H HF IH]; intros Hnd Hin; cbn; constructor.
    - rewrite Hname. destruct (String.eqb (decl_name d) (s_name X)) eqn:E; [|exact H].
      apply String.eqb_eq in E. rewrite (Hin d (or_introl eq_refl) E) in H.
      destruct d0 as [| |X0]; cbn in H |- *; try discriminate. destruct H as (H1 & H2 & H3 & H4).
      repeat split; congruence.
    - apply IH; [cbn in Hnd; inversion Hnd; assumption|]. intros d' Hd'. apply Hin. right. exact Hd'. }
  split; [exact HF'|]. split; [rewrite (same_static_names _ _ HF'), <- (same_static_names _ _ HF); exact Hnd|].
  intros m X0 Y' H0 H1. rewrite lookup_update, Hname in H1.
  destruct (lookup s m) as [d|] eqn:El; [|discriminate].
  destruct (String.eqb m (s_name X)) eqn:E.
  - apply String.eqb_eq in E. subst m. injection H1 as <-. rewrite HX in El. injection El as <-.
    destruct (Hcl _ _ _ H0 HX) as [Hflat Hterm]. split.
    + intros o Ho. apply Hflat. apply splice_back; [exact Hres|]. rewrite <- Hfields.
      apply (step_flat s X X' HX Hname Hfields Hres). exact Ho.
    + intros f Hf. apply (step_term s X X' HX Hname Hfields). rewrite Hfields. apply term_splice_le. apply Hterm. exact Hf.
  - injection H1 as ->. destruct (Hcl _ _ _ H0 El) as [Hflat Hterm]. split.
    + intros o Ho. apply Hflat. apply (step_flat s X X' HX Hname Hfields Hres). exact Ho.
    + intros f Hf. apply (step_term s X X' HX Hname Hfields). apply Hterm. exact Hf.
Qed.

Lemma members_iff_no_placeholder fs : forallb is_field fs = negb (existsb is_placeholder fs).
Proof. induction fs as [|m r IH]; [reflexivity|]. cbn. rewrite IH. destruct m; reflexivity. Qed.

Lemma unnamed_pass_spec s X f :
  lookup s (s_name X) = Some (DStruct X) -> term (S f) s (s_fields X) = true ->
  exists X', unnamed_pass s X = Ok X' /\ same_static (DStruct X) (DStruct X') /\ s_fields X' = splice1 s (s_fields X)
             /\ X' = pass_pure s (set_fields X []) (s_fields X).
Proof.
  intros HX Ht. exists (pass_pure s (set_fields X []) (s_fields X)). split; [|split; [|split]].
  - unfold unnamed_pass. apply unnamed_fields_pure. intros t c Hin. cbn [s_name set_fields]. split.
    + intros ->. apply (term_no_self _ _ _ HX Ht c Hin).
    + destruct (term_resolvable _ _ _ Ht _ _ Hin) as (T & Hl & _). eauto.
  - destruct (pass_pure_static s (s_fields X) (set_fields X [])) as (H1 & H2 & H3 & H4). cbn. auto.
  - rewrite pass_pure_fields. reflexivity.
  - reflexivity.
Qed.

Lemma unnamed_while_spec s0 n : forall f fuel s X,
  Inv s0 s -> lookup s n = Some (DStruct X) -> term f s (s_fields X) = true -> (f < fuel)%nat ->
  exists s' X', unnamed_while fuel s n = Ok s' /\ Inv s0 s' /\ lookup s' n = Some (DStruct X')
                /\ has_placeholder X' = false /\ (forall m, m <> n -> lookup s' m = lookup s m).
Proof.
  induction f as [|f IH]; intros fuel s X HI HX Ht Hlt; (destruct fuel as [|fuel]; [lia|]); cbn [unnamed_while]; rewrite HX.
  - assert (Hp : has_placeholder X = false).
    { unfold has_placeholder. cbn in Ht. rewrite members_iff_no_placeholder in Ht. apply negb_true_iff in Ht. exact Ht. }
    rewrite Hp. exists s, X. auto.
  - destruct (has_placeholder X) eqn:Hp; [|exists s, X; auto].
    assert (Hn : s_name X = n) by (apply lookup_name in HX; tauto). subst n.
    destruct (unnamed_pass_spec s X f HX Ht) as (X' & Hpass & Hst & Hfields & _). rewrite Hpass. cbn [bind].
    assert (Hres : forall t c, In (InlinePlaceholder t c) (s_fields X) -> exists T, lookup s t = Some (DStruct T)).
    { intros t c Hin. destruct (term_resolvable _ _ _ Ht _ _ Hin) as (T & Hl & _). eauto. }
    assert (Hname : s_name X' = s_name X) by (destruct Hst as (H & _); exact H).
    destruct (IH fuel (update s X') X') as (s' & X'' & Hw & HI' & Hl' & Hp' & Hfr).
    + apply Inv_step with (X := X); assumption.
    + rewrite <- Hname. apply lookup_update_same with (d := DStruct X). rewrite Hname. exact HX.
    + apply (step_term s X X' HX Hname Hfields). rewrite Hfields. apply term_splice. exact Ht.
    + lia.
    + exists s', X''. split; [exact Hw|]. split; [exact HI'|]. split; [exact Hl'|]. split; [exact Hp'|].
      intros m Hm. rewrite Hfr by exact Hm. apply lookup_update_other. rewrite Hname. exact Hm.
Qed.

Lemma unnamed_loop_spec s0 F fuel : (F < fuel)%nat ->
  (forall m X0, lookup s0 m = Some (DStruct X0) -> term F s0 (s_fields X0) = true) ->
  forall names s, Inv s0 s -> (forall n, In n names -> exists X0, lookup s0 n = Some (DStruct X0)) ->
  exists s', unnamed_loop fuel names s = Ok s' /\ Inv s0 s'
    /\ (forall n, In n names -> exists X', lookup s' n = Some (DStruct X') /\ has_placeholder X' = false)
    /\ (forall m, ~ In m names -> lookup s' m = lookup s m).
Proof.
  intros Hlt Hdepth. induction names as [|n r IH]; intros s HI Hres; cbn [unnamed_loop].
  - exists s. split; [reflexivity|]. split; [exact HI|]. split; [intros n []|intros; reflexivity].
  - destruct (Hres n (or_introl eq_refl)) as (X0 & H0).
    destruct HI as (HF & Hnd & Hcl).
    destruct (same_static_lookup_fwd _ _ _ _ HF H0) as (X & HX & _).
    destruct (unnamed_while_spec s0 n F fuel s X (conj HF (conj Hnd Hcl)) HX) as (s1 & X1 & Hw & HI1 & Hl1 & Hp1 & Hfr1).
    { apply (Hcl _ _ _ H0 HX). apply (Hdepth _ _ H0). }
    { exact Hlt. }
    rewrite Hw. cbn [bind].
    destruct (IH s1 HI1) as (s' & Hloop & HI' & Hdone & Hfr).
    { intros n' Hin. apply Hres. right. exact Hin. }
    exists s'. split; [exact Hloop|]. split; [exact HI'|]. split.
    + intros n' [<-|Hin]; [|apply Hdone; exact Hin].
      destruct (in_dec string_dec n r) as [Hin|Hnot]; [apply Hdone; exact Hin|].
      exists X1. rewrite (Hfr _ Hnot). auto.
    + intros m Hnot. rewrite Hfr by (intros Hin; apply Hnot; right; exact Hin).
      apply Hfr1. intros ->. apply Hnot. left. reflexivity.
Qed.

Lemma acyclic_depth s0 : acyclic s0 = true ->
  forall m X0, lookup s0 m = Some (DStruct X0) -> term (length s0) s0 (s_fields X0) = true.
Proof.
  intros H m X0 Hl. unfold acyclic in H. rewrite forallb_forall in H. apply lookup_name in Hl. destruct Hl as [_ Hin].
  apply (H _ Hin).
Qed.

Lemma worklist_in p s n : In n (worklist p s) <-> exists st, In (DStruct st) s /\ p st = true /\ s_name st = n.
Proof.
  unfold worklist. rewrite in_map_iff. split.
  - intros (d & <- & Hin). apply filter_In in Hin. destruct Hin as [Hin Hp]. destruct d as [| |st]; try discriminate. eauto.
  - intros (st & Hin & Hp & <-). exists (DStruct st). split; [reflexivity|]. apply filter_In. auto.
Qed.

Lemma Forall2_nth {A B} (R : A -> B -> Prop) l1 l2 : Forall2 R l1 l2 ->
  forall i x, nth_error l1 i = Some x -> exists y, nth_error l2 i = Some y /\ R x y.
Proof.
  induction 1 as [|a b r1 r2 H _ IH]; intros i x Hn; [destruct i; discriminate|].
  destruct i as [|i]; cbn in *; [injection Hn as <-; eauto|eauto].
Qed.

(* expand_unnamed_spec: layout *)
Theorem expand_unnamed_flat s0 : NoDup (map decl_name s0) -> acyclic s0 = true ->
  exists s', expand_unnamed s0 = Ok s' /\ Forall2 same_static s0 s' /\
  forall i X0, nth_error s0 i = Some (DStruct X0) ->
    exists X, nth_error s' i = Some (DStruct X) /\ Flat s0 (s_fields X0) (s_fields X).
Proof.
  intros Hnd Hac. unfold expand_unnamed, expand_unnamed_with.
  destruct (unnamed_loop_spec s0 (length s0) (S (length s0)) (Nat.lt_succ_diag_r _) (acyclic_depth s0 Hac)
              (worklist has_placeholder s0) s0 (Inv_refl s0 Hnd)) as (s' & Hloop & HI & Hdone & Hfr).
  { intros n Hin. apply worklist_in in Hin. destruct Hin as (st & Hin & _ & <-). exists st.
    apply (lookup_in_nodup s0 (DStruct st) Hnd Hin). }
  exists s'. split; [exact Hloop|]. destruct HI as (HF & Hnd' & Hcl). split; [exact HF|].
  intros i X0 Hn. destruct (Forall2_nth _ _ _ HF i _ Hn) as (d & Hn' & Hst).
  destruct d as [| |X]; try contradiction. exists X. split; [exact Hn'|].
  assert (H0 : lookup s0 (s_name X0) = Some (DStruct X0)) by (apply (lookup_in_nodup s0 (DStruct X0) Hnd); eapply nth_error_In; eauto).
  assert (H1 : lookup s' (s_name X0) = Some (DStruct X)).
  { destruct Hst as (Hname & _). rewrite <- Hname. apply (lookup_in_nodup s' (DStruct X) Hnd'). eapply nth_error_In; eauto. }
  destruct (in_dec string_dec (s_name X0) (worklist has_placeholder s0)) as [Hin|Hnot].
  - destruct (Hdone _ Hin) as (X' & Hl' & Hp). rewrite H1 in Hl'. injection Hl' as <-.
    apply (Hcl _ _ _ H0 H1). apply Flat_members. rewrite members_iff_no_placeholder. unfold has_placeholder in Hp. rewrite Hp. reflexivity.
  - rewrite (Hfr _ Hnot), H0 in H1. injection H1 as <-. apply Flat_members. rewrite members_iff_no_placeholder.
    destruct (existsb is_placeholder (s_fields X0)) eqn:E; [|reflexivity]. exfalso. apply Hnot. apply worklist_in.
    exists X0. split; [eapply nth_error_In; eauto|]. auto.
Qed.

(* type_descriptors: inline structs are omitted, everything else is kept in order *)
Lemma is_output_iff d : is_output d = true <-> match d with DStruct st => s_disp st <> SdInline | _ => True end.
Proof.
  destruct d as [| |st]; cbn; try tauto. destruct (s_disp st); cbn; split; congruence.
Qed.

Theorem type_descriptors_spec s :
  type_descriptors s = filter (fun d => match d with DStruct st => match s_disp st with SdInline => false | _ => true end | _ => true end) s.
Proof.
  unfold type_descriptors. apply filter_ext. intros d. destruct d as [| |st]; try reflexivity. cbn. destruct (s_disp st); reflexivity.
Qed.

(* -- the same specification as a recursive function (depth-bounded; the bound is irrelevant once it suffices) *)
Fixpoint flatten_with (sub : string -> option (list field)) (l : list field) : option (list field) :=
  match l with
  | [] => Some []
  | InlinePlaceholder t _ :: r => match sub t, flatten_with sub r with Some a, Some b => Some (a ++ b)%list | _, _ => None end
  | m :: r => match flatten_with sub r with Some b => Some (m :: b) | None => None end
  end.
Fixpoint flatten (f : nat) (s : list decl) (fs : list field) {struct f} : option (list field) :=
  flatten_with (fun t => match f with
                         | O => None
                         | S f' => match lookup s t with Some (DStruct T) => flatten f' s (s_fields T) | _ => None end
                         end) fs.

Lemma flatten_with_sound s sub :
  (forall t a, sub t = Some a -> exists T, lookup s t = Some (DStruct T) /\ Flat s (s_fields T) a) ->
  forall fs o, flatten_with sub fs = Some o -> Flat s fs o.
Proof.
  intros Hsub. induction fs as [|m r IH]; intros o H; cbn in H.
  - injection H as <-. constructor.
  - destruct m as [n t v d a c|t c].
    + destruct (flatten_with sub r) as [b|]; [|discriminate]. injection H as <-. constructor. auto.
    + destruct (sub t) as [a|] eqn:Ea; [|discriminate]. destruct (flatten_with sub r) as [b|]; [|discriminate].
      injection H as <-. destruct (Hsub _ _ Ea) as (T & Hl & HT). econstructor; eauto.
Qed.

Lemma flatten_sound f : forall s fs o, flatten f s fs = Some o -> Flat s fs o.
Proof.
  induction f as [|f IH]; intros s fs o H; destruct fs as [|m r] eqn:Efs; rewrite <- Efs in *; clear Efs;
    apply (flatten_with_sound s _) with (2 := H); intros t a Ha; try discriminate.
  - destruct (lookup s t) as [[| |T]|]; try discriminate. eauto.
  - destruct (lookup s t) as [[| |T]|]; try discriminate. eauto.
Qed.

Lemma flatten_complete f : forall s fs, term f s fs = true -> exists o, flatten f s fs = Some o.
Proof.
  induction f as [|f IH]; intros s fs; induction fs as [|m r IHr]; intros H.
  - exists []. reflexivity.
  - cbn in H. apply andb_true_iff in H. destruct H as [H1 H2]. destruct m as [n t v d a c|]; [|discriminate].
    destruct (IHr H2) as (b & Hb). exists (Field n t v d a c :: b). cbn in Hb |- *. rewrite Hb. reflexivity.
  - exists []. reflexivity.
  - cbn [term forallb] in H. apply andb_true_iff in H. destruct H as [H1 H2]. fold (term (S f) s r) in H2.
    destruct (IHr H2) as (b & Hb). destruct m as [n t v d a c|t c].
    + exists (Field n t v d a c :: b). cbn in Hb |- *. rewrite Hb. reflexivity.
    + destruct (lookup s t) as [[| |T]|] eqn:El; try discriminate. destruct (IH _ _ H1) as (a & Ha).
      exists (a ++ b)%list. cbn in Hb |- *. rewrite El, Ha, Hb. reflexivity.
Qed.

Lemma Flat_flatten f s fs o : term f s fs = true -> Flat s fs o -> flatten f s fs = Some o.
Proof.
  intros Ht HF. destruct (flatten_complete f s fs Ht) as (o' & H). rewrite H. f_equal.
  apply (Flat_fun s fs o' (flatten_sound _ _ _ _ H) o HF).
Qed.

(* -- frame for the unnamed pass: the flattening of a member list only reads the declarations it (transitively) inlines *)
Inductive Reach (s : list decl) : list field -> string -> Prop :=
| Reach_here t c fs : In (InlinePlaceholder t c) fs -> Reach s fs t
| Reach_deep t c T fs u : In (InlinePlaceholder t c) fs -> lookup s t = Some (DStruct T) -> Reach s (s_fields T) u -> Reach s fs u.

Lemma Flat_frame s1 s2 fs o : Flat s1 fs o -> (forall t, Reach s1 fs t -> lookup s2 t = lookup s1 t) -> Flat s2 fs o.
Proof.
  induction 1 as [|n t v d a c fs out H IH|t c T fs o1 o2 Hl H1 IH1 H2 IH2]; intros Hag.
  - constructor.
  - constructor. apply IH. intros u Hu. apply Hag. inversion Hu; subst.
    + eapply Reach_here. right. eassumption.
    + eapply Reach_deep; [right; eassumption|eassumption|assumption].
  - apply (Flat_inline s2 t c T).
    + rewrite Hag; [exact Hl|]. eapply Reach_here. left. reflexivity.
    + apply IH1. intros u Hu. apply Hag. eapply Reach_deep; [left; reflexivity|exact Hl|exact Hu].
    + apply IH2. intros u Hu. apply Hag. inversion Hu; subst.
      * eapply Reach_here. right. eassumption.
      * eapply Reach_deep; [right; eassumption|eassumption|assumption].
Qed.

Theorem unnamed_site_frame s1 s2 X0 :
  NoDup (map decl_name s1) -> acyclic s1 = true -> NoDup (map decl_name s2) -> acyclic s2 = true ->
  (forall t, Reach s1 (s_fields X0) t -> lookup s2 t = lookup s1 t) ->
  exists s1' s2', expand_unnamed s1 = Ok s1' /\ expand_unnamed s2 = Ok s2' /\
  forall i j, nth_error s1 i = Some (DStruct X0) -> nth_error s2 j = Some (DStruct X0) ->
    exists X1 X2, nth_error s1' i = Some (DStruct X1) /\ nth_error s2' j = Some (DStruct X2) /\ s_fields X1 = s_fields X2.
Proof.
  intros N1 A1 N2 A2 Hag.
  destruct (expand_unnamed_flat s1 N1 A1) as (s1' & E1 & _ & H1).
  destruct (expand_unnamed_flat s2 N2 A2) as (s2' & E2 & _ & H2).
  exists s1', s2'. split; [exact E1|]. split; [exact E2|]. intros i j Hi Hj.
  destruct (H1 _ _ Hi) as (X1 & Hn1 & F1). destruct (H2 _ _ Hj) as (X2 & Hn2 & F2).
  exists X1, X2. split; [exact Hn1|]. split; [exact Hn2|].
  apply (Flat_fun s2 (s_fields X0)); [|exact F2]. apply (Flat_frame s1 s2 _ _ F1 Hag).
Qed.

(* ================================================================================================================== *)
(* Part 4: fuel, combined statement, decidable well-formedness (used for the examples) *)

Lemma unnamed_while_fuel_mono n : forall fuel s s', unnamed_while fuel s n = Ok s' -> unnamed_while (S fuel) s n = Ok s'.
Proof.
  induction fuel as [|fuel IH]; intros s s' H; [discriminate|].
  cbn [unnamed_while] in H. change (unnamed_while (S (S fuel)) s n) with
    (match lookup s n with
     | Some (DStruct st) => if has_placeholder st then bind (unnamed_pass s st) (fun st' => unnamed_while (S fuel) (update s st') n) else Ok s
     | _ => Crash "internal"
     end).
  destruct (lookup s n) as [[| |st]|]; try discriminate. destruct (has_placeholder st); [|exact H].
  destruct (unnamed_pass s st) as [st'| |]; cbn [bind] in *; try discriminate. apply IH. exact H.
Qed.

Lemma unnamed_loop_fuel_mono names : forall fuel s s', unnamed_loop fuel names s = Ok s' -> unnamed_loop (S fuel) names s = Ok s'.
Proof.
  induction names as [|n r IH]; intros fuel s s' H; [exact H|]. cbn [unnamed_loop] in *.
  destruct (unnamed_while fuel s n) as [s1| |] eqn:E; cbn [bind] in H; try discriminate.
  rewrite (unnamed_while_fuel_mono _ _ _ _ E). cbn [bind]. apply IH. exact H.
Qed.

(* the fuel of the model is enough: more fuel gives the same result *)
Theorem expand_unnamed_fuel s fuel : NoDup (map decl_name s) -> acyclic s = true -> (length s < fuel)%nat ->
  expand_unnamed_with fuel s = expand_unnamed s /\ expand_unnamed s <> Crash "fuel".
Proof.
  intros Hnd Hac Hlt. destruct (expand_unnamed_flat s Hnd Hac) as (s' & E & _). split; [|rewrite E; discriminate].
  rewrite E. unfold expand_unnamed, expand_unnamed_with in *.
  induction Hlt as [|m Hle IH]; [exact E|]. apply unnamed_loop_fuel_mono. exact IH.
Qed.

Theorem expand_unnamed_full s : NoDup (map decl_name s) -> acyclic s = true ->
  exists s', expand_unnamed s = Ok s' /\ length s' = length s /\
  forall i d, nth_error s i = Some d ->
    match d with
    | DStruct X0 =>
      exists X, nth_error s' i = Some (DStruct X)
        /\ s_name X = s_name X0 /\ s_disp X = s_disp X0 /\ s_comment X = s_comment X0
        /\ Flat s (s_fields X0) (s_fields X) /\ flatten (length s) s (s_fields X0) = Some (s_fields X)
        /\ forallb is_field (s_fields X) = true
    | _ => nth_error s' i = Some d
    end.
Proof.
  intros Hnd Hac. destruct (expand_unnamed_flat s Hnd Hac) as (s' & E & HF & H). exists s'. split; [exact E|].
  split; [clear -HF; induction HF; cbn; congruence|].
  intros i d Hn. destruct d as [| |X0].
  - destruct (Forall2_nth _ _ _ HF i _ Hn) as (y & Hy & Hs). cbn in Hs. subst y. exact Hy.
  - destruct (Forall2_nth _ _ _ HF i _ Hn) as (y & Hy & Hs). cbn in Hs. subst y. exact Hy.
  - destruct (H _ _ Hn) as (X & Hx & HFl). exists X. split; [exact Hx|].
    destruct (Forall2_nth _ _ _ HF i _ Hn) as (y & Hy & Hs). rewrite Hx in Hy. injection Hy as <-.
    destruct Hs as (H1 & H2 & H3 & _). repeat split; auto.
    + apply Flat_flatten; [|exact HFl]. unfold acyclic in Hac. rewrite forallb_forall in Hac.
      apply (Hac (DStruct X0)). eapply nth_error_In; eauto.
    + eapply Flat_out_members; eauto.
Qed.

(* -- boolean forms of the hypotheses *)
Fixpoint nodup_b (l : list string) : bool :=
  match l with [] => true | x :: r => negb (existsb (String.eqb x) r) && nodup_b r end.

Lemma nodup_b_sound l : nodup_b l = true -> NoDup l.
Proof.
  induction l as [|x r IH]; cbn; [constructor|]. intros H. apply andb_true_iff in H. destruct H as [H1 H2].
  constructor; [|auto]. intros Hin. apply negb_true_iff in H1. rewrite <- not_true_iff_false in H1. apply H1.
  apply existsb_exists. exists x. split; [exact Hin|apply String.eqb_refl].
Qed.

Definition site_ok_b (env : list decl) (self : string) (m : field) : bool :=
  match m with
  | Field _ (FName t) _ DispInline _ _ =>
    negb (String.eqb t self) &&
    match lookup env t with
    | Some (DStruct T) => match s_disp T with SdInline => forallb is_field (s_fields T) | _ => false end
    | _ => false
    end
  | Field _ _ _ DispInline _ _ => false
  | _ => true
  end.
Definition named_wf_b (s : list decl) : bool :=
  nodup_b (map decl_name s)
  && forallb (fun d => match d with DStruct st => forallb (site_ok_b s (s_name st)) (s_fields st) | _ => true end) s.

Lemma site_ok_b_sound env self m : site_ok_b env self m = true -> site_ok env self m.
Proof.
  destruct m as [n t v d a c|]; [|exact (fun _ => I)]. destruct t as [|t|]; destruct d; cbn; auto; try discriminate.
  intros H. apply andb_true_iff in H. destruct H as [H1 H2]. split.
  - apply negb_true_iff in H1. apply String.eqb_neq. exact H1.
  - destruct (lookup env t) as [[| |T]|]; try discriminate. exists T. destruct (s_disp T) eqn:E; try discriminate. auto.
Qed.

Lemma named_wf_b_sound s : named_wf_b s = true -> named_wf s.
Proof.
  unfold named_wf_b. intros H. apply andb_true_iff in H. destruct H as [H1 H2]. split; [apply nodup_b_sound; exact H1|].
  rewrite forallb_forall in H2. intros d Hin. specialize (H2 d Hin). destruct d as [| |st]; cbn; auto.
  rewrite forallb_forall in H2. intros m Hm. apply site_ok_b_sound. auto.
Qed.

Definition flat_templates_b (s : list decl) : bool :=
  forallb (fun d => match d with
                    | DStruct st =>
                      forallb (fun m => match site_target m with
                                        | Some t => match lookup s t with Some (DStruct T) => negb (has_named_inline T) | _ => true end
                                        | None => true
                                        end) (s_fields st)
                    | _ => true
                    end) s.

Lemma flat_templates_b_sound s : flat_templates_b s = true -> flat_templates s.
Proof.
  unfold flat_templates_b, flat_templates. rewrite forallb_forall. intros H st m t T Hin Hm Ht Hl.
  specialize (H _ Hin). cbn in H. rewrite forallb_forall in H. specialize (H _ Hm). rewrite Ht, Hl in H.
  apply negb_true_iff in H. exact H.
Qed.

(* ================================================================================================================== *)
(* Part 5: inherited attributes and factory type, for schemas that declare a struct after the structs it inlines
   (then every struct is finished by one execution of the loop body, and the code's rule has a closed form) *)

Definition attrs_list (o : option (list attribute)) : list attribute := match o with Some l => l | None => [] end.

(* specification (fixed text): going through the unnamed inlines of X from left to right, an abstract target records its own name,
   another target hands on the factory type it has inherited (if any); non-empty attribute lists of the targets are appended *)
Definition inherit_step (env : list decl) (acc : option string * option (list attribute)) (m : field)
  : option string * option (list attribute) :=
  match m with
  | InlinePlaceholder t _ =>
    match lookup env t with
    | Some (DStruct T) =>
      (match s_disp T with
       | SdAbstract => Some (s_name T)
       | _ => match s_factory_type T with Some f => Some f | None => fst acc end
       end,
       match s_attrs T with Some (a :: l) => Some (attrs_list (snd acc) ++ a :: l)%list | _ => snd acc end)
    | _ => acc
    end
  | _ => acc
  end.
Definition inherit_spec (env : list decl) (fs : list field) (acc : option string * option (list attribute)) :=
  fold_left (inherit_step env) fs acc.

Definition splice_spec (env : list decl) (d : decl) : decl :=
  match d with
  | DStruct X =>
    if has_placeholder X then
      DStruct {| s_name := s_name X; s_disp := s_disp X; s_fields := splice1 env (s_fields X);
                 s_factory_type := fst (inherit_spec env (s_fields X) (s_factory_type X, s_attrs X));
                 s_attrs := snd (inherit_spec env (s_fields X) (s_factory_type X, s_attrs X));
                 s_comment := s_comment X; s_requires_unaligned := s_requires_unaligned X |}
    else d
  | _ => d
  end.

Fixpoint unnamed_seq (done todo : list decl) : list decl :=
  match todo with
  | [] => []
  | d :: r => let d' := splice_spec done d in d' :: unnamed_seq (done ++ [d']) r
  end.

(* every unnamed-inline target of a struct is a struct declared before it *)
Definition targets_first (s : list decl) : Prop :=
  forall i X t c, nth_error s i = Some (DStruct X) -> In (InlinePlaceholder t c) (s_fields X) ->
    exists T, lookup (firstn i s) t = Some (DStruct T).

Lemma is_abstract_ref_iff T : is_abstract_ref T = match s_disp T with SdAbstract => true | _ => false end.
Proof. unfold is_abstract_ref. destruct (s_disp T); reflexivity. Qed.

Lemma pass_pure_closed env fs : forall cur,
  pass_pure env cur fs
  = {| s_name := s_name cur; s_disp := s_disp cur; s_fields := (s_fields cur ++ splice1 env fs)%list;
       s_factory_type := fst (inherit_spec env fs (s_factory_type cur, s_attrs cur));
       s_attrs := snd (inherit_spec env fs (s_factory_type cur, s_attrs cur));
       s_comment := s_comment cur; s_requires_unaligned := s_requires_unaligned cur |}.
Proof.
  induction fs as [|m r IH]; intros cur.
  - cbn. rewrite app_nil_r. destruct cur; reflexivity.
  - destruct m as [n t v d a c|t c]; cbn [pass_pure].
    + rewrite IH. cbn [set_fields s_name s_disp s_fields s_factory_type s_attrs s_comment s_requires_unaligned].
      unfold splice1, inherit_spec. cbn [flat_map splice_member fold_left inherit_step]. rewrite <- app_assoc. reflexivity.
    + unfold splice1, inherit_spec. cbn [flat_map splice_member fold_left inherit_step].
      destruct (lookup env t) as [[| |T]|]; try (rewrite IH; reflexivity).
      rewrite IH. cbn [splice_into s_name s_disp s_fields s_factory_type s_attrs s_comment s_requires_unaligned].
      unfold inherit_factory, inherit_attrs. rewrite is_abstract_ref_iff. rewrite <- app_assoc. cbn [fst snd].
      replace (match s_attrs T with
               | Some (a :: ta) => Some (match s_attrs cur with Some ca => ca | None => [] end ++ a :: ta)%list
               | _ => s_attrs cur end)
        with (match s_attrs T with Some (a :: l) => Some (attrs_list (s_attrs cur) ++ a :: l)%list | _ => s_attrs cur end)
        by (destruct (s_attrs T) as [[|? ?]|]; reflexivity).
      destruct (s_disp T); reflexivity.
Qed.

Lemma pass_pure_agree env1 env2 fs : forall cur,
  (forall t c, In (InlinePlaceholder t c) fs -> lookup env1 t = lookup env2 t) -> pass_pure env1 cur fs = pass_pure env2 cur fs.
Proof.
  induction fs as [|m r IH]; intros cur H; [reflexivity|]. destruct m as [n t v d a c|t c]; cbn [pass_pure].
  - apply IH. intros t0 c0 Hin. apply (H t0 c0). right. exact Hin.
  - rewrite (H t c (or_introl eq_refl)). destruct (lookup env2 t) as [[| |T]|]; apply IH; intros t0 c0 Hin; apply (H t0 c0); right; exact Hin.
Qed.

Fixpoint ordered_ok (done todo : list decl) : Prop :=
  match todo with
  | [] => True
  | d :: r =>
    match d with
    | DStruct X => forall t c, In (InlinePlaceholder t c) (s_fields X) ->
                     exists T, lookup done t = Some (DStruct T) /\ has_placeholder T = false
    | _ => True
    end /\ ordered_ok (done ++ [splice_spec done d]) r
  end.

Lemma splice_spec_name env d : decl_name (splice_spec env d) = decl_name d.
Proof. destruct d as [| |X]; try reflexivity. cbn. destruct (has_placeholder X); reflexivity. Qed.

Lemma splice1_members env fs :
  (forall t c, In (InlinePlaceholder t c) fs -> exists T, lookup env t = Some (DStruct T) /\ has_placeholder T = false) ->
  existsb is_placeholder (splice1 env fs) = false.
Proof.
  induction fs as [|m r IH]; intros H; [reflexivity|]. unfold splice1. cbn [flat_map]. rewrite existsb_app. fold (splice1 env r).
  rewrite IH by (intros t c Hin; apply (H t c); right; exact Hin). rewrite orb_false_r.
  destruct m as [n t v d a c|t c]; [reflexivity|]. cbn. destruct (H t c (or_introl eq_refl)) as (T & -> & HT). exact HT.
Qed.

Lemma unnamed_loop_seq todo : forall done fuel,
  (2 <= fuel)%nat -> NoDup (map decl_name (done ++ todo)%list) -> ordered_ok done todo ->
  unnamed_loop fuel (worklist has_placeholder todo) (done ++ todo)%list = Ok (done ++ unnamed_seq done todo)%list.
Proof.
  induction todo as [|d r IH]; intros done fuel Hfuel Hnd Hok; cbn [unnamed_seq].
  - reflexivity.
  - destruct Hok as [Hd Hok]. unfold worklist. cbn [filter].
    assert (Hstep : forall d', decl_name d' = decl_name d -> NoDup (map decl_name ((done ++ [d']) ++ r)%list)).
    { intros d' Hn. rewrite <- app_assoc. cbn. rewrite map_app in *. cbn in *. rewrite Hn. assumption. }
    destruct (is_struct_with has_placeholder d) eqn:E.
    + destruct d as [| |X]; try discriminate. cbn in E. cbn [map decl_name unnamed_loop]. fold (worklist has_placeholder r).
      assert (Hnot : ~ In (s_name X) (map decl_name done)).
      { rewrite map_app in Hnd. cbn in Hnd. pose proof (NoDup_remove_2 _ _ _ Hnd) as Hn. rewrite in_app_iff in Hn. tauto. }
      assert (Hl : lookup (done ++ DStruct X :: r)%list (s_name X) = Some (DStruct X))
        by (rewrite lookup_app_r by exact Hnot; apply (lookup_head (DStruct X))).
      set (X' := pass_pure done (set_fields X []) (s_fields X)).
      assert (Hpass : unnamed_pass (done ++ DStruct X :: r) X = Ok X').
      { unfold unnamed_pass. rewrite unnamed_fields_pure.
        - f_equal. apply pass_pure_agree. intros t c Hin. destruct (Hd t c Hin) as (T & HT & _).
          rewrite HT. apply lookup_app_l. exact HT.
        - intros t c Hin. destruct (Hd t c Hin) as (T & HT & _). cbn [s_name set_fields]. split.
          + intros ->. apply Hnot. apply lookup_name in HT. destruct HT as [HT1 HT2]. rewrite <- HT1. apply in_map. exact HT2.
          + exists T. apply lookup_app_l. exact HT. }
      assert (Hspec : splice_spec done (DStruct X) = DStruct X').
      { cbn. rewrite E. unfold X'. rewrite pass_pure_closed. reflexivity. }
      assert (Hname : s_name X' = s_name X) by (unfold X'; rewrite pass_pure_closed; reflexivity).
      assert (Hwhile : unnamed_while fuel (done ++ DStruct X :: r) (s_name X) = Ok (done ++ DStruct X' :: r)%list).
      { destruct fuel as [|[|fuel]]; try lia. cbn [unnamed_while]. rewrite Hl, E, Hpass. cbn [bind].
        rewrite update_middle by (auto). cbn [unnamed_while].
        assert (Hl' : lookup (done ++ DStruct X' :: r)%list (s_name X) = Some (DStruct X')).
        { rewrite lookup_app_r by exact Hnot. rewrite <- Hname. apply (lookup_head (DStruct X')). }
        rewrite Hl'.
        assert (Hp : has_placeholder X' = false).
        { unfold has_placeholder, X'. rewrite pass_pure_fields. cbn [s_fields set_fields app]. apply splice1_members. exact Hd. }
        rewrite Hp. reflexivity. }
      rewrite Hwhile. cbn [bind]. rewrite Hspec in *.
      pose proof (IH (done ++ [DStruct X'])%list fuel Hfuel (Hstep (DStruct X') Hname) Hok) as IH'.
      rewrite <- !app_assoc in IH'. cbn [app] in IH'. exact IH'.
    + assert (Hsame : splice_spec done d = d).
      { destruct d as [| |X]; try reflexivity. cbn in E |- *. rewrite E. reflexivity. }
      rewrite Hsame in *. fold (worklist has_placeholder r).
      pose proof (IH (done ++ [d])%list fuel Hfuel (Hstep _ eq_refl) Hok) as IH'.
      rewrite <- !app_assoc in IH'. cbn [app] in IH'. exact IH'.
Qed.

(* well-formedness of the declared schema gives ordered_ok of every intermediate state *)
Definition finished (d : decl) : Prop := match d with DStruct X => has_placeholder X = false | _ => True end.

Lemma lookup_static_finished done0 done t T :
  Forall2 same_static done0 done -> Forall finished done -> lookup done0 t = Some (DStruct T) ->
  exists T', lookup done t = Some (DStruct T') /\ has_placeholder T' = false.
Proof.
  intros HF Hfin Hl. destruct (same_static_lookup_fwd _ _ _ _ HF Hl) as (T' & Hl' & _). exists T'. split; [exact Hl'|].
  apply lookup_name in Hl'. destruct Hl' as [_ Hin]. rewrite Forall_forall in Hfin. apply (Hfin _ Hin).
Qed.

Lemma splice_spec_static env d : same_static d (splice_spec env d).
Proof. destruct d as [| |X]; cbn; auto. destruct (has_placeholder X); cbn; auto. Qed.

Lemma ordered_ok_from_targets_first todo : forall done0 done,
  Forall2 same_static done0 done -> Forall finished done ->
  (forall i X t c, nth_error todo i = Some (DStruct X) -> In (InlinePlaceholder t c) (s_fields X) ->
     exists T, lookup (done0 ++ firstn i todo) t = Some (DStruct T)) ->
  ordered_ok done todo.
Proof.
  induction todo as [|d r IH]; intros done0 done HF Hfin H; cbn [ordered_ok]; [exact I|].
  assert (Hd : match d with
               | DStruct X => forall t c, In (InlinePlaceholder t c) (s_fields X) ->
                                exists T, lookup done t = Some (DStruct T) /\ has_placeholder T = false
               | _ => True end).
  { destruct d as [| |X]; auto. intros t c Hin. destruct (H 0%nat X t c eq_refl Hin) as (T & HT). cbn in HT. rewrite app_nil_r in HT.
    eapply lookup_static_finished; eauto. }
  split; [exact Hd|]. apply (IH (done0 ++ [d])%list).
  - apply Forall2_app; [exact HF|]. constructor; [apply splice_spec_static|constructor].
  - apply Forall_app. split; [exact Hfin|]. constructor; [|constructor].
    destruct d as [| |X]; cbn; auto. destruct (has_placeholder X) eqn:E; cbn; [|exact E].
    unfold has_placeholder. cbn. apply splice1_members. exact Hd.
  - intros i X t c Hn Hin. destruct (H (S i) X t c Hn Hin) as (T & HT). cbn [firstn] in HT. rewrite <- app_assoc. cbn. eauto.
Qed.

Theorem expand_unnamed_ordered s : NoDup (map decl_name s) -> targets_first s -> expand_unnamed s = Ok (unnamed_seq [] s).
Proof.
  intros Hnd Hord. destruct s as [|d0 r0] eqn:Es; [reflexivity|]. rewrite <- Es in *.
  unfold expand_unnamed, expand_unnamed_with.
  apply (unnamed_loop_seq s [] (S (length s))).
  - rewrite Es. cbn. lia.
  - exact Hnd.
  - apply (ordered_ok_from_targets_first s [] []); [constructor|constructor|]. intros i X t c Hn Hin. cbn. eapply Hord; eauto.
Qed.

Lemma unnamed_seq_nth todo : forall done i d,
  nth_error todo i = Some d ->
  nth_error (unnamed_seq done todo) i = Some (splice_spec (done ++ firstn i (unnamed_seq done todo)) d).
Proof.
  induction todo as [|e r IH]; intros done i d H; [destruct i; discriminate|].
  destruct i as [|i]; cbn in H.
  - injection H as ->. cbn. rewrite app_nil_r. reflexivity.
  - cbn [unnamed_seq nth_error firstn]. rewrite (IH _ _ _ H). rewrite <- app_assoc. reflexivity.
Qed.

Theorem expand_unnamed_ordered_nth s : NoDup (map decl_name s) -> targets_first s ->
  exists s', expand_unnamed s = Ok s' /\
  forall i d, nth_error s i = Some d -> nth_error s' i = Some (splice_spec (firstn i s') d).
Proof.
  intros Hnd Hord. exists (unnamed_seq [] s). split; [apply expand_unnamed_ordered; assumption|].
  intros i d Hn. apply (unnamed_seq_nth s [] i d Hn).
Qed.

Fixpoint targets_first_from (done todo : list decl) : bool :=
  match todo with
  | [] => true
  | d :: r =>
    match d with
    | DStruct X => forallb (fun m => match m with
                                     | InlinePlaceholder t _ => match lookup done t with Some (DStruct _) => true | _ => false end
                                     | _ => true
                                     end) (s_fields X)
    | _ => true
    end && targets_first_from (done ++ [d]) r
  end.
Definition targets_first_b (s : list decl) : bool := targets_first_from [] s.

Lemma targets_first_from_sound todo : forall done, targets_first_from done todo = true ->
  forall i X t c, nth_error todo i = Some (DStruct X) -> In (InlinePlaceholder t c) (s_fields X) ->
    exists T, lookup (done ++ firstn i todo) t = Some (DStruct T).
Proof.
  induction todo as [|d r IH]; intros done H i X t c Hn Hin; [destruct i; discriminate|].
  cbn in H. apply andb_true_iff in H. destruct H as [H1 H2]. destruct i as [|i]; cbn in Hn.
  - injection Hn as ->. rewrite forallb_forall in H1. specialize (H1 _ Hin). cbn in H1. cbn. rewrite app_nil_r.
    destruct (lookup done t) as [[| |T]|]; try discriminate. eauto.
  - destruct (IH _ H2 i X t c Hn Hin) as (T & HT). rewrite <- app_assoc in HT. cbn in HT. cbn [firstn]. eauto.
Qed.

Lemma targets_first_b_sound s : targets_first_b s = true -> targets_first s.
Proof. intros H i X t c Hn Hin. apply (targets_first_from_sound s [] H i X t c Hn Hin). Qed.

(* -- the attribute setters (apply_attributes) on the forms the grammar produces *)
Lemma apply_attr_forms a i n k p d z :
  apply_attr (FName n) {| at_name := k; at_values := [] |} = Reject
  /\ apply_attr (FArray a) {| at_name := "sort_key"; at_values := [AvStr k] |} = Ok (FArray (set_sort_key a (Some k)))
  /\ apply_attr (FArray a) {| at_name := "is_byte_constrained"; at_values := [] |} = Ok (FArray (set_byte_constrained a true))
  /\ apply_attr (FArray a) {| at_name := "alignment"; at_values := [AvNum z; AvNone; AvNone] |} = Ok (FArray (set_alignment a z true))
  /\ apply_attr (FArray a) {| at_name := "alignment"; at_values := [AvNum z; AvNone; AvStr "pad_last"] |} = Ok (FArray (set_alignment a z true))
  /\ apply_attr (FArray a) {| at_name := "alignment"; at_values := [AvNum z; AvStr "not"; AvStr "pad_last"] |} = Ok (FArray (set_alignment a z false))
  /\ apply_attr (FInt i) {| at_name := "sizeref"; at_values := [AvStr p; AvNum d] |} = Ok (FInt (set_sizeref i (Some (p, Some d))))
  /\ apply_attr (FInt i) {| at_name := "sizeref"; at_values := [AvStr p] |} = Ok (FInt (set_sizeref i (Some (p, Some 0%Z))))
  /\ apply_attr (FArray a) {| at_name := "sizeref"; at_values := [AvStr p; AvNum d] |} = Reject
  /\ apply_attr (FInt i) {| at_name := "sort_key"; at_values := [AvStr k] |} = Reject
  /\ apply_attr (FInt i) {| at_name := "alignment"; at_values := [AvNum z; AvNone; AvNone] |} = Reject
  /\ apply_attr (FInt i) {| at_name := "is_byte_constrained"; at_values := [] |} = Reject.
Proof. repeat split; reflexivity. Qed.
