(* Layout laws: what serialize / deserialize of the interpreter mean member by member (C02).
   Each law is stated under the static classification of the member (computed from the schema alone). *)
From Symv Require Import Base.Bytes Base.PyOps Base.BytesLemmas Cats.Layout Cats.LayoutProofs.
From Coq Require Import Lia ZifyBool.
Open Scope string_scope.
Open Scope list_scope.
Open Scope Z_scope.

Section Laws.
Variable OP : ops.
Variable tm : list decl.
Variable R : rec_ops.
Variable s : struct.
Variable allfs : list field.

Notation ser_field := (serialize_field OP tm R s allfs).
Notation ser_fields := (serialize_fields_go OP tm R s allfs).

(* the encoding of a member list is the concatenation, in order, of the member encodings *)
Lemma ser_fields_cons total self first f r :
  ser_fields total self first (f :: r) =
  bind (ser_field total self first f) (fun a => bind (ser_fields total self false r) (fun b => Ok (a ++ b))).
Proof. reflexivity. Qed.

Lemma ser_fields_app total self l1 : forall l2 b,
  ser_fields total self false (l1 ++ l2) = Ok b ->
  exists b1 b2, ser_fields total self false l1 = Ok b1 /\ ser_fields total self false l2 = Ok b2 /\ b = b1 ++ b2.
Proof.
  induction l1 as [|f l1 IH]; intros l2 b H.
  - exists [], b. repeat split; [exact H].
  - cbn [app] in H. rewrite ser_fields_cons in H.
    destruct (ser_field total self false f) as [a| |] eqn:Hf; cbn [bind] in H; try discriminate.
    destruct (ser_fields total self false (l1 ++ l2)) as [c| |] eqn:Hr; cbn [bind] in H; try discriminate.
    injection H as <-. destruct (IH l2 c Hr) as (b1 & b2 & H1 & H2 & ->).
    exists (a ++ b1), b2. rewrite ser_fields_cons, Hf. cbn [bind]. rewrite H1. cbn [bind]. repeat split; [exact H2 | now rewrite app_assoc].
Qed.

(* member k starts at the sum of the sizes of the members before it *)
Lemma member_offset total self l1 f l2 b :
  ser_fields total self false (l1 ++ f :: l2) = Ok b ->
  exists b1 bf b2, ser_fields total self false l1 = Ok b1 /\ ser_field total self false f = Ok bf /\
                   ser_fields total self false l2 = Ok b2 /\ b = b1 ++ bf ++ b2 /\
                   firstn (length bf) (skipn (length b1) b) = bf.
Proof.
  intros H. destruct (ser_fields_app total self l1 (f :: l2) b H) as (b1 & br & H1 & Hr & ->).
  rewrite ser_fields_cons in Hr.
  destruct (ser_field total self false f) as [bf| |] eqn:Hf; cbn [bind] in Hr; try discriminate.
  destruct (ser_fields total self false l2) as [b2| |] eqn:H2; cbn [bind] in Hr; try discriminate.
  injection Hr as <-. exists b1, bf, b2. repeat split; try assumption; try reflexivity.
  rewrite skipn_app, skipn_all, Nat.sub_diag. cbn [skipn app]. apply firstn_app_exact. reflexivity.
Qed.

(* classification of a member that is an ordinary always-present one *)
Definition plain_member (f : field) : Prop :=
  f_cond f = None /\ bound_field allfs f = None /\ is_reserved f = false /\ is_computed f = false.

Lemma cond_self_none self f : f_cond f = None -> cond_self tm R allfs self f = Ok true.
Proof. unfold cond_self. now intros ->. Qed.

(* integers: declared width, little-endian, declared signedness; out-of-range values do not encode *)
Lemma int_le total self f i z : plain_member f -> f_type f = FInt i -> vget self (f_name f) = Some (VInt z) ->
  ser_field total self false f = py_to_bytes (Z.to_nat (it_size i)) (negb (it_unsigned i)) z.
Proof.
  intros (Hc & Hb & Hr & Hcomp) Ht Hv. unfold serialize_field. cbn [andb].
  rewrite (cond_self_none self f Hc). cbn [bind negb]. rewrite Hb, Ht, Hcomp, Hr. unfold member_value. rewrite Hv. reflexivity.
Qed.

Lemma int_le_bytes w signed z b : py_to_bytes w signed z = Ok b ->
  b = to_le w z /\ length b = w /\ from_le b = z mod 2 ^ (8 * Z.of_nat w) /\ int_in_range w signed z = true.
Proof.
  unfold py_to_bytes. destruct (int_in_range w signed z); [|discriminate]. intros H; injection H as <-.
  repeat split; [apply length_to_le | apply from_le_to_le].
Qed.

(* reserved members are written as their constant ... *)
Lemma reserved_is_constant total self f i n : f_cond f = None -> bound_field allfs f = None -> is_computed f = false ->
  is_reserved f = true -> f_type f = FInt i -> f_value f = VNum n ->
  ser_field total self false f = py_to_bytes (Z.to_nat (it_size i)) (negb (it_unsigned i)) n.
Proof.
  intros Hc Hb Hcomp Hr Ht Hv. unfold serialize_field. cbn [andb].
  rewrite (cond_self_none self f Hc). cbn [bind negb]. rewrite Hb, Ht, Hcomp, Hr, Hv. reflexivity.
Qed.

(* ... and any other value is refused on read *)
Lemma reserved_checked_on_read e f i n buf : is_reserved f = true -> f_type f = FInt i -> f_value f = VNum n ->
  py_from_bytes (Z.to_nat (it_size i)) (negb (it_unsigned i)) buf <> n ->
  load_field OP tm R s allfs e f buf = Crash "AssertionError".
Proof.
  intros Hr Ht Hv Hne. unfold load_field. rewrite Ht, Hr, Hv.
  destruct (Z.eqb_spec (py_from_bytes (Z.to_nat (it_size i)) (negb (it_unsigned i)) buf) n); [contradiction|reflexivity].
Qed.

(* counts: a member naming the size of a counted array is written as the number of elements *)
Lemma count_is_length total self f g ga i l : f_cond f = None -> bound_field allfs f = Some g -> f_type f = FInt i ->
  f_array g = Some ga -> (ends_with_count (f_name f) || negb (a_byte_constrained ga) = true) ->
  vget self (f_name g) = Some (VArr l) ->
  ser_field total self false f = py_to_bytes (Z.to_nat (it_size i)) (negb (it_unsigned i)) (Z.of_nat (length l)).
Proof.
  intros Hc Hb Ht Hg Hcount Hv. unfold serialize_field. cbn [andb].
  rewrite (cond_self_none self f Hc). cbn [bind negb]. rewrite Hb, Ht, Hg, Hcount. unfold member_value. rewrite Hv. reflexivity.
Qed.

(* byte sizes of byte arrays *)
Lemma bytes_length_is_size total self f g ga i b : f_cond f = None -> bound_field allfs f = Some g -> f_type f = FInt i ->
  f_array g = Some ga -> (ends_with_count (f_name f) || negb (a_byte_constrained ga) = true) ->
  vget self (f_name g) = Some (VBytes b) ->
  ser_field total self false f = py_to_bytes (Z.to_nat (it_size i)) (negb (it_unsigned i)) (Z.of_nat (length b)).
Proof.
  intros Hc Hb Ht Hg Hcount Hv. unfold serialize_field. cbn [andb].
  rewrite (cond_self_none self f Hc). cbn [bind negb]. rewrite Hb, Ht, Hg, Hcount. unfold member_value. rewrite Hv. reflexivity.
Qed.

(* byte-constrained arrays: the size member holds the computed byte size of the array (padding included) *)
Lemma bytesize_is_size total self f g ga i : f_cond f = None -> bound_field allfs f = Some g -> f_type f = FInt i ->
  f_array g = Some ga -> (ends_with_count (f_name f) || negb (a_byte_constrained ga) = false) ->
  ser_field total self false f = bind (member_size OP tm R self g) (py_to_bytes (Z.to_nat (it_size i)) (negb (it_unsigned i))).
Proof.
  intros Hc Hb Ht Hg Hcount. unfold serialize_field. cbn [andb].
  rewrite (cond_self_none self f Hc). cbn [bind negb]. rewrite Hb, Ht, Hg, Hcount. reflexivity.
Qed.

(* sizeof members hold the size of the member they measure *)
Lemma sizeof_is_size total self f g i : f_cond f = None -> bound_field allfs f = Some g -> f_type f = FInt i ->
  f_array g = None -> is_sizeof f = true ->
  ser_field total self false f = bind (member_size OP tm R self g) (py_to_bytes (Z.to_nat (it_size i)) (negb (it_unsigned i))).
Proof.
  intros Hc Hb Ht Hg Hs. unfold serialize_field. cbn [andb].
  rewrite (cond_self_none self f Hc). cbn [bind negb]. rewrite Hb, Ht, Hg, Hs. reflexivity.
Qed.

(* the @size member, first in the struct, holds the total computed size *)
Lemma size_prefix_is_total total self f i : is_size_first s [f] f = true -> f_type f = FInt i ->
  ser_field total self true f = py_to_bytes (Z.to_nat (it_size i)) false total.
Proof. intros Hf Ht. unfold serialize_field. cbn [andb]. rewrite Hf, Ht. reflexivity. Qed.

(* conditional members are present exactly when their condition holds *)
Lemma conditional_absent total self f : is_size_first s [f] f = false -> cond_self tm R allfs self f = Ok false ->
  ser_field total self false f = Ok [].
Proof. intros _ Hc. unfold serialize_field. cbn [andb]. rewrite Hc. reflexivity. Qed.

Lemma conditional_present total self f t v : cond_self tm R allfs self f = Ok true -> bound_field allfs f = None ->
  f_type f = FName t -> is_reserved f = false -> vget self (f_name f) = Some v -> v <> VNull ->
  ser_field total self false f = enc_t R t v.
Proof.
  intros Hc Hb Ht Hr Hv Hn. unfold serialize_field. cbn [andb]. rewrite Hc. cbn [bind negb]. rewrite Hb, Ht, Hr.
  unfold member_value. rewrite Hv. cbn [bind]. destruct v; try reflexivity. contradiction.
Qed.

End Laws.

(* const members are not part of the layout *)
Lemma own_fields_no_const tm s f : In f (own_fields tm s) -> is_const f = false.
Proof.
  unfold own_fields, non_const. intros H. apply filter_In in H as [H _]. apply filter_In in H as [_ H].
  now destruct (is_const f).
Qed.
