(* Proofs about Cats/Syntax.v, part 4 (C11): rejection of corrupted documents at any statement line, of documents without final
   line end, and of structs without members.  Everything is derived from the fact that the uncorrupted document parses
   (SyntaxProofs.parse_render_with): the automaton reaches the corrupted line in the same state as in the good run. *)
From Coq Require Import ZArith List Bool String Ascii Lia ZifyBool.
From Symv Require Import Base.Bytes Cats.Ast Cats.Syntax Cats.SyntaxLexProofs Cats.SyntaxProofs.
From Symv Require Base.PyOps.
Import ListNotations.
Open Scope list_scope.
Open Scope Z_scope.

Section Reject.
Variable T : terms.
Hypothesis Hok : terms_ok T = true.

Lemma mrun_index ls : forall st stack ac i st' stack' ac' i',
  mrun T st stack ac i ls = MOk (st', stack', ac', i') -> i' = (i + length ls)%nat.
Proof.
  induction ls as [|L ls IH]; intros st stack ac i st' stack' ac' i' H.
  - cbn [mrun] in H. inversion H. cbn [length]. lia.
  - cbn [mrun] in H. destruct (deliver T st ac (m_body L)) as [st1|d]; [|discriminate].
    destruct (m_next L) as [w|]; [|discriminate]. destruct (on_indent st1 stack w) as [[st2 stack2]|d]; [|discriminate].
    apply IH in H. cbn [length]. lia.
Qed.

(* the good run: the automaton accepts the logical lines of a rendered well-formed document *)
Lemma machine_render st ds :
  comment_merged T = false -> (st_crlf st = true -> in_set (comment_strip T) 13 = true) ->
  wf_style st = true -> wf_doc_with T ds = true ->
  machine0 T (tgroup T (style_cr st) (tlines T st ds)) = MOk ds.
Proof.
  intros Hmerged Hcrlf Hst Hwf.
  assert (Hcr : cr_ok T (style_cr st)).
  { unfold cr_ok, style_cr. destruct (st_crlf st); [right; split; [reflexivity|apply Hcrlf; reflexivity]|left; reflexivity]. }
  unfold wf_doc_with in Hwf. destruct ds as [|it ds]; [discriminate|]. apply andb_true_iff in Hwf as [Hitems Hadj].
  destruct (doc_run T Hok Hmerged st Hst (style_cr st) Hcr (it :: ds) Hitems Hadj [] None ltac:(destruct it; cbn [item_pre]; auto) [] eq_refl)
    as [LS [acc2 [pc2 [E [HR Hres]]]]].
  rewrite app_nil_r in E. cbn [tgroup] in E. rewrite app_nil_r in E.
  unfold machine0. rewrite E. destruct (HR [] false 0%nat) as [ac' Hm]. rewrite app_nil_r in Hm. cbn [fst snd] in Hm. rewrite Hm.
  cbn [machine eof_dedents]. cbn [app opt_comment] in Hres. rewrite Hres. reflexivity.
Qed.

(* --- one statement line replaced *)
Theorem line_replaced cr tl1 ind c c' rest v :
  cr_shape cr -> forallb pline_ok (tl1 ++ PStmt ind c :: rest) = true -> pline_ok (PStmt ind c') = true ->
  (forall q l, tl1 = q :: l -> q <> PBlank) ->
  machine0 T (tgroup T cr (tl1 ++ PStmt ind c :: rest)) = MOk v ->
  (forall S ac u, on_stmt T S ac c = SOk u -> exists n, on_stmt T S ac c' = SErr (DStmt n)) ->
  exists pos, parse_with T (text_of cr (tl1 ++ PStmt ind c' :: rest)) = Error pos /\ e_line pos = 1 + zlen tl1.
Proof.
  intros Hcr Hall Hc' Hhead Hgood Hrej.
  rewrite forallb_app in Hall. apply andb_true_iff in Hall as [Hok1 Hok2o]. cbn [forallb] in Hok2o. apply andb_true_iff in Hok2o as [_ Hrest].
  assert (Hok2 : forallb pline_ok (PStmt ind c' :: rest) = true) by (cbn [forallb]; rewrite Hc', Hrest; reflexivity).
  assert (Hall' : forallb pline_ok (tl1 ++ PStmt ind c' :: rest) = true) by (rewrite forallb_app, Hok1, Hok2; reflexivity).
  destruct (tgroup_split T cr tl1 (ws_width T ind)) as [G1 HG].
  destruct (HG (PStmt ind c :: rest) eq_refl eq_refl) as [Eo _]. destruct (HG (PStmt ind c' :: rest) eq_refl eq_refl) as [Ec _].
  (* the good run reaches the line *)
  unfold machine0 in Hgood. rewrite Eo, (machine_app T) in Hgood.
  destruct (mrun T (STop [] None PaNone) [0] false 0 G1) as [[[[S stack] ac] i']|j d] eqn:Hrun; [|discriminate].
  pose proof (mrun_index G1 _ _ _ _ _ _ _ _ Hrun) as Hi. cbn [Nat.add] in Hi.
  cbn [tgroup machine m_body deliver] in Hgood.
  destruct (on_stmt T S ac c) as [u|d] eqn:Hdel; [|discriminate].
  destruct (Hrej S ac u Hdel) as [n Hbad].
  assert (Hmach : machine0 T (tgroup T cr (tl1 ++ PStmt ind c' :: rest)) = MErr (length G1) (DStmt n)).
  { unfold machine0. rewrite Ec, (machine_app T), Hrun. cbn [tgroup machine m_body deliver]. rewrite Hbad, Hi. reflexivity. }
  (* parse *)
  assert (Hfirst : exists q tl', tl1 ++ PStmt ind c' :: rest = q :: tl' /\ q <> PBlank).
  { destruct tl1 as [|q l]; [eexists; eexists; split; [reflexivity|discriminate]|].
    exists q. eexists. split; [reflexivity|]. eapply Hhead. reflexivity. }
  destruct Hfirst as [q [tl' [E Hq]]].
  rewrite (parse_tagged T Hok cr _ q tl' Hcr Hall' E Hq), Hmach.
  destruct (group_split T Hok cr tl1 Hcr Hok1 (PStmt ind c' :: rest) 1 Hok2 eq_refl) as [GP1 [EGP _]].
  destruct (group_head_stmt T Hok cr ind c' rest (1 + Z.of_nat (length tl1)) Hcr Hok2) as [L [rest' [EL [HL1 [HL2 HL3]]]]].
  assert (Hlen : length GP1 = length G1).
  { assert (M1 : map l_m (GP1 ++ L :: rest') = tgroup T cr (tl1 ++ PStmt ind c' :: rest)).
    { rewrite <- EL, <- EGP, group_mgroup. apply (mgroup_tagged T Hok); assumption. }
    assert (M2 : map l_m (L :: rest') = tgroup T cr (PStmt ind c' :: rest)).
    { rewrite <- EL, group_mgroup. apply (mgroup_tagged T Hok); assumption. }
    rewrite map_app, M2, Ec in M1. apply (f_equal (@length mline)) in M1. rewrite !app_length, map_length in M1. lia. }
  eexists. split; [reflexivity|]. rewrite EGP, EL, <- Hlen. unfold pos_of. rewrite nth_error_app2, Nat.sub_diag by lia. cbn [nth_error e_line].
  rewrite HL1. unfold zlen. reflexivity.
Qed.

(* --- the final line end deleted *)
Fixpoint cut_last (ls : list mline) : list mline :=
  match ls with
  | [] => []
  | [L] => [{| m_body := m_body L; m_next := None |}]
  | L :: r => L :: cut_last r
  end.
Lemma cut_last_cons L r : r <> [] -> cut_last (L :: r) = L :: cut_last r.
Proof. destruct r; [contradiction|reflexivity]. Qed.
Lemma cut_last_snoc g L : cut_last (g ++ [L]) = g ++ [{| m_body := m_body L; m_next := None |}].
Proof.
  induction g as [|x g IH]; [reflexivity|]. change ((x :: g) ++ [L]) with (x :: g ++ [L]).
  rewrite cut_last_cons by (destruct g; discriminate). rewrite IH. reflexivity.
Qed.
Lemma add_cut_comm p l : add_comment_line p (cut_last l) = cut_last (add_comment_line p l).
Proof.
  destruct l as [|[[lines|core] n] [|y r]]; try reflexivity.
Qed.

Lemma classify_tail_stmt ind c : ws_only ind = true -> head_stmt c = true -> classify_tail (ind ++ c) = (ind, KStmt c).
Proof.
  intros Hi Hh. unfold classify_tail. destruct c as [|x c]; [discriminate|]. cbn [head_stmt] in Hh. apply andb_true_iff in Hh as [Hw H35].
  rewrite (span_ws_app ind (x :: c) Hi) by (cbn [stops]; exact Hw). apply negb_true_iff in H35. rewrite H35. reflexivity.
Qed.

Section Tail.
Variables (cr ind c : list Z).
Hypothesis Hcr : cr_shape cr.
Hypothesis Hind : ws_only ind = true.
Hypothesis Hhead : head_stmt c = true.
Hypothesis Hplain : plainc c = true.
Let lastp : pline := PStmt ind c.

Lemma lastp_ok : pline_ok lastp = true.
Proof. cbn [lastp pline_ok]. rewrite Hind, Hhead, Hplain. reflexivity. Qed.

Lemma peek_indent_tail tl0 : forallb pline_ok tl0 = true -> peek_indent T (phys cr tl0) (ind ++ c) = tpeek T (tl0 ++ [lastp]).
Proof.
  induction tl0 as [|p tl0 IH]; intro H.
  - cbn [phys map peek_indent app tpeek lastp]. rewrite (classify_tail_stmt ind c Hind Hhead). reflexivity.
  - cbn [forallb] in H. apply andb_true_iff in H as [Hp Htl]. cbn [phys map peek_indent]. fold (phys cr tl0).
    rewrite (classify_tagged T Hok cr p Hcr Hp). destruct p; cbn [app tpeek]; auto.
Qed.
Lemma peek_comment_tail tl0 : forallb pline_ok tl0 = true -> peek_comment (phys cr tl0) (ind ++ c) = tnext_comment (tl0 ++ [lastp]).
Proof.
  intro H. destruct tl0 as [|p tl0].
  - unfold peek_comment. cbn [phys map]. rewrite (classify_tail_stmt ind c Hind Hhead). reflexivity.
  - cbn [forallb] in H. apply andb_true_iff in H as [Hp _]. unfold peek_comment. cbn [phys map].
    rewrite (classify_tagged T Hok cr p Hcr Hp). destruct p; reflexivity.
Qed.

Lemma tgroup_snoc_nonempty tl0 : tgroup T cr (tl0 ++ [lastp]) <> [].
Proof.
  induction tl0 as [|p tl0 IH]; [discriminate|]. destruct p as [|i t|i s]; cbn [app tgroup]; [exact IH| |discriminate].
  destruct (tnext_comment (tl0 ++ [lastp])); [|discriminate].
  destruct (tgroup T cr (tl0 ++ [lastp])) as [|[[lines|core] n] g]; [contradiction|discriminate|discriminate].
Qed.

Lemma mgroup_tail tl0 : forallb pline_ok tl0 = true -> mgroup T (phys cr tl0) (ind ++ c) = cut_last (tgroup T cr (tl0 ++ [lastp])).
Proof.
  induction tl0 as [|p tl0 IH]; intro H.
  - cbn [phys map mgroup app tgroup lastp]. rewrite (classify_tail_stmt ind c Hind Hhead). reflexivity.
  - cbn [forallb] in H. apply andb_true_iff in H as [Hp Htl]. cbn [phys map mgroup]. fold (phys cr tl0).
    rewrite (classify_tagged T Hok cr p Hcr Hp), (IH Htl), peek_indent_tail, peek_comment_tail by assumption.
    pose proof (tgroup_snoc_nonempty tl0) as Hne.
    destruct p as [|i t|i s]; cbn [app tgroup].
    + reflexivity.
    + destruct (tnext_comment (tl0 ++ [lastp])); [apply add_cut_comm|]. rewrite cut_last_cons by exact Hne. reflexivity.
    + rewrite cut_last_cons by exact Hne. reflexivity.
Qed.

Lemma group_tail tl0 : forallb pline_ok tl0 = true -> forall ln,
  exists GP L, group T ln (phys cr tl0) (ind ++ c) = GP ++ [L] /\ l_line L = ln + zlen tl0
    /\ (tnext_comment tl0 = true -> GP <> []).
Proof.
  induction tl0 as [|p tl0 IH]; intros H ln.
  - exists []. cbn [phys map group mgroup]. rewrite (classify_tail_stmt ind c Hind Hhead). cbn [map app]. eexists. split; [reflexivity|].
    cbn [l_line]. unfold zlen. cbn [length]. split; [lia|discriminate].
  - cbn [forallb] in H. apply andb_true_iff in H as [Hp Htl]. destruct (IH Htl (ln + 1)) as [GP [L [E [HL Hne]]]].
    assert (HL' : l_line L = ln + zlen (p :: tl0)) by (unfold zlen in *; cbn [length]; lia).
    cbn [phys map group]. fold (phys cr tl0). rewrite (classify_tagged T Hok cr p Hcr Hp), E, peek_indent_tail, peek_comment_tail by assumption.
    destruct p as [|i t|i s].
    + exists GP, L. split; [reflexivity|]. split; [exact HL'|discriminate].
    + destruct (tnext_comment tl0) eqn:Hnc.
      * assert (Hnc' : tnext_comment (tl0 ++ [lastp]) = true) by (destruct tl0 as [|[] ?]; try discriminate; reflexivity).
        rewrite Hnc'. specialize (Hne eq_refl). rewrite add_comment_pos_app by exact Hne. eexists. exists L. split; [reflexivity|].
        split; [exact HL'|]. intros _. destruct GP; [contradiction|discriminate].
      * assert (Hnc' : tnext_comment (tl0 ++ [lastp]) = false) by (destruct tl0 as [|[] ?]; try discriminate; reflexivity).
        rewrite Hnc'. eexists. exists L. split; [rewrite app_comm_cons; reflexivity|]. split; [exact HL'|discriminate].
    + eexists. exists L. split; [rewrite app_comm_cons; reflexivity|]. split; [exact HL'|discriminate].
Qed.
End Tail.

Lemma split_lines_tail (lines : list (list Z)) (cr t : list Z) :
  forallb nolf lines = true -> nolf cr = true -> nolf t = true ->
  let (p, ps) := split_lf (flat_map (fun l => l ++ cr ++ [10]) lines ++ t) in pieces_tail p ps = (map (fun l => l ++ cr) lines, t).
Proof.
  intros Hl Hcr Ht. induction lines as [|l lines IH].
  - cbn [flat_map app map]. rewrite (split_lf_nolf t Ht). reflexivity.
  - cbn [forallb] in Hl. apply andb_true_iff in Hl as [H1 H2]. specialize (IH H2).
    cbn [flat_map]. rewrite <- !app_assoc. cbn [app].
    replace (l ++ cr ++ 10 :: flat_map (fun l0 => l0 ++ cr ++ [10]) lines ++ t)
      with ((l ++ cr) ++ 10 :: (flat_map (fun l0 => l0 ++ cr ++ [10]) lines ++ t)) by (rewrite <- app_assoc; reflexivity).
    rewrite split_lf_line by (rewrite nolf_app, H1, Hcr; reflexivity).
    destruct (split_lf (flat_map (fun l0 => l0 ++ cr ++ [10]) lines ++ t)) as [p ps]. cbn [fst snd pieces_tail map].
    rewrite IH. reflexivity.
Qed.

Lemma tgroup_blanks_nil cr n : tgroup T cr (blanks n) = [].
Proof. induction n; [reflexivity|exact IHn]. Qed.
Lemma tpeek_blanks_nil n : tpeek T (blanks n) = 0.
Proof. induction n; [reflexivity|exact IHn]. Qed.

Theorem final_line_end_deleted cr tl0 ind c n v :
  cr_shape cr -> forallb pline_ok (tl0 ++ PStmt ind c :: blanks n) = true ->
  (forall q l, tl0 = q :: l -> q <> PBlank) ->
  machine0 T (tgroup T cr (tl0 ++ PStmt ind c :: blanks n)) = MOk v ->
  parse_with T (text_of cr tl0 ++ ind ++ c) = Error {| e_line := 1 + zlen tl0; e_col := 0; e_kind := EEnd |}.
Proof.
  intros Hcr Hall Hhead Hgood.
  rewrite forallb_app in Hall. apply andb_true_iff in Hall as [Hok0 Hl]. cbn [forallb] in Hl. apply andb_true_iff in Hl as [Hlast _].
  cbn [pline_ok] in Hlast. apply andb_true_iff in Hlast as [Hlast Hplain]. apply andb_true_iff in Hlast as [Hind Hhs].
  (* the two groupings share their prefix *)
  destruct (tgroup_split T cr tl0 (ws_width T ind)) as [G1 HG].
  destruct (HG (PStmt ind c :: blanks n) eq_refl eq_refl) as [Eo _]. destruct (HG [PStmt ind c] eq_refl eq_refl) as [Ec _].
  cbn [tgroup] in Eo, Ec. rewrite tgroup_blanks_nil, tpeek_blanks_nil in Eo. cbn [tpeek] in Ec.
  unfold machine0 in Hgood. rewrite Eo, (machine_app T) in Hgood.
  destruct (mrun T (STop [] None PaNone) [0] false 0 G1) as [[[[S stack] ac] i']|j d] eqn:Hrun; [|discriminate].
  pose proof (mrun_index G1 _ _ _ _ _ _ _ _ Hrun) as Hi. cbn [Nat.add] in Hi.
  cbn [machine m_body deliver] in Hgood. destruct (on_stmt T S ac c) as [u|d] eqn:Hdel; [|discriminate].
  (* parse *)
  unfold parse_with, text_of.
  pose proof (split_lines_tail (map untag tl0) cr (ind ++ c)) as Hsplit.
  rewrite flat_map_concat_map, map_map, <- flat_map_concat_map in Hsplit.
  destruct (split_lf (flat_map (fun p => untag p ++ cr ++ [10]) tl0 ++ ind ++ c)) as [p ps].
  rewrite Hsplit.
  2:{ apply forallb_forall. intros l Hin. apply in_map_iff in Hin as [x [<- Hx]]. apply (pline_nolf T Hok).
      rewrite forallb_forall in Hok0. apply Hok0. exact Hx. }
  2:{ destruct Hcr as [->| ->]; reflexivity. }
  2:{ assert (Hp : pline_ok (PStmt ind c) = true) by (cbn [pline_ok]; rewrite Hind, Hhs, Hplain; reflexivity).
      exact (pline_nolf T Hok _ Hp). }
  rewrite map_map. fold (phys cr tl0).
  destruct (group_tail cr ind c Hcr Hind Hhs Hplain tl0 Hok0 1) as [GP [L [EG [HL _]]]].
  assert (Hm : map l_m (GP ++ [L]) = G1 ++ [{| m_body := MStmt c; m_next := None |}]).
  { rewrite <- EG, group_mgroup, (mgroup_tail cr ind c Hcr Hind Hhs tl0 Hok0), Ec, cut_last_snoc. reflexivity. }
  assert (Hlen : length GP = length G1).
  { apply (f_equal (@length mline)) in Hm. rewrite map_length, !app_length in Hm. cbn [length] in Hm. lia. }
  assert (Hres : match machine T (STop [] None PaNone) [0] false 0 (map l_m (group T 1 (phys cr tl0) (ind ++ c))) with
                 | MOk v0 => Ok v0
                 | MErr i d => Error (pos_of (group T 1 (phys cr tl0) (ind ++ c)) i d)
                 end = Error {| e_line := 1 + zlen tl0; e_col := 0; e_kind := EEnd |}).
  { rewrite EG, Hm, (machine_app T), Hrun. cbn [machine m_body deliver m_next]. rewrite Hdel, Hi, <- Hlen.
    unfold pos_of. rewrite nth_error_app2, Nat.sub_diag by lia. cbn [nth_error]. rewrite HL. reflexivity. }
  destruct (phys cr tl0) as [|p0 pieces] eqn:Ephys; [exact Hres|].
  assert (Hnb : is_blank_piece p0 = false).
  { destruct tl0 as [|q l]; [discriminate|]. cbn [phys map] in Ephys. inversion Ephys. subst p0.
    cbn [forallb] in Hok0. apply andb_true_iff in Hok0 as [Hq _]. unfold is_blank_piece. rewrite (classify_tagged T Hok cr q Hcr Hq).
    specialize (Hhead q l eq_refl). destruct q; [contradiction|reflexivity|reflexivity]. }
  rewrite Hnb. exact Hres.
Qed.

(* the operator on texts: all trailing carriage returns / line feeds removed *)
Definition eol_set : list Z := [13; 10].
Definition delete_final_line_end (text : list Z) : list Z := rstrip eol_set text.

Lemma last_app_ne {A} (a b : list A) d : b <> [] -> last (a ++ b) d = last b d.
Proof.
  intro Hb. induction a as [|x a IH]; [reflexivity|]. change ((x :: a) ++ b) with (x :: a ++ b).
  destruct (a ++ b) eqn:E; [apply app_eq_nil in E as [_ E]; contradiction|]. cbn [last]. exact IH.
Qed.
Lemma last_in {A} (l : list A) d : l <> [] -> In (last l d) l.
Proof.
  induction l as [|x l IH]; [contradiction|]. intros _. destruct l as [|y l]; [left; reflexivity|]. right. apply IH. discriminate.
Qed.

Lemma text_of_app cr a b : text_of cr (a ++ b) = text_of cr a ++ text_of cr b.
Proof. unfold text_of. apply flat_map_app. Qed.

Lemma text_of_blanks_eol cr n : cr_shape cr -> forallb (in_set eol_set) (text_of cr (blanks n)) = true.
Proof.
  intro Hcr. induction n as [|n IH]; [reflexivity|]. cbn [blanks repeat]. fold (blanks n).
  change (text_of cr (PBlank :: blanks n)) with ((untag PBlank ++ cr ++ [10]) ++ text_of cr (blanks n)).
  rewrite forallb_app, IH, andb_true_r. destruct Hcr as [->| ->]; reflexivity.
Qed.

Lemma delete_final_line_end_text cr tl0 ind c n : cr_shape cr -> head_stmt c = true -> plainc c = true ->
  delete_final_line_end (text_of cr (tl0 ++ PStmt ind c :: blanks n)) = text_of cr tl0 ++ ind ++ c.
Proof.
  intros Hcr Hh Hp. unfold delete_final_line_end. rewrite text_of_app.
  change (text_of cr (PStmt ind c :: blanks n)) with (((ind ++ c) ++ cr ++ [10]) ++ text_of cr (blanks n)).
  replace (text_of cr tl0 ++ ((ind ++ c) ++ cr ++ [10]) ++ text_of cr (blanks n))
    with ((text_of cr tl0 ++ ind ++ c) ++ (cr ++ [10]) ++ text_of cr (blanks n)) by (rewrite <- !app_assoc; reflexivity).
  assert (Hc : c <> []) by (destruct c; [discriminate|discriminate]).
  apply rstrip_keep.
  - intro E. apply app_eq_nil in E as [_ E]. apply app_eq_nil in E as [_ E]. contradiction.
  - rewrite app_assoc, last_app_ne by exact Hc. pose proof (last_in c 0 Hc) as Hin.
    unfold plainc in Hp. rewrite forallb_forall in Hp. specialize (Hp _ Hin). unfold in_set, eol_set. cbn [existsb]. lia.
  - rewrite forallb_app, (text_of_blanks_eol cr n Hcr), andb_true_r. destruct Hcr as [->| ->]; reflexivity.
Qed.

(* a document whose last item is not a free comment ends with a statement line followed by blank lines only *)
Lemma blanks_app a b : blanks a ++ blanks b = blanks (a + b).
Proof. unfold blanks. symmetry. apply repeat_app. Qed.

Lemma item_ends_with_stmt st it : (forall c, it <> IComment c) -> match it with IDecl (DStruct s) => s_fields s <> [] | _ => True end ->
  exists tl ind c n, item_tlines T st it = tl ++ PStmt ind c :: blanks n.
Proof.
  intros Hnc Hf. unfold item_tlines. destruct it as [d|p|c0]; [| |exfalso; eapply Hnc; reflexivity].
  - destruct d as [nm l c0|nm b vals attrs c0|s]; cbn [decl_tlines].
    + exists (comment_tlines [] c0), [], (r_alias T st nm l), (st_blank_top st). rewrite <- app_assoc. reflexivity.
    + destruct vals as [|v0 vals0].
      * exists (comment_tlines [] c0 ++ map (PStmt []) (r_attrs T st CEnum attrs)), [], (r_enum_header T nm b), (st_blank_top st).
        cbn [flat_map]. rewrite app_nil_r, <- !app_assoc. reflexivity.
      * destruct (exists_last (l := v0 :: vals0) ltac:(discriminate)) as [vs [v E]]. rewrite E, flat_map_app. cbn [flat_map]. rewrite app_nil_r.
        exists (comment_tlines [] c0 ++ map (PStmt []) (r_attrs T st CEnum attrs) ++ [PStmt [] (r_enum_header T nm b)]
                ++ flat_map (value_tlines T st) vs ++ comment_tlines (st_indent st) (ev_comment v)),
               (st_indent st), (r_value T st v), (st_blank_member st + st_blank_top st)%nat.
        unfold value_tlines at 2. rewrite <- (blanks_app (st_blank_member st) (st_blank_top st)). rewrite <- !app_assoc. reflexivity.
    + destruct (exists_last Hf) as [fs [f E]]. rewrite E, flat_map_app. cbn [flat_map]. rewrite app_nil_r.
      exists (comment_tlines [] (s_comment s) ++ map (PStmt []) (r_attrs T st CStruct (s_attrs s)) ++ [PStmt [] (r_struct_header T (s_disp s) (s_name s))]
              ++ flat_map (member_tlines T st) fs ++ comment_tlines (st_indent st) (field_comment f)
              ++ map (PStmt (st_indent st)) (r_attrs T st CField (field_attrs f))),
             (st_indent st), (r_field T st f), (st_blank_member st + st_blank_top st)%nat.
      unfold member_tlines at 2. rewrite <- (blanks_app (st_blank_member st) (st_blank_top st)). rewrite <- !app_assoc. reflexivity.
  - exists [], [], (r_import T p), (st_blank_top st). reflexivity.
Qed.

Theorem final_line_end_rejected st ds0 it :
  comment_merged T = false -> (st_crlf st = true -> in_set (comment_strip T) 13 = true) ->
  wf_style st = true -> wf_doc_with T (ds0 ++ [it]) = true -> (forall c, it <> IComment c) ->
  exists tl0 ind c n, tlines T st (ds0 ++ [it]) = tl0 ++ PStmt ind c :: blanks n
    /\ parse_with T (delete_final_line_end (render_with T st (ds0 ++ [it])))
       = Error {| e_line := 1 + zlen tl0; e_col := 0; e_kind := EEnd |}.
Proof.
  intros Hm Hcrlf Hst Hwf Hnc. destruct (wf_doc_items T (ds0 ++ [it]) Hwf) as [Hitems _].
  assert (Hit : wf_item T it = true).
  { rewrite forallb_app in Hitems. apply andb_true_iff in Hitems as [_ H]. cbn [forallb] in H. apply andb_true_iff in H as [H _]. exact H. }
  destruct (item_ends_with_stmt st it Hnc) as [tl [ind [c [n E]]]].
  { destruct it as [[| |s]| |]; try exact I. cbn [wf_item wf_decl] in Hit.
    apply andb_true_iff in Hit as [Hit _]. apply andb_true_iff in Hit as [_ Hit]. destruct (s_fields s); [discriminate|discriminate]. }
  assert (Etl : tlines T st (ds0 ++ [it]) = (tlines T st ds0 ++ tl) ++ PStmt ind c :: blanks n).
  { unfold tlines. rewrite flat_map_app. cbn [flat_map]. rewrite app_nil_r, E, <- app_assoc. reflexivity. }
  exists (tlines T st ds0 ++ tl), ind, c, n. split; [exact Etl|].
  pose proof (tlines_ok T Hok st (ds0 ++ [it]) Hst Hitems) as Hall. rewrite Etl in Hall.
  assert (Hlast : pline_ok (PStmt ind c) = true).
  { rewrite forallb_app in Hall. apply andb_true_iff in Hall as [_ H]. cbn [forallb] in H. apply andb_true_iff in H as [H _]. exact H. }
  cbn [pline_ok] in Hlast. apply andb_true_iff in Hlast as [Hlast Hplain]. apply andb_true_iff in Hlast as [_ Hhs].
  rewrite (render_text_of T), Etl, (delete_final_line_end_text _ _ _ _ _ (style_cr_shape st) Hhs Hplain).
  apply (final_line_end_deleted (style_cr st) _ ind c n (ds0 ++ [it]) (style_cr_shape st) Hall).
  - intros q l Eq. destruct (first_line_not_blank T Hok st (ds0 ++ [it]) Hwf) as [p [tl' [Ep Hp]]].
    rewrite Etl, Eq in Ep. cbn [app] in Ep. inversion Ep. subst. exact Hp.
  - rewrite <- Etl. apply machine_render; assumption.
Qed.


(* --- a struct without members *)
Lemma wf_adjacent_tail x ds : wf_adjacent (x :: ds) = true -> wf_adjacent ds = true.
Proof.
  intro H. destruct x as [d|p|c]; cbn [wf_adjacent] in H; try exact H. destruct ds as [|[d'|p'|c'] ds']; try exact H.
  apply andb_true_iff in H as [_ H]. exact H.
Qed.
Lemma wf_adjacent_app_r a b : wf_adjacent (a ++ b) = true -> wf_adjacent b = true.
Proof. induction a as [|x a IH]; intro H; [exact H|]. apply IH. eapply wf_adjacent_tail. exact H. Qed.

Lemma group_comment_nonempty cr : cr_shape cr -> forall tl ln, forallb pline_ok tl = true -> tnext_comment tl = true ->
  group T ln (phys cr tl) [] <> [].
Proof.
  intros Hcr. induction tl as [|p tl IH]; intros ln Hall Hn; [discriminate|]. destruct p as [|ind t|ind c]; try discriminate.
  cbn [forallb] in Hall. apply andb_true_iff in Hall as [Hp Htl].
  cbn [phys map group]. fold (phys cr tl). rewrite (classify_tagged T Hok cr _ Hcr Hp), (peek_comment_tagged T Hok cr tl Hcr Htl).
  destruct (tnext_comment tl) eqn:E; [|discriminate].
  specialize (IH (ln + 1) Htl eq_refl). destruct (group T (ln + 1) (phys cr tl) []); [contradiction|discriminate].
Qed.

Lemma group_head_line cr q tl ln : cr_shape cr -> forallb pline_ok (q :: tl) = true -> q <> PBlank ->
  exists L rest, group T ln (phys cr (q :: tl)) [] = L :: rest /\ l_line L = ln.
Proof.
  intros Hcr Hall Hq. cbn [forallb] in Hall. apply andb_true_iff in Hall as [Hp Htl].
  cbn [phys map group]. fold (phys cr tl). rewrite (classify_tagged T Hok cr q Hcr Hp). destruct q as [|ind t|ind c]; [contradiction| |].
  - rewrite (peek_comment_tagged T Hok cr tl Hcr Htl). destruct (tnext_comment tl) eqn:E.
    + pose proof (group_comment_nonempty cr Hcr tl (ln + 1) Htl E) as Hne.
      destruct (group T (ln + 1) (phys cr tl) []) as [|L0 r0]; [contradiction|]. cbn [add_comment_pos]. eexists. eexists. split; reflexivity.
    + eexists. eexists. split; reflexivity.
  - eexists. eexists. split; reflexivity.
Qed.

Lemma group_head_stmt_end cr ind c tl ln : cr_shape cr -> forallb pline_ok (PStmt ind c :: tl) = true ->
  exists L rest, group T ln (phys cr (PStmt ind c :: tl)) [] = L :: rest /\ l_line L = ln /\ fst (l_end L) = ln.
Proof.
  intros Hcr Hall. cbn [forallb] in Hall. apply andb_true_iff in Hall as [Hp Htl].
  cbn [phys map group]. rewrite (classify_tagged T Hok cr (PStmt ind c) Hcr Hp). eexists. eexists. split; [reflexivity|]. split; reflexivity.
Qed.

Section StructBody.
Hypothesis Hmerged : comment_merged T = false.
Variable st : style.
Hypothesis Hst : wf_style st = true.
Hypothesis Hcr : cr_ok T (style_cr st).

Theorem struct_without_members_rejected pre s post :
  wf_doc_with T (pre ++ IDecl (DStruct s) :: post) = true ->
  let tl1 := tlines T st pre ++ comment_tlines [] (s_comment s) ++ map (PStmt []) (r_attrs T st CStruct (s_attrs s)) in
  exists pos, parse_with T (text_of (style_cr st) (tl1 ++ PStmt [] (r_struct_header T (s_disp s) (s_name s)) :: tlines T st post)) = Error pos
    /\ e_line pos = 1 + zlen tl1 + match post with [] => 0 | _ => 1 end.
Proof.
  intros Hwf tl1. set (cr := style_cr st). set (hdr := r_struct_header T (s_disp s) (s_name s)).
  assert (Hshape : cr_shape cr) by apply style_cr_shape.
  destruct (wf_doc_items T _ Hwf) as [Hitems [Hadj _]]. pose proof Hitems as Hitems0.
  rewrite forallb_app in Hitems. apply andb_true_iff in Hitems as [Hpre Hrest]. cbn [forallb] in Hrest. apply andb_true_iff in Hrest as [Hs Hpost].
  assert (Hpadj : wf_adjacent pre = true).
  { pose proof (wf_firstn T (length pre) _ Hitems0 Hadj) as [_ H].
    rewrite firstn_app, Nat.sub_diag, firstn_all in H. cbn [firstn] in H. rewrite app_nil_r in H. exact H. }
  assert (Hpostadj : wf_adjacent post = true) by (eapply wf_adjacent_tail; eapply wf_adjacent_app_r; exact Hadj).
  cbn [wf_item wf_decl] in Hs.
  apply andb_true_iff in Hs as [Hs _]. apply andb_true_iff in Hs as [Hs _]. apply andb_true_iff in Hs as [Hs Hattrs]. apply andb_true_iff in Hs as [Hname Hcmt].
  (* validity of the lines *)
  assert (Hok1 : forallb pline_ok tl1 = true).
  { subst tl1. rewrite !forallb_app, (tlines_ok T Hok st pre Hst Hpre), comment_tlines_ok, (stmt_ok_attrs T Hok) by (try reflexivity; exact Hattrs). reflexivity. }
  assert (Hok2 : forallb pline_ok (PStmt [] hdr :: tlines T st post) = true).
  { cbn [forallb]. subst hdr. rewrite (stmt_ok_struct_header T Hok _ _ Hname), (tlines_ok T Hok st post Hst Hpost). reflexivity. }
  assert (Hall : forallb pline_ok (tl1 ++ PStmt [] hdr :: tlines T st post) = true) by (rewrite forallb_app, Hok1, Hok2; reflexivity).
  assert (Hfirst : exists q tl', tl1 ++ PStmt [] hdr :: tlines T st post = q :: tl' /\ q <> PBlank).
  { destruct pre as [|it pre'].
    - subst tl1. cbn [tlines flat_map app]. unfold comment_tlines. destruct (clines (s_comment s)) as [|t ts]; cbn [map app].
      + destruct (r_attrs T st CStruct (s_attrs s)); cbn [map app]; eexists; eexists; (split; [reflexivity|discriminate]).
      + eexists. eexists. split; [reflexivity|discriminate].
    - destruct (first_line_not_blank T Hok st (it :: pre')) as [q [tl' [E Hq]]]; [unfold wf_doc_with; rewrite Hpre, Hpadj; reflexivity|].
      subst tl1. rewrite E. eexists. eexists. split; [reflexivity|exact Hq]. }
  destruct Hfirst as [q [tl' [E Hq]]].
  rewrite (parse_tagged T Hok cr _ q tl' Hshape Hall E Hq).
  (* the run *)
  set (attrs := attrs_list (s_attrs s)).
  assert (Hpeek_post : tpeek T (tlines T st post) = 0).
  { rewrite <- (app_nil_r (tlines T st post)). apply tpeek_tlines. reflexivity. }
  set (R := comment_tlines [] (s_comment s) ++ map (PStmt []) (r_attrs T st CStruct (s_attrs s)) ++ PStmt [] hdr :: tlines T st post).
  assert (HpeekR : tpeek T R = 0).
  { subst R. unfold comment_tlines. destruct (clines (s_comment s)); [|reflexivity]. cbn [map app]. apply tpeek_top_stmts. }
  destruct (doc_run T Hok Hmerged st Hst cr Hcr pre Hpre Hpadj [] None ltac:(destruct pre as [|[] ?]; cbn [item_pre]; auto) R HpeekR)
    as [LS [acc2 [pc2 [EG [HR _]]]]].
  assert (EGR : tgroup T cr R = comment_ls cr [] (s_comment s) 0 ++ map (fun a => ml (MStmt (r_attr T st CStruct a)) 0) attrs
                               ++ ml (MStmt hdr) 0 :: tgroup T cr (tlines T st post)).
  { subst R. rewrite tgroup_comment_opt; [| |apply (wf_comment_clines T Hok); exact Hcmt].
    2:{ rewrite r_attrs_list. destruct (attrs_list (s_attrs s)); reflexivity. }
    rewrite tgroup_stmts_top by reflexivity. rewrite r_attrs_list, (map_map (r_attr T st CStruct) (fun t => ml (MStmt t) 0)).
    cbn [tgroup]. rewrite Hpeek_post. unfold comment_ls. destruct (s_comment s); [|reflexivity].
    cbn [app]. rewrite tpeek_top_stmts. reflexivity. }
  set (G0 := LS ++ comment_ls cr [] (s_comment s) 0 ++ map (fun a => ml (MStmt (r_attr T st CStruct a)) 0) attrs).
  set (acc3 := acc2 ++ match s_comment s with Some _ => opt_comment pc2 | None => [] end).
  set (pc3 := match s_comment s with Some _ => s_comment s | None => pc2 end).
  assert (HR0 : reaches T (STop [] None PaNone, [0]) G0 (STop acc3 pc3 (pa_of CStruct attrs), [0])).
  { subst G0. eapply reaches_trans; [exact HR|]. eapply reaches_trans; [apply (reach_comment_ls_top T Hok cr Hcr); exact Hcmt|].
    apply (reach_attrs T Hok Hmerged st acc3 pc3 CStruct attrs ltac:(discriminate) (wf_attrs_list T CStruct _ Hattrs) []). }
  assert (Etl : tgroup T cr (tl1 ++ PStmt [] hdr :: tlines T st post) = G0 ++ ml (MStmt hdr) 0 :: tgroup T cr (tlines T st post)).
  { subst tl1 G0. rewrite <- !app_assoc. fold R. rewrite EG, EGR, <- ?app_assoc. reflexivity. }
  set (h := {| h_name := s_name s; h_disp := s_disp s; h_attrs := pa_list (pa_of CStruct attrs); h_comment := pc3 |}).
  assert (Hstep : forall ac i rest, machine T (STop acc3 pc3 (pa_of CStruct attrs)) [0] ac i (ml (MStmt hdr) 0 :: rest)
                                   = machine T (SOpenS acc3 h) [0] false (S i) rest).
  { intros ac i rest. apply (machine_step T _ _ ac i (ml (MStmt hdr) 0) rest (SOpenS acc3 h) 0 (SOpenS acc3 h) [0]); [|reflexivity|apply on_indent_same; reflexivity].
    cbn [ml m_body deliver on_stmt]. subst hdr. unfold r_struct_header.
    rewrite (top_struct_ok T Hok Hmerged ac _ (s_disp s) (s_name s) (pa_struct_ok_of attrs) Hname). reflexivity. }
  destruct (HR0 (ml (MStmt hdr) 0 :: tgroup T cr (tlines T st post)) false 0%nat) as [ac0 Hm0]. cbn [fst snd Nat.add] in Hm0.
  (* positions *)
  destruct (group_split T Hok cr tl1 Hshape Hok1 (PStmt [] hdr :: tlines T st post) 1 Hok2 eq_refl) as [GP1 [EGP _]].
  destruct (group_head_stmt_end cr [] hdr (tlines T st post) (1 + Z.of_nat (length tl1)) Hshape Hok2) as [Lh [GPp [ELh [HLh1 HLh2]]]].
  assert (Hlen : length GP1 = length G0).
  { assert (M1 : map l_m (GP1 ++ Lh :: GPp) = tgroup T cr (tl1 ++ PStmt [] hdr :: tlines T st post)).
    { rewrite <- ELh, <- EGP, group_mgroup. apply (mgroup_tagged T Hok); assumption. }
    assert (M2 : map l_m (Lh :: GPp) = tgroup T cr (PStmt [] hdr :: tlines T st post)).
    { rewrite <- ELh, group_mgroup. apply (mgroup_tagged T Hok); assumption. }
    rewrite map_app, M2, Etl in M1. cbn [tgroup] in M1. rewrite Hpeek_post in M1. apply app_inv_tail in M1.
    rewrite <- M1. apply eq_sym, map_length. }
  unfold machine0. rewrite Etl, Hm0, Hstep, EGP, ELh.
  destruct post as [|it post'].
  - cbn [tlines flat_map tgroup machine eof_dedents]. eexists. split; [reflexivity|]. cbn [pred].
    unfold pos_of. rewrite <- Hlen, nth_error_app2, Nat.sub_diag by apply le_n. cbn [nth_error e_line]. rewrite HLh2. unfold zlen.
    rewrite Z.add_0_r. reflexivity.
  - (* the next logical line is refused in the state that expects an indented block *)
    destruct (first_line_not_blank T Hok st (it :: post')) as [q2 [tl2 [E2 Hq2]]]; [unfold wf_doc_with; rewrite Hpost, Hpostadj; reflexivity|].
    assert (Hok3 : forallb pline_ok (q2 :: tl2) = true) by (rewrite <- E2; apply (tlines_ok T Hok st _ Hst Hpost)).
    assert (Hg2 : exists L2 r2, tgroup T cr (q2 :: tl2) = L2 :: r2).
    { destruct q2 as [|i2 t2|i2 c2]; [contradiction| |].
      - cbn [tgroup]. destruct (tnext_comment tl2) eqn:En; [|eexists; eexists; reflexivity].
        assert (Hne : tgroup T cr tl2 <> []).
        { destruct (tgroup_split T cr tl2 0) as [G HG]. destruct (HG [] eq_refl eq_refl) as [EGx Hne]. rewrite app_nil_r in EGx. rewrite EGx.
          cbn [tgroup]. rewrite app_nil_r. apply Hne. exact En. }
        destruct (tgroup T cr tl2) as [|[[lines|core] nx] g]; [contradiction|eexists; eexists; reflexivity|eexists; eexists; reflexivity].
      - eexists. eexists. reflexivity. }
    destruct Hg2 as [L2 [r2 Eg2]].
    (* the header lline is followed by the llines of post *)
    assert (EGPp : GPp = group T (1 + Z.of_nat (length tl1) + 1) (phys cr (q2 :: tl2)) []).
    { cbn [phys map group] in ELh. rewrite (classify_tagged T Hok cr (PStmt [] hdr) Hshape) in ELh by (cbn [forallb] in Hok2; apply andb_true_iff in Hok2 as [H _]; exact H).
      rewrite <- E2. inversion ELh. reflexivity. }
    destruct (group_head_line cr q2 tl2 (1 + Z.of_nat (length tl1) + 1) Hshape Hok3 Hq2) as [Ln [rn [ELn HLn]]].
    rewrite E2, Eg2. cbn [machine].
    assert (Hd : exists d, deliver T (SOpenS acc3 h) false (m_body L2) = SErr d /\ (d = DComment \/ exists k, d = DStmt k)).
    { destruct (m_body L2) as [lines|core]; [exists DComment; split; [reflexivity|left; reflexivity]|].
      exists (DStmt (length core)). split; [reflexivity|right; eexists; reflexivity]. }
    destruct Hd as [d [Hd Hkind]]. rewrite Hd. eexists. split; [reflexivity|].
    unfold pos_of. rewrite EGPp, ELn.
    cbn [Nat.add]. rewrite <- Hlen.
    replace (GP1 ++ Lh :: Ln :: rn) with ((GP1 ++ [Lh]) ++ Ln :: rn) by (rewrite <- app_assoc; reflexivity).
    assert (Hl1 : length (GP1 ++ [Lh]) = S (length GP1)) by (rewrite app_length; cbn [length]; apply Nat.add_1_r).
    rewrite nth_error_app2 by (rewrite Hl1; apply le_n). rewrite Hl1, Nat.sub_diag. cbn [nth_error].
    destruct Hkind as [->|[k ->]]; cbn [e_line]; rewrite HLn; unfold zlen; reflexivity.
Qed.
End StructBody.

(* --- contents that are rejected in every state of the automaton *)
Definition rejected_everywhere (c' : list Z) : Prop := forall S ac, exists n, on_stmt T S ac c' = SErr (DStmt n).

Lemma rejected_everywhere_intro c' :
  (forall ctx ac, exists s, parse_top_line T ctx ac c' = LErr s) ->
  (forall pa ac, exists s, parse_member_line T pa ac c' = LErr s) ->
  (exists s, parse_enum_line T c' = LErr s) ->
  rejected_everywhere c'.
Proof.
  intros Htop Hmem Henum S ac. destruct S as [acc pc pa|acc h|acc h|acc h fields pc pa|acc h vals pc]; cbn [on_stmt].
  - destruct (Htop (pa_ctx pa) ac) as [s E]. rewrite E. eexists. reflexivity.
  - eexists. reflexivity.
  - eexists. reflexivity.
  - destruct (Hmem (match pa with Some _ => true | None => false end) ac) as [s E]. rewrite E. eexists. reflexivity.
  - destruct Henum as [s E]. rewrite E. eexists. reflexivity.
Qed.

Section Everywhere.
Hypothesis Hmerged : comment_merged T = false.

Lemma find_attr_capital ctx r : find_attr (attr_tables T ctx) (81 :: r) = None.
Proof.
  assert (Hgen : forall tables, (forall c k names n, In (c, k, names) tables -> In n names -> kw_ok n = true) -> find_attr tables (81 :: r) = None).
  { induction tables as [|[[c k] names] tables IH]; intro Hk; [reflexivity|]. cbn [find_attr].
    rewrite first_prefix_none.
    - apply IH. intros c1 k1 names1 n1 Hin Hn1. eapply Hk; [right; exact Hin|exact Hn1].
    - intros n1 Hn1. specialize (Hk c k names n1 (or_introl eq_refl) Hn1). destruct (kw_shape n1 Hk) as [x [xr [-> [Hx _]]]].
      cbn [strip_prefix]. destruct (x =? 81) eqn:E; [|reflexivity]. apply Z.eqb_eq in E. subst x. discriminate. }
  apply Hgen. intros c k names n Hin Hn1. apply (kw_in T Hok).
  unfold all_kws, struct_attr_names, field_attr_names. repeat rewrite in_app_iff. cbn [In].
  destruct ctx as [[| |]|]; unfold attr_tables in Hin; cbn [app In] in Hin;
    repeat (destruct Hin as [Hin|Hin]; [inversion Hin; subst; tauto|]); contradiction.
Qed.

Lemma attr_capital_top ctx ac r : parse_top_line T ctx ac (64 :: 81 :: r) = LErr (81 :: r).
Proof.
  unfold parse_top_line. rewrite Hmerged. cbn [andb skip_ws]. replace (is_ws 64) with false by reflexivity.
  cbn [strip_prefix]. replace (64 =? 64) with true by reflexivity. unfold p_attr. cbn [skip_ws]. replace (is_ws 81) with false by reflexivity.
  rewrite find_attr_capital. reflexivity.
Qed.
Lemma attr_capital_member pa ac r : parse_member_line T pa ac (64 :: 81 :: r) = LErr (81 :: r).
Proof.
  unfold parse_member_line. rewrite Hmerged. cbn [andb skip_ws]. replace (is_ws 64) with false by reflexivity.
  cbn [strip_prefix]. replace (64 =? 64) with true by reflexivity. unfold p_attr. cbn [skip_ws]. replace (is_ws 81) with false by reflexivity.
  rewrite find_attr_capital. reflexivity.
Qed.
Lemma attr_capital_enum r : parse_enum_line T (64 :: 81 :: r) = LErr (64 :: 81 :: r).
Proof. unfold parse_enum_line, tok. cbn [skip_ws]. replace (is_ws 64) with false by reflexivity. reflexivity. Qed.

Theorem unknown_attribute_rejected_everywhere r : rejected_everywhere (64 :: 81 :: r).
Proof.
  apply rejected_everywhere_intro.
  - intros ctx ac. eexists. apply attr_capital_top.
  - intros pa ac. eexists. apply attr_capital_member.
  - eexists. apply attr_capital_enum.
Qed.

(* lines without capital letters and quotes are never top-level statements *)
Definition no_up_quote (c : list Z) : bool := forallb (fun x => negb (is_upper x) && negb (x =? 34)) c.

Lemma nuq_strip k s r : strip_prefix k s = Some r -> no_up_quote s = true -> no_up_quote r = true.
Proof.
  revert s. induction k as [|a k IH]; intros s H Hs; cbn [strip_prefix] in H; [inversion H; subst; exact Hs|].
  destruct s as [|b s]; [discriminate|]. destruct (a =? b); [|discriminate]. cbn [no_up_quote forallb] in Hs. apply andb_true_iff in Hs as [_ Hs].
  exact (IH s H Hs).
Qed.
Lemma nuq_first ks s k r : first_prefix ks s = Some (k, r) -> no_up_quote s = true -> no_up_quote r = true.
Proof.
  induction ks as [|k0 ks IH]; cbn [first_prefix]; [discriminate|]. destruct (strip_prefix k0 s) as [r0|] eqn:E.
  - intros H Hs. inversion H; subst. exact (nuq_strip _ _ _ E Hs).
  - exact IH.
Qed.
Lemma nuq_skip s : no_up_quote s = true -> no_up_quote (skip_ws s) = true.
Proof. induction s as [|c s IH]; intro H; [reflexivity|]. cbn [skip_ws]. destruct (is_ws c); [|exact H]. cbn [no_up_quote forallb] in H. apply andb_true_iff in H as [_ H]. auto. Qed.

Lemma tok_type_fail r : no_up_quote r = true -> exists s, tok (raw_type T) r = LErr s.
Proof.
  intro H. apply nuq_skip in H. unfold tok. destruct (skip_ws r) as [|x t]; [eexists; reflexivity|].
  cbn [no_up_quote forallb] in H. apply andb_true_iff in H as [Hx _]. apply andb_true_iff in Hx as [Hx _]. apply negb_true_iff in Hx.
  unfold raw_type. cbn [lex_class]. rewrite Hx. eexists. reflexivity.
Qed.
Lemma tok_string_fail r : no_up_quote r = true -> exists s, tok raw_string r = LErr s.
Proof.
  intro H. apply nuq_skip in H. unfold tok. destruct (skip_ws r) as [|x t]; [eexists; reflexivity|].
  cbn [no_up_quote forallb] in H. apply andb_true_iff in H as [Hx _]. apply andb_true_iff in Hx as [_ Hx]. apply negb_true_iff in Hx.
  cbn [raw_string]. rewrite Hx. eexists. reflexivity.
Qed.

Lemma top_lower_rejected ctx ac c h : head_is h c = true -> is_lower h = true -> no_up_quote c = true ->
  exists s, parse_top_line T ctx ac c = LErr s.
Proof.
  intros Hh Hl Hc. unfold parse_top_line. rewrite Hmerged. cbn [andb].
  rewrite (skip_ws_head h c Hh (lower_not_ws h Hl)), (strip_at_lower h c Hh Hl).
  destruct (if match ctx with None => true | _ => false end then strip_prefix (kw_import T) c else None) as [r|] eqn:E1.
  { assert (Hr : no_up_quote r = true) by (destruct ctx; [discriminate|exact (nuq_strip _ _ _ E1 Hc)]).
    destruct (tok_string_fail r Hr) as [s Es]. rewrite Es. eexists. reflexivity. }
  destruct (if match ctx with None => true | _ => false end then strip_prefix (kw_using T) c else None) as [r|] eqn:E2.
  { assert (Hr : no_up_quote r = true) by (destruct ctx; [discriminate|exact (nuq_strip _ _ _ E2 Hc)]).
    destruct (tok_type_fail r Hr) as [s Es]. rewrite Es. eexists. reflexivity. }
  destruct (if match ctx with None => true | _ => false end || match ctx with Some CEnum => true | _ => false end
            then strip_prefix (kw_enum T) c else None) as [r|] eqn:E3.
  { assert (Hr : no_up_quote r = true).
    { destruct (match ctx with None => true | _ => false end || match ctx with Some CEnum => true | _ => false end); [|discriminate].
      exact (nuq_strip _ _ _ E3 Hc). }
    destruct (tok_type_fail r Hr) as [s Es]. rewrite Es. eexists. reflexivity. }
  destruct (match ctx with None => true | _ => false end || match ctx with Some CStruct => true | _ => false end); [|eexists; reflexivity].
  destruct (first_prefix (struct_modifiers T) c) as [[m r]|] eqn:E4.
  - pose proof (nuq_first _ _ _ _ E4 Hc) as Hr. unfold expect. destruct (strip_prefix (kw_struct T) (skip_ws r)) as [r2|] eqn:E5; [|eexists; reflexivity].
    cbn [lbind]. destruct (tok_type_fail r2 (nuq_strip _ _ _ E5 (nuq_skip _ Hr))) as [s Es]. rewrite Es. eexists. reflexivity.
  - unfold expect. destruct (strip_prefix (kw_struct T) (skip_ws c)) as [r2|] eqn:E5; [|eexists; reflexivity].
    cbn [lbind]. destruct (tok_type_fail r2 (nuq_strip _ _ _ E5 (nuq_skip _ Hc))) as [s Es]. rewrite Es. eexists. reflexivity.
Qed.

Lemma enum_lower_rejected c h : head_is h c = true -> is_lower h = true -> parse_enum_line T c = LErr c.
Proof.
  intros Hh Hl. unfold parse_enum_line, tok. rewrite (skip_ws_head h c Hh (lower_not_ws h Hl)).
  unfold raw_const. rewrite (lex_class_none _ _ _ _ c h Hh (lower_not_upper h Hl)). reflexivity.
Qed.

(* --- any statement line of a rendered document replaced by a content that is rejected everywhere *)
Theorem statement_line_replaced st ds k ind c c' :
  (st_crlf st = true -> in_set (comment_strip T) 13 = true) -> wf_style st = true -> wf_doc_with T ds = true ->
  nth_error (tlines T st ds) k = Some (PStmt ind c) -> pline_ok (PStmt ind c') = true ->
  (forall S ac u, on_stmt T S ac c = SOk u -> exists n, on_stmt T S ac c' = SErr (DStmt n)) ->
  exists pos, parse_with T (text_of (style_cr st) (replace_stmt k c' (tlines T st ds))) = Error pos /\ e_line pos = 1 + Z.of_nat k.
Proof.
  intros Hcrlf Hst Hwf Hnth Hc' Hrej.
  destruct (nth_error_split _ _ Hnth) as [tl1 [rest [E Hlen]]]. destruct (wf_doc_items T ds Hwf) as [Hitems _].
  pose proof (tlines_ok T Hok st ds Hst Hitems) as Hall. rewrite E in Hall.
  rewrite E, <- Hlen, (replace_stmt_at T Hok).
  apply (line_replaced (style_cr st) tl1 ind c c' rest ds (style_cr_shape st) Hall Hc').
  - intros q l Eq. destruct (first_line_not_blank T Hok st ds Hwf) as [p [tl' [Ep Hp]]]. rewrite E, Eq in Ep. cbn [app] in Ep.
    inversion Ep. subst. exact Hp.
  - rewrite <- E. apply machine_render; assumption.
  - exact Hrej.
Qed.

(* --- unsupported width on a member line `name = [u]intW` *)
Lemma nuq_app a b : no_up_quote (a ++ b) = no_up_quote a && no_up_quote b.
Proof. apply forallb_app. Qed.
Lemma nuq_forall (P : Z -> bool) l : (forall x, P x = true -> negb (is_upper x) && negb (x =? 34) = true) -> forallb P l = true -> no_up_quote l = true.
Proof. intros HP H. apply forallb_forall. intros x Hx. rewrite forallb_forall in H. apply HP, H, Hx. Qed.
Lemma nuq_kw k : kw_ok k = true -> no_up_quote k = true.
Proof.
  intro H. destruct (kw_shape k H) as [c [r [-> [Hc Hr]]]]. cbn [no_up_quote forallb].
  assert (Hc' : negb (is_upper c) && negb (c =? 34) = true) by (unfold is_lower, is_upper in *; lia). rewrite Hc'. cbn [andb].
  refine (nuq_forall prop_rest r _ Hr). intros x Hx. unfold prop_rest, is_lower, is_digit, is_upper in *. lia.
Qed.
Lemma nuq_prop n : wf_prop T n = true -> no_up_quote (of_string n) = true.
Proof.
  unfold wf_prop, wf_name. destruct (of_string n) as [|c b]; [discriminate|]. intro H. apply andb_true_iff in H as [Hc H]. apply andb_true_iff in H as [Hb _].
  cbn [no_up_quote forallb]. assert (Hc' : negb (is_upper c) && negb (c =? 34) = true) by (unfold is_lower, is_upper in *; lia). rewrite Hc'. cbn [andb].
  refine (nuq_forall prop_rest b _ Hb). intros x Hx. unfold prop_rest, is_lower, is_digit, is_upper in *. lia.
Qed.
Lemma nuq_int_prefix i : no_up_quote (int_prefix T i) = true.
Proof.
  unfold int_prefix. rewrite nuq_app, (nuq_kw _ (kwok_int T Hok)), andb_true_r. destruct (it_unsigned i); [|reflexivity].
  rewrite (ok_uprefix T Hok). cbn [no_up_quote forallb]. pose proof (ok_uchar_lower T Hok) as Hl. unfold is_lower, is_upper in *. lia.
Qed.

Section BadWidth.
Variable w : list Z.
Hypothesis Hw : forallb (fun x => negb (is_prefix x w)) (int_widths T) = true.

Lemma int_prefix_in_heads i : In (int_prefix T i) (int_heads T).
Proof. unfold int_prefix, int_heads. destruct (it_unsigned i); [left; reflexivity|right; left; reflexivity]. Qed.

Lemma bad_width_intty i : raw_intty T (int_prefix T i ++ w) = None.
Proof.
  assert (Hnone : first_prefix (int_widths T) w = None).
  { apply first_prefix_none. intros k Hk. rewrite forallb_forall in Hw. specialize (Hw k Hk). apply negb_true_iff in Hw.
    unfold is_prefix in Hw. destruct (strip_prefix k w); [discriminate|reflexivity]. }
  unfold raw_intty, int_prefix. destruct (it_unsigned i).
  - rewrite strip_prefix_app, Hnone. reflexivity.
  - cbn [app]. rewrite (ok_uprefix T Hok).
    assert (Hno : strip_prefix ([fsi_unsigned_char T] ++ int_kw T) (int_kw T ++ w) = None).
    { destruct (kw_shape _ (kwok_int T Hok)) as [k0 [kr [Ek _]]]. pose proof (ok_uchar T Hok) as Huc.
      rewrite Ek in *. cbn [head_is] in Huc. cbn [app strip_prefix]. rewrite Huc. reflexivity. }
    rewrite Hno, strip_prefix_app, Hnone. reflexivity.
Qed.

Lemma int_prefix_head i r : exists c, head_is c (int_prefix T i ++ r) = true /\ is_lower c = true.
Proof.
  unfold int_prefix. destruct (it_unsigned i).
  - rewrite (ok_uprefix T Hok). exists (fsi_unsigned_char T). cbn [app head_is]. rewrite Z.eqb_refl. split; [reflexivity|apply (ok_uchar_lower T Hok)].
  - cbn [app]. apply kw_head. apply (kwok_int T Hok).
Qed.

Lemma bad_width_field_tail i : p_field_tail T (32 :: int_prefix T i ++ w) = LErr (int_prefix T i ++ w).
Proof.
  destruct (int_prefix_head i w) as [c [Hh Hc]]. unfold p_field_tail. rewrite skip_ws_sp, (skip_ws_head c _ Hh (lower_not_ws c Hc)).
  unfold raw_type. rewrite (lex_class_none _ _ _ _ _ c Hh (lower_not_upper c Hc)), bad_width_intty.
  rewrite (cf_strip (kw_array T) (int_prefix T i) w) by (apply (cf_field_kw T Hok); [cbn [In]; tauto|apply int_prefix_in_heads]).
  reflexivity.
Qed.

Lemma member_bad_width pa ac n i : wf_prop T n = true ->
  exists s, parse_member_line T pa ac (of_string n ++ [32; 61; 32] ++ int_prefix T i ++ w) = LErr s.
Proof.
  intro Hn. unfold parse_member_line. rewrite Hmerged. cbn [andb].
  destruct (member_head_prop T Hok n ([32; 61; 32] ++ int_prefix T i ++ w) Hn) as [H1 [H2 H3]].
  rewrite H1, H2, H3. unfold raw_prop. rewrite lex_class_ok1 by (try exact Hn; reflexivity).
  destruct (negb pa && list_eqb (of_string n) (kw_inline_member T)).
  - unfold tok. cbn [app skip_ws]. replace (is_ws 32) with true by reflexivity. replace (is_ws 61) with false by reflexivity.
    unfold raw_type. cbn [lex_class]. replace (is_upper 61) with false by reflexivity. eexists. reflexivity.
  - cbn [app]. rewrite expect_sp, expect_lit by reflexivity. cbn [lbind]. rewrite bad_width_field_tail. cbn [lbind].
    destruct pa; [eexists; reflexivity|]. destruct (int_prefix_head i w) as [c [Hh Hc]].
    rewrite skip_ws_sp, (skip_ws_head c _ Hh (lower_not_ws c Hc)).
    rewrite !(cf_strip _ (int_prefix T i) w) by (apply (cf_field_kw T Hok); [cbn [In]; tauto|apply int_prefix_in_heads]).
    eexists. reflexivity.
Qed.

Theorem width_member_rejected_everywhere n i : wf_prop T n = true -> no_up_quote w = true ->
  rejected_everywhere (of_string n ++ [32; 61; 32] ++ int_prefix T i ++ w).
Proof.
  intros Hn Hnw. destruct (prop_head T n ([32; 61; 32] ++ int_prefix T i ++ w) Hn) as [h [Hh Hl]].
  apply rejected_everywhere_intro.
  - intros ctx ac. apply (top_lower_rejected ctx ac _ h Hh Hl).
    rewrite !nuq_app, (nuq_prop n Hn), nuq_int_prefix, Hnw. reflexivity.
  - intros pa ac. apply member_bad_width. exact Hn.
  - eexists. apply (enum_lower_rejected _ h Hh Hl).
Qed.

Lemma pline_ok_width_member ind n i : ws_only ind = true -> wf_prop T n = true -> plainc w = true ->
  pline_ok (PStmt ind (of_string n ++ [32; 61; 32] ++ int_prefix T i ++ w)) = true.
Proof.
  intros Hi Hn Hp. cbn [pline_ok]. rewrite Hi. destruct (prop_head T n ([32; 61; 32] ++ int_prefix T i ++ w) Hn) as [h [Hh Hl]].
  rewrite (head_stmt_lower T Hok h _ Hh Hl). rewrite !plainc_app, (plainc_prop T Hok n Hn), (plainc_int_prefix T Hok i), Hp. reflexivity.
Qed.
End BadWidth.

(* --- a type name in lower case: `using foo = ...`, `enum foo : ...`, `[modifier] struct foo` are rejected everywhere *)
Lemma tok_type_lower l rest : is_lower l = true -> tok (raw_type T) (32 :: l :: rest) = LErr (l :: rest).
Proof.
  intro Hl. unfold tok. cbn [skip_ws]. replace (is_ws 32) with true by reflexivity. rewrite (lower_not_ws l Hl).
  unfold raw_type. cbn [lex_class]. rewrite (lower_not_upper l Hl). reflexivity.
Qed.

Lemma strip_vp_kw W r : kw_ok W = true -> strip_prefix (value_placeholder T) (W ++ r) = None.
Proof.
  intro HW. destruct (kw_head W r HW) as [c [Hh Hc]]. pose proof (ph_head (value_placeholder T) [] (ok_value T Hok)) as Hv. rewrite app_nil_r in Hv.
  eapply strip_prefix_head; [exact Hv|exact Hh|]. intro E. subst. discriminate.
Qed.

Lemma member_word_lower pa ac W y rest : kw_ok W = true -> is_lower y = true ->
  exists s, parse_member_line T pa ac (W ++ 32 :: y :: rest) = LErr s.
Proof.
  intros HW Hy. unfold parse_member_line. rewrite Hmerged. cbn [andb].
  destruct (kw_head W (32 :: y :: rest) HW) as [c [Hh Hc]].
  rewrite (skip_ws_kw W _ HW), (strip_at_lower c _ Hh Hc), (strip_vp_kw W _ HW).
  destruct (kw_shape W HW) as [x [xr [EW [Hx Hxr]]]].
  assert (Hprop : raw_prop T (W ++ 32 :: y :: rest) = if (prop_rep_min T <=? length xr)%nat then Some (W, 32 :: y :: rest) else None).
  { rewrite EW. unfold raw_prop. cbn [app lex_class]. rewrite Hx, (span_app prop_rest xr (32 :: y :: rest) Hxr) by reflexivity. reflexivity. }
  rewrite Hprop. destruct (prop_rep_min T <=? length xr)%nat.
  - destruct (negb pa && list_eqb W (kw_inline_member T)).
    + rewrite (tok_type_lower y rest Hy). eexists. reflexivity.
    + unfold expect. cbn [skip_ws]. replace (is_ws 32) with true by reflexivity. rewrite (lower_not_ws y Hy). cbn [strip_prefix].
      assert (E61 : (61 =? y) = false) by (unfold is_lower in Hy; lia). rewrite E61. eexists. reflexivity.
  - destruct pa; [eexists; reflexivity|]. unfold raw_const. rewrite (lex_class_none _ _ _ _ _ c Hh (lower_not_upper c Hc)). eexists. reflexivity.
Qed.

Ltac by_ctx ctx := destruct ctx as [[| |]|]; cbn [orb].

Lemma top_using_lower ctx ac l rest : is_lower l = true -> exists s, parse_top_line T ctx ac (kw_using T ++ 32 :: l :: rest) = LErr s.
Proof.
  intro Hl. unfold parse_top_line. rewrite Hmerged. cbn [andb].
  destruct (kw_head (kw_using T) (32 :: l :: rest) (kwok_using T Hok)) as [c [Hh Hc]].
  rewrite (skip_ws_kw _ _ (kwok_using T Hok)), (strip_at_lower c _ Hh Hc).
  assert (Fi : strip_prefix (kw_import T) (kw_using T ++ 32 :: l :: rest) = None) by (apply cf_strip, (cf_import_x T Hok); cbn; tauto).
  assert (Fe : strip_prefix (kw_enum T) (kw_using T ++ 32 :: l :: rest) = None) by (apply cf_strip; rewrite cf_sym; apply (cf_using_x T Hok); cbn; tauto).
  assert (Fs : strip_prefix (kw_struct T) (kw_using T ++ 32 :: l :: rest) = None) by (apply cf_strip; rewrite cf_sym; apply (cf_using_x T Hok); cbn; tauto).
  assert (Fm : first_prefix (struct_modifiers T) (kw_using T ++ 32 :: l :: rest) = None).
  { apply first_prefix_cf. apply forallb_forall. intros m Hm. apply (cf_using_x T Hok). apply in_or_app. right. exact Hm. }
  by_ctx ctx; rewrite ?Fi, ?Fe, ?strip_prefix_app, ?Fm; try (eexists; reflexivity).
  - unfold expect. rewrite (skip_ws_kw _ _ (kwok_using T Hok)), Fs. eexists. reflexivity.
  - rewrite (tok_type_lower l rest Hl). eexists. reflexivity.
Qed.

Lemma top_enum_lower ctx ac l rest : is_lower l = true -> exists s, parse_top_line T ctx ac (kw_enum T ++ 32 :: l :: rest) = LErr s.
Proof.
  intro Hl. unfold parse_top_line. rewrite Hmerged. cbn [andb].
  destruct (kw_head (kw_enum T) (32 :: l :: rest) (kwok_enum T Hok)) as [c [Hh Hc]].
  rewrite (skip_ws_kw _ _ (kwok_enum T Hok)), (strip_at_lower c _ Hh Hc).
  assert (Fi : strip_prefix (kw_import T) (kw_enum T ++ 32 :: l :: rest) = None) by (apply cf_strip, (cf_import_x T Hok); cbn; tauto).
  assert (Fu : strip_prefix (kw_using T) (kw_enum T ++ 32 :: l :: rest) = None) by (apply cf_strip, (cf_using_x T Hok); cbn; tauto).
  assert (Fs : strip_prefix (kw_struct T) (kw_enum T ++ 32 :: l :: rest) = None) by (apply cf_strip; rewrite cf_sym; apply (cf_enum_x T Hok); cbn; tauto).
  assert (Fm : first_prefix (struct_modifiers T) (kw_enum T ++ 32 :: l :: rest) = None).
  { apply first_prefix_cf. apply forallb_forall. intros m Hm. apply (cf_enum_x T Hok). apply in_or_app. right. exact Hm. }
  by_ctx ctx; rewrite ?Fi, ?Fu, ?strip_prefix_app, ?Fm; try rewrite (tok_type_lower l rest Hl); try (eexists; reflexivity).
  unfold expect. rewrite (skip_ws_kw _ _ (kwok_enum T Hok)), Fs. eexists. reflexivity.
Qed.

Lemma top_struct_lower ctx ac d l rest : is_lower l = true ->
  exists s, parse_top_line T ctx ac (modifier_text d ++ kw_struct T ++ 32 :: l :: rest) = LErr s.
Proof.
  intro Hl. unfold parse_top_line. rewrite Hmerged. cbn [andb].
  destruct (modifier_head T Hok d (32 :: l :: rest)) as [c [Hh Hc]].
  rewrite (skip_ws_head c _ Hh (lower_not_ws c Hc)), (strip_at_lower c _ Hh Hc).
  destruct (modifier_split T Hok d (32 :: l :: rest)) as [w0 [r' [Hw E]]].
  assert (Fi : strip_prefix (kw_import T) (modifier_text d ++ kw_struct T ++ 32 :: l :: rest) = None).
  { rewrite E. apply cf_strip, (cf_import_x T Hok). destruct Hw as [<-|Hw]; [cbn; tauto|]. apply in_or_app. right. exact Hw. }
  assert (Fu : strip_prefix (kw_using T) (modifier_text d ++ kw_struct T ++ 32 :: l :: rest) = None).
  { rewrite E. apply cf_strip, (cf_using_x T Hok). destruct Hw as [<-|Hw]; [cbn; tauto|]. apply in_or_app. right. exact Hw. }
  assert (Fe : strip_prefix (kw_enum T) (modifier_text d ++ kw_struct T ++ 32 :: l :: rest) = None).
  { rewrite E. apply cf_strip, (cf_enum_x T Hok). destruct Hw as [<-|Hw]; [cbn; tauto|]. apply in_or_app. right. exact Hw. }
  assert (Hbranch : (let (d0, s1) := match first_prefix (struct_modifiers T) (modifier_text d ++ kw_struct T ++ 32 :: l :: rest) with
                                     | Some (m, r) => (sdisp_of m, r)
                                     | None => (SdNone, modifier_text d ++ kw_struct T ++ 32 :: l :: rest)
                                     end in
                     let* (_, r) := expect (kw_struct T) s1 in let* (n, r) := tok (raw_type T) r in finish (TStructHdr d0 (to_str n)) r)
                    = LErr (l :: rest)).
  { destruct d; cbn [modifier_text app].
    - rewrite first_prefix_cf by apply (cf_struct_mods T Hok). rewrite (expect_kw _ _ (kwok_struct T Hok)). cbn [lbind].
      rewrite (tok_type_lower l rest Hl). reflexivity.
    - rewrite <- app_assoc. rewrite (first_prefix_in _ _ _ (pw_mods T Hok) (In_abstract T Hok)). cbn [app]. rewrite expect_sp, (expect_kw _ _ (kwok_struct T Hok)).
      cbn [lbind]. rewrite (tok_type_lower l rest Hl). reflexivity.
    - rewrite <- app_assoc. rewrite (first_prefix_in _ _ _ (pw_mods T Hok) (In_inline T Hok)). cbn [app]. rewrite expect_sp, (expect_kw _ _ (kwok_struct T Hok)).
      cbn [lbind]. rewrite (tok_type_lower l rest Hl). reflexivity. }
  by_ctx ctx; rewrite ?Fi, ?Fu, ?Fe, ?Hbranch; eexists; reflexivity.
Qed.

Definition lower_name (n : string) : list Z := lower_first (of_string n).
Lemma lower_name_shape n : wf_type T n = true -> exists l b, lower_name n = l :: b /\ is_lower l = true /\ plainc (lower_name n) = true.
Proof.
  intro Hn. pose proof (plainc_type T Hok n Hn) as Hp. destruct (wf_name_head _ _ _ _ _ Hn) as [c [b [E Hc]]]. unfold lower_name. rewrite E in *.
  exists (c + 32), b. split; [reflexivity|]. split; [unfold is_upper, is_lower in *; lia|].
  cbn [lower_first plainc forallb] in *. apply andb_true_iff in Hp as [_ Hb]. rewrite Hb, andb_true_r. unfold is_upper in Hc. lia.
Qed.

(* the three statement forms that carry a type name, with the name in lower case, followed by the rest of the original line *)
Inductive type_line := TLUsing | TLEnum | TLStruct (d : sdisp).
Definition type_line_head (k : type_line) : list Z :=
  match k with TLUsing => kw_using T | TLEnum => kw_enum T | TLStruct d => modifier_text d ++ kw_struct T end.

Theorem lower_type_name_rejected_everywhere k n rest : wf_type T n = true ->
  rejected_everywhere (type_line_head k ++ [32] ++ lower_name n ++ rest).
Proof.
  intro Hn. destruct (lower_name_shape n Hn) as [l [b [E [Hl _]]]]. rewrite E. cbn [app].
  apply rejected_everywhere_intro.
  - intros ctx ac. destruct k as [| |d]; cbn [type_line_head].
    + apply top_using_lower. exact Hl.
    + apply top_enum_lower. exact Hl.
    + rewrite <- app_assoc. apply top_struct_lower. exact Hl.
  - intros pa ac. destruct k as [| |d]; cbn [type_line_head].
    + apply member_word_lower; [apply (kwok_using T Hok)|exact Hl].
    + apply member_word_lower; [apply (kwok_enum T Hok)|exact Hl].
    + destruct d; cbn [modifier_text app].
      * apply member_word_lower; [apply (kwok_struct T Hok)|exact Hl].
      * rewrite <- app_assoc. cbn [app]. destruct (kw_shape _ (kwok_struct T Hok)) as [x [xr [Ex [Hx _]]]]. rewrite Ex. cbn [app].
        apply (member_word_lower pa ac code_abstract x); [reflexivity|exact Hx].
      * rewrite <- app_assoc. cbn [app]. destruct (kw_shape _ (kwok_struct T Hok)) as [x [xr [Ex [Hx _]]]]. rewrite Ex. cbn [app].
        apply (member_word_lower pa ac code_inline x); [reflexivity|exact Hx].
  - assert (Hhead : exists h, head_is h (type_line_head k ++ 32 :: (l :: b) ++ rest) = true /\ is_lower h = true).
    { destruct k as [| |d]; cbn [type_line_head].
      - apply kw_head, (kwok_using T Hok).
      - apply kw_head, (kwok_enum T Hok).
      - rewrite <- app_assoc. apply (modifier_head T Hok). }
    destruct Hhead as [h [Hh Hlh]]. eexists. apply (enum_lower_rejected _ h Hh Hlh).
Qed.

Lemma pline_ok_lower_type k n rest : wf_type T n = true -> plainc rest = true ->
  pline_ok (PStmt [] (type_line_head k ++ [32] ++ lower_name n ++ rest)) = true.
Proof.
  intros Hn Hr. destruct (lower_name_shape n Hn) as [l [b [E [Hl Hp]]]]. cbn [pline_ok ws_only forallb andb].
  assert (Hhead : exists h, head_is h (type_line_head k ++ [32] ++ lower_name n ++ rest) = true /\ is_lower h = true).
  { destruct k as [| |d]; cbn [type_line_head].
    - apply kw_head, (kwok_using T Hok).
    - apply kw_head, (kwok_enum T Hok).
    - rewrite <- app_assoc. apply (modifier_head T Hok). }
  destruct Hhead as [h [Hh Hlh]]. rewrite (head_stmt_lower T Hok h _ Hh Hlh). rewrite !plainc_app, Hp, Hr, !andb_true_r. cbn [andb].
  destruct k as [| |d]; cbn [type_line_head]; [apply (plainc_kw T Hok), (kwok_using T Hok)|apply (plainc_kw T Hok), (kwok_enum T Hok)|].
  rewrite plainc_app, (plainc_kw T Hok _ (kwok_struct T Hok)), andb_true_r. destruct d; reflexivity.
Qed.

(* --- deleting lines of a rendered document; the lines of a struct body *)
Definition delete_lines (a n : nat) (tl : list pline) : list pline := firstn a tl ++ skipn (a + n) tl.
Lemma delete_lines_at (A : list pline) x B C : delete_lines (length A + 1) (length B) (A ++ x :: B ++ C) = A ++ x :: C.
Proof.
  unfold delete_lines. replace (A ++ x :: B ++ C) with ((A ++ [x]) ++ B ++ C) by (rewrite <- app_assoc; reflexivity).
  replace (length A + 1)%nat with (length (A ++ [x])) by (rewrite app_length; reflexivity).
  rewrite firstn_app, Nat.sub_diag, firstn_all. cbn [firstn]. rewrite app_nil_r.
  rewrite skipn_app. replace (length (A ++ [x]) + length B - length (A ++ [x]))%nat with (length B) by lia.
  rewrite (skipn_all2 (A ++ [x])) by lia. cbn [app]. rewrite skipn_app, Nat.sub_diag, skipn_all. cbn [skipn app]. rewrite <- app_assoc. reflexivity.
Qed.

Definition struct_head_lines (st : style) (s : struct) : list pline :=
  comment_tlines [] (s_comment s) ++ map (PStmt []) (r_attrs T st CStruct (s_attrs s)).
Definition struct_body_lines (st : style) (s : struct) : list pline :=
  flat_map (member_tlines T st) (s_fields s) ++ blanks (st_blank_top st).
Lemma tlines_struct st pre s post :
  tlines T st (pre ++ IDecl (DStruct s) :: post)
  = (tlines T st pre ++ struct_head_lines st s) ++ PStmt [] (r_struct_header T (s_disp s) (s_name s)) :: struct_body_lines st s ++ tlines T st post.
Proof.
  unfold tlines, struct_head_lines, struct_body_lines. rewrite flat_map_app. cbn [flat_map].
  change (item_tlines T st (IDecl (DStruct s))) with (decl_tlines T st (DStruct s) ++ blanks (st_blank_top st)). cbn [decl_tlines].
  rewrite <- !app_assoc. reflexivity.
Qed.

(* --- a type name followed by a character that cannot be part of it (alias lines) *)
Lemma alias_name_suffix ac n ch rest : wf_type T n = true -> type_rest ch = false -> is_ws ch = false -> ch <> 61 ->
  parse_top_line T None ac (kw_using T ++ [32] ++ of_string n ++ ch :: rest) = LErr (ch :: rest).
Proof.
  intros Hn Hch Hws H61. unfold parse_top_line. rewrite Hmerged. cbn [andb].
  destruct (kw_head (kw_using T) ([32] ++ of_string n ++ ch :: rest) (kwok_using T Hok)) as [c0 [Hh0 Hc0]].
  rewrite (skip_ws_kw _ _ (kwok_using T Hok)), (strip_at_lower c0 _ Hh0 Hc0).
  rewrite (cf_strip (kw_import T) (kw_using T)) by (apply (cf_import_x T Hok); cbn; tauto).
  rewrite strip_prefix_app. cbn [app]. rewrite tok_sp, (tok_type_ok T) by (try exact Hn; cbn [stops]; rewrite Hch; reflexivity). cbn [lbind].
  unfold expect. cbn [skip_ws]. rewrite Hws. cbn [strip_prefix]. apply Z.eqb_neq in H61. rewrite Z.eqb_sym in H61. rewrite H61. reflexivity.
Qed.
Lemma pline_ok_name_suffix n ch rest : wf_type T n = true -> plainc (ch :: rest) = true ->
  pline_ok (PStmt [] (kw_using T ++ [32] ++ of_string n ++ ch :: rest)) = true.
Proof.
  intros Hn Hp. cbn [pline_ok ws_only forallb andb]. rewrite (head_stmt_kw T Hok _ _ (kwok_using T Hok)).
  rewrite !plainc_app, (plainc_kw T Hok _ (kwok_using T Hok)), (plainc_type T Hok n Hn), Hp. reflexivity.
Qed.
End Everywhere.
End Reject.
