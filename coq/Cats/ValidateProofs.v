(* Proofs about Cats/Validate.v: dict lemmas, the crash-free reading of the validator (`verrors`, `validate_total`), and the
   lemmas behind the theorems of Props/C06.v. *)
From Symv Require Import Cats.Validate.
From Coq Require Import Lia.
Open Scope string_scope.
Open Scope list_scope.

Ltac inv H := inversion H; subst; clear H.
#[local] Arguments String.eqb : simpl never.

Lemma eqb_refl' (s : string) : (s =? s) = true.
Proof. apply String.eqb_refl. Qed.

Lemma mem_In x l : mem x l = true <-> In x l.
Proof.
  unfold mem. rewrite existsb_exists. split.
  - intros [y [Hy He]]. apply String.eqb_eq in He. now subst.
  - intros H. exists x. split; [assumption | apply String.eqb_refl].
Qed.

Lemma mem_false x l : mem x l = false <-> ~ In x l.
Proof. rewrite <- mem_In. destruct (mem x l); split; intros; try congruence; exfalso; auto. Qed.

(* ------------------------------------------------------------------------------------------------------------------ *)
(* dicts *)
Section DictLemmas.
Context {A : Type}.
Implicit Types (d : list (string * A)) (k : string) (v : A).

Lemma dict_get_set_same d k v : dict_get (dict_set k v d) k = Some v.
Proof.
  induction d as [|[k' v'] r IH]; simpl.
  - now rewrite String.eqb_refl.
  - destruct (k' =? k) eqn:E; simpl; rewrite E; auto.
Qed.

Lemma dict_get_set_other d k k2 v : k <> k2 -> dict_get (dict_set k v d) k2 = dict_get d k2.
Proof.
  intros Hne. induction d as [|[k' v'] r IH]; simpl.
  - destruct (k =? k2) eqn:E; auto. apply String.eqb_eq in E. contradiction.
  - destruct (k' =? k) eqn:E; simpl.
    + apply String.eqb_eq in E. subst k'. destruct (k =? k2) eqn:E2; auto. apply String.eqb_eq in E2. contradiction.
    + destruct (k' =? k2); auto.
Qed.

Lemma dict_get_In d k v : dict_get d k = Some v -> In (k, v) d.
Proof.
  induction d as [|[k' v'] r IH]; simpl; [discriminate|].
  destruct (k' =? k) eqn:E.
  - intros H. inv H. apply String.eqb_eq in E. subst. now left.
  - intros H. right. auto.
Qed.

Lemma In_dict_get d k v : NoDup (map fst d) -> In (k, v) d -> dict_get d k = Some v.
Proof.
  induction d as [|[k' v'] r IH]; simpl; [tauto|].
  intros Hnd [H|H].
  - inv H. now rewrite String.eqb_refl.
  - inv Hnd. destruct (k' =? k) eqn:E.
    + apply String.eqb_eq in E. subst. exfalso. apply H2. change k with (fst (k, v)). now apply in_map.
    + auto.
Qed.

Lemma dict_set_keys_in d k v x : In x (map fst (dict_set k v d)) <-> x = k \/ In x (map fst d).
Proof.
  induction d as [|[k' v'] r IH]; simpl.
  - intuition.
  - destruct (k' =? k) eqn:E; simpl.
    + apply String.eqb_eq in E. subst. intuition.
    + rewrite IH. intuition.
Qed.

Lemma dict_set_nodup d k v : NoDup (map fst d) -> NoDup (map fst (dict_set k v d)).
Proof.
  induction d as [|[k' v'] r IH]; simpl; intros Hnd.
  - constructor; [simpl; tauto | constructor].
  - inv Hnd. destruct (k' =? k) eqn:E; simpl.
    + constructor; assumption.
    + constructor; [|auto]. rewrite dict_set_keys_in. intros [->|H]; [|contradiction].
      now rewrite String.eqb_refl in E.
Qed.

Lemma dict_set_In d k v x : In x (dict_set k v d) -> x = (k, v) \/ In x d.
Proof.
  induction d as [|[k' v'] r IH]; simpl.
  - intuition.
  - destruct (k' =? k) eqn:E; simpl.
    + apply String.eqb_eq in E. subst. intuition.
    + intros [H|H]; [auto|]. apply IH in H. intuition.
Qed.

Lemma fold_dict_nodup (l : list (string * A)) d :
  NoDup (map fst d) -> NoDup (map fst (fold_left (fun d kv => dict_set (fst kv) (snd kv) d) l d)).
Proof. revert d. induction l as [|[k v] r IH]; simpl; intros d H; [assumption|]. apply IH. now apply dict_set_nodup. Qed.

Lemma fold_dict_In (l : list (string * A)) d x :
  In x (fold_left (fun d kv => dict_set (fst kv) (snd kv) d) l d) -> In x l \/ In x d.
Proof.
  revert d. induction l as [|[k v] r IH]; simpl; intros d H; [auto|].
  apply IH in H. destruct H as [H|H]; [auto|]. apply dict_set_In in H. destruct H as [->|H]; auto.
Qed.

Lemma dict_of_pairs_nodup (l : list (string * A)) : NoDup (map fst (dict_of_pairs l)).
Proof. apply fold_dict_nodup. constructor. Qed.

Lemma dict_of_pairs_In (l : list (string * A)) x : In x (dict_of_pairs l) -> In x l.
Proof. intros H. apply fold_dict_In in H. destruct H as [H|[]]. assumption. Qed.

Lemma fold_dict_get (l : list (string * A)) d k :
  dict_get (fold_left (fun d kv => dict_set (fst kv) (snd kv) d) l d) k =
  match dict_get (rev l) k with Some v => Some v | None => dict_get d k end.
Proof.
  revert d. induction l as [|[k' v'] r IH]; simpl; intros d; [reflexivity|].
  rewrite IH. clear IH.
  assert (Hrev : forall (a b : list (string * A)), dict_get (a ++ b) k = match dict_get a k with Some v => Some v | None => dict_get b k end).
  { induction a as [|[ka va] ra IHa]; simpl; intros; [reflexivity|]. destruct (ka =? k); auto. }
  rewrite Hrev. destruct (dict_get (rev r) k); [reflexivity|]. simpl.
  destruct (k' =? k) eqn:E.
  - apply String.eqb_eq in E. subst. apply dict_get_set_same.
  - apply dict_get_set_other. intros ->. now rewrite String.eqb_refl in E.
Qed.

Lemma dict_get_app (a b : list (string * A)) k :
  dict_get (a ++ b) k = match dict_get a k with Some v => Some v | None => dict_get b k end.
Proof. induction a as [|[ka va] ra IHa]; simpl; [reflexivity|]. destruct (ka =? k); auto. Qed.

(* membership in the dict = membership among the keys of the item list *)
Lemma dict_get_none_iff (l : list (string * A)) k : dict_get l k = None <-> ~ In k (map fst l).
Proof.
  induction l as [|[k' v'] r IH]; simpl; [tauto|].
  destruct (k' =? k) eqn:E.
  - apply String.eqb_eq in E. subst. split; [discriminate | intros H; exfalso; auto].
  - rewrite IH. split; [intros H [H1|H1]; [subst; now rewrite String.eqb_refl in E | auto] | tauto].
Qed.

Lemma dict_of_pairs_mem (l : list (string * A)) k : dict_mem (dict_of_pairs l) k = mem k (map fst l).
Proof.
  unfold dict_mem, dict_of_pairs. rewrite fold_dict_get. simpl.
  destruct (dict_get (rev l) k) eqn:E.
  - symmetry. apply mem_In. apply dict_get_In in E. apply in_rev in E. change k with (fst (k, a)). now apply in_map.
  - symmetry. apply mem_false. apply dict_get_none_iff in E. intros H. apply E. rewrite map_rev. now apply in_rev in H.
Qed.

(* with unique keys the dict is the item list itself *)
Lemma fold_dict_unique (l : list (string * A)) d :
  NoDup (map fst (d ++ l)) -> fold_left (fun d kv => dict_set (fst kv) (snd kv) d) l d = d ++ l.
Proof.
  revert d. induction l as [|[k v] r IH]; simpl; intros d Hnd; [now rewrite app_nil_r|].
  assert (Hset : dict_set k v d = d ++ [(k, v)]).
  { clear IH. induction d as [|[k' v'] rd IHd]; simpl; [reflexivity|].
    simpl in Hnd. inv Hnd. destruct (k' =? k) eqn:E.
    - apply String.eqb_eq in E. subst. exfalso. apply H1. rewrite map_app. apply in_or_app. right. simpl. now left.
    - f_equal. auto. }
  rewrite Hset. rewrite IH; rewrite <- app_assoc; simpl; auto.
Qed.

Lemma dict_of_pairs_unique (l : list (string * A)) : NoDup (map fst l) -> dict_of_pairs l = l.
Proof. intros H. unfold dict_of_pairs. now rewrite fold_dict_unique. Qed.
End DictLemmas.

(* ------------------------------------------------------------------------------------------------------------------ *)
(* the validator without its partial operations: what it returns whenever it does not crash *)

Definition in_range_errs (t : tdm) (mk : mkind -> list string -> error) (ty : ftype) (v : cvalue) : list error :=
  match ty with
  | FName n =>
    match dict_get t n with
    | Some (DEnum _ _ values _ _) =>
      if negb (existsb (fun ev => cv_is_name v (ev_name ev)) values) then [mk MNotEnum [str_cvalue v]] else []
    | _ => numeric_errors mk v
    end
  | _ => numeric_errors mk v
  end.

Definition sizeof_errs (t : tdm) (fm : fmap) (mk : mkind -> list string -> error) (v : fvalue) : list error :=
  match v with
  | VName s =>
    match dict_get fm s with
    | None => [mk MUnknownSizeof [s]]
    | Some (FName n) =>
      match dict_get t n with
      | None => [mk MSizeofUnknownType [n]]
      | Some (DStruct st) =>
        if negb (truthy (lookup_attr_value (s_attrs st) vo_attr_is_size_implicit)) then [mk MSizeofNotImplicit [n]] else []
      | Some _ => [mk MSizeofFixed [n]]
      end
    | Some rty => [mk MSizeofFixed [str_ftype rty]]
    end
  | _ => [mk MUnknownSizeof [str_fvalue v]]
  end.

Definition conditional_errs (t : tdm) (fm : fmap) (mk : mkind -> list string -> error) (c : conditional) : list error :=
  match dict_get fm (c_link c) with
  | None => [mk MUnknownCond [c_link c]]
  | Some lty => in_range_errs t mk lty (c_value c)
  end.

Definition value_errs (t : tdm) (fm : fmap) (mk : mkind -> list string -> error) (ty : ftype) (value : fvalue) (disp : disposition) : list error :=
  match value with
  | VNone => []
  | VNum n => if is_sizeof_disp disp then sizeof_errs t fm mk value else in_range_errs t mk ty (CvNum n)
  | VName s => if is_sizeof_disp disp then sizeof_errs t fm mk value else in_range_errs t mk ty (CvName s)
  | VCond c => if is_sizeof_disp disp then sizeof_errs t fm mk value else conditional_errs t fm mk c
  end.

Definition field_errs (t : tdm) (fm : fmap) (mk : mkind -> list string -> error)
    (ty : ftype) (value : fvalue) (disp : disposition) (attrs : option (list attribute)) : list error :=
  type_errors t mk ty disp ++ detail_errors t fm mk ty ++ value_errs t fm mk ty value disp ++ attr_errors mk ty attrs.

Definition mk_field (sname n : string) : mkind -> list string -> error :=
  fun k args => {| e_kind := k; e_args := args; e_type := sname; e_fields := [n] |}.

Definition member_errs (t : tdm) (fm : fmap) (sname : string) (f : field) : list error :=
  match f with
  | InlinePlaceholder tn _ => validate_unnamed_inline t sname tn
  | Field n ty v d a _ => field_errs t fm (mk_field sname n) ty v d a
  end.

(* struct attributes *)
Definition known_field_errs (fm : fmap) (s : struct) (prop : string) (items : list pyval) : list error :=
  flat_map (fun v => if pv_in_fm v fm then [] else [mk_struct_error s MUnknownProp [prop; str_pyval v]]) items.
Definition size_attr_errs (fm : fmap) (s : struct) : list error :=
  let v := lookup_attr_value (s_attrs s) vo_attr_size in
  if truthy v then
    match v with
    | PvStr n => match dict_get fm n with
                 | Some (FInt _) => []
                 | Some _ => [mk_struct_error s MSizeType [n]]
                 | None => [mk_struct_error s MUnknownProp [vo_size_attr; n]]
                 end
    | _ => [mk_struct_error s MUnknownProp [vo_size_attr; str_pyval v]]
    end
  else [].
Definition discriminator_errs (fm : fmap) (s : struct) : list error :=
  match lookup_attr_values (s_attrs s) vo_attr_discriminator with
  | Some l => known_field_errs fm s vo_discriminator_attr l
  | None => []
  end.
Fixpoint initializer_pairs_total (l : list attribute) : list (pyval * pyval) :=
  match l with
  | [] => []
  | a :: r =>
    if vo_attr_initializes =? at_name a then
      match at_values a with
      | v0 :: v1 :: _ => (pv_of v0, pv_of v1) :: initializer_pairs_total r
      | _ => initializer_pairs_total r
      end
    else initializer_pairs_total r
  end.
Definition struct_initializers_total (s : struct) : list (pyval * pyval) :=
  match s_attrs s with None => [] | Some l => initializer_pairs_total l end.
Definition initializer_errs (fm : fmap) (s : struct) (tv : pyval * pyval) : list error :=
  let '(target, value) := tv in
  let '(ok1, e1) := check_initializer_name fm s target vo_init_target_raises in
  let '(ok2, e2) := check_initializer_name fm s value (is_concrete s) in
  if ok1 && ok2 then
    match target, value with
    | PvStr a, PvStr b =>
      match dict_get fm a, dict_get fm b with
      | Some t1, Some t2 =>
        e1 ++ e2 ++ if pyeqs vo_init_type_ne (Some (str_ftype t1)) (Some (str_ftype t2))
                    then [mk_struct_error s MInitType [a; b]] else []
      | _, _ => e1 ++ e2
      end
    | _, _ => e1 ++ e2
    end
  else e1 ++ e2.
Definition struct_attr_errs (fm : fmap) (s : struct) : list error :=
  size_attr_errs fm s ++ discriminator_errs fm s ++ check_comparer fm s ++ flat_map (initializer_errs fm s) (struct_initializers_total s).

Definition struct_errs (m : mode) (t : tdm) (s : struct) : list error :=
  let fm := fmap_of (s_fields s) in
  duplicate_error MDupField (s_name s) (member_names (s_fields s))
  ++ flat_map (member_errs t fm (s_name s)) (s_fields s)
  ++ (if attrs_checked m then struct_attr_errs fm s else []).

Definition decl_errs (m : mode) (t : tdm) (d : decl) : list error :=
  match d with
  | DAlias _ _ _ => []
  | DEnum n _ values _ _ => validate_enum n values
  | DStruct s => struct_errs m t s
  end.

Definition verrors (m : mode) (ds : list decl) : list error :=
  let t := tdm_of ds in flat_map (fun kv => decl_errs m t (snd kv)) t.

(* every `initializes` attribute carries its two values (guaranteed by the grammar: "(" PROPERTY_NAME "," CONST_PROPERTY_NAME ")") *)
Definition attr_list_wf (l : list attribute) : bool :=
  forallb (fun a => if vo_attr_initializes =? at_name a then (2 <=? length (at_values a))%nat else true) l.
Definition struct_wf (s : struct) : bool := match s_attrs s with None => true | Some l => attr_list_wf l end.
Definition initializers_wf (ds : list decl) : bool := forallb (fun d => match d with DStruct s => struct_wf s | _ => true end) ds.

Section Total.
Variable t : tdm.
Variable fm : fmap.
Variable mk : mkind -> list string -> error.

Lemma dict_index_get {A} (d : list (string * A)) k : dict_index d k = match dict_get d k with Some v => Ok v | None => Crash "KeyError" end.
Proof. reflexivity. Qed.

Lemma is_known_name t' n : is_known_type t' (Some n) = dict_mem t' n.
Proof. reflexivity. Qed.

Lemma validate_in_range_total ty v : validate_in_range t mk ty v = Ok (in_range_errs t mk ty v).
Proof.
  unfold validate_in_range, in_range_errs. destruct ty as [i|n|a]; try reflexivity.
  rewrite is_known_name. unfold dict_mem, dict_index. destruct (dict_get t n) as [d|]; simpl; [|reflexivity].
  destruct d; reflexivity.
Qed.

Lemma validate_sizeof_total v : validate_sizeof t fm mk v = Ok (sizeof_errs t fm mk v).
Proof.
  unfold validate_sizeof, sizeof_errs, value_in_fm, fm_index_value.
  assert (Hm : forall b, pymem vo_sizeof_mem b = negb b) by reflexivity. rewrite Hm.
  destruct v as [|n|s|c]; try reflexivity.
  unfold dict_mem, dict_index. destruct (dict_get fm s) as [rty|]; simpl; [|reflexivity].
  destruct rty as [i|n|a]; simpl; try reflexivity.
  unfold pymem, vo_known_type_mem, dict_mem, dict_index. destruct (dict_get t n) as [d|]; simpl; [|reflexivity].
  destruct d; reflexivity.
Qed.

Lemma validate_conditional_total c : validate_conditional t fm mk c = Ok (conditional_errs t fm mk c).
Proof.
  unfold validate_conditional, conditional_errs.
  assert (Hm : forall b, pymem vo_cond_mem b = negb b) by reflexivity. rewrite Hm.
  unfold dict_mem, dict_index. destruct (dict_get fm (c_link c)) as [lty|]; simpl; [|reflexivity].
  apply validate_in_range_total.
Qed.

Lemma validate_value_total ty value disp : validate_value t fm mk ty value disp = Ok (value_errs t fm mk ty value disp).
Proof.
  unfold validate_value, value_errs. destruct value; try reflexivity; destruct (is_sizeof_disp disp);
    auto using validate_sizeof_total, validate_in_range_total, validate_conditional_total.
Qed.

Lemma validate_struct_field_total ty value disp attrs :
  validate_struct_field t fm mk ty value disp attrs = Ok (field_errs t fm mk ty value disp attrs).
Proof. unfold validate_struct_field. rewrite validate_value_total. reflexivity. Qed.
End Total.

Lemma concat_results_total {A} (f : A -> result (list error)) (g : A -> list error) (l : list A) :
  (forall x, In x l -> f x = Ok (g x)) -> concat_results (map f l) = Ok (flat_map g l).
Proof.
  induction l as [|x r IH]; simpl; intros H; [reflexivity|].
  rewrite H by now left. simpl. rewrite IH by (intros; apply H; now right). reflexivity.
Qed.

Lemma validate_field_total t fm sname f : validate_field t fm sname f = Ok (member_errs t fm sname f).
Proof. destruct f; simpl; [apply validate_struct_field_total | reflexivity]. Qed.

Lemma initializer_pairs_wf l : attr_list_wf l = true -> initializer_pairs l = Ok (initializer_pairs_total l).
Proof.
  induction l as [|a r IH]; simpl; intros H; [reflexivity|].
  apply andb_prop in H. destruct H as [Ha Hr]. specialize (IH Hr).
  destruct (vo_attr_initializes =? at_name a).
  - destruct (at_values a) as [|v0 [|v1 rest]]; simpl in Ha; try discriminate. rewrite IH. reflexivity.
  - assumption.
Qed.

Lemma check_initializer_total fm s a b : check_initializer fm s a b = Ok (initializer_errs fm s (a, b)).
Proof.
  unfold check_initializer, initializer_errs.
  destruct (check_initializer_name fm s a vo_init_target_raises) as [ok1 e1] eqn:E1.
  destruct (check_initializer_name fm s b (is_concrete s)) as [ok2 e2] eqn:E2.
  destruct ok1, ok2; simpl; try reflexivity.
  unfold check_initializer_name in E1, E2.
  assert (Hm : forall x, pymem vo_init_mem x = negb x) by reflexivity. rewrite Hm in E1, E2.
  destruct a as [| |n|sa]; simpl in E1; try discriminate.
  destruct b as [| |n|sb]; simpl in E2; try discriminate.
  simpl. unfold dict_mem, dict_index in *.
  destruct (dict_get fm sa); simpl in *; [|discriminate].
  destruct (dict_get fm sb); simpl in *; [|discriminate]. reflexivity.
Qed.

Lemma check_initializer_list_total fm s l : check_initializer_list fm s l = Ok (flat_map (initializer_errs fm s) l).
Proof.
  induction l as [|[a b] r IH]; simpl; [reflexivity|].
  rewrite check_initializer_total. simpl. rewrite IH. reflexivity.
Qed.

Lemma struct_getattr_size s : struct_getattr s vo_size_attr = Ok (PoVal (lookup_attr_value (s_attrs s) vo_attr_size)).
Proof. reflexivity. Qed.
Lemma struct_getattr_discriminator s :
  struct_getattr s vo_discriminator_attr
  = Ok (match lookup_attr_values (s_attrs s) vo_attr_discriminator with Some l => PoList l | None => PoVal PvNone end).
Proof. reflexivity. Qed.

Lemma known_field_items fm s prop items :
  flat_map (fun v => if pymem vo_known_field_mem (pv_in_fm v fm) then [mk_struct_error s MUnknownProp [prop; str_pyval v]] else []) items
  = known_field_errs fm s prop items.
Proof. unfold known_field_errs. apply flat_map_ext. intros v. unfold pymem, vo_known_field_mem. now destruct (pv_in_fm v fm). Qed.

Lemma check_known_field_discriminator fm s :
  exists b, check_known_field fm s vo_discriminator_attr vo_discriminator_multi = Ok (discriminator_errs fm s, b).
Proof.
  unfold check_known_field, discriminator_errs. rewrite struct_getattr_discriminator.
  destruct (lookup_attr_values (s_attrs s) vo_attr_discriminator) as [l|]; cbn [bind po_truthy truthy negb]; [|eexists; reflexivity].
  destruct l as [|x r]; cbn [is_nil negb]; [eexists; reflexivity|].
  change vo_discriminator_multi with true. cbn [bind]. rewrite known_field_items. eexists. reflexivity.
Qed.

Lemma check_known_field_size fm s :
  check_known_field fm s vo_size_attr false =
  let v := lookup_attr_value (s_attrs s) vo_attr_size in
  if truthy v then Ok (known_field_errs fm s vo_size_attr [v], is_nil (known_field_errs fm s vo_size_attr [v])) else Ok ([], false).
Proof.
  unfold check_known_field. rewrite struct_getattr_size. cbn [bind po_truthy].
  destruct (truthy (lookup_attr_value (s_attrs s) vo_attr_size)); cbn [negb bind]; [|reflexivity].
  rewrite known_field_items. reflexivity.
Qed.

Lemma check_struct_attributes_total fm s : struct_wf s = true -> check_struct_attributes fm s = Ok (struct_attr_errs fm s).
Proof.
  intros Hwf. unfold check_struct_attributes, struct_attr_errs.
  assert (Hinit : check_initializers fm s = Ok (flat_map (initializer_errs fm s) (struct_initializers_total s))).
  { unfold check_initializers, struct_initializers, struct_initializers_total, struct_wf in *.
    destruct (s_attrs s) as [l|]; cbn [bind]; [|reflexivity].
    rewrite initializer_pairs_wf by assumption. cbn [bind]. apply check_initializer_list_total. }
  destruct (check_known_field_discriminator fm s) as [bd Hdisc].
  rewrite check_known_field_size. unfold size_attr_errs. cbv zeta.
  set (v := lookup_attr_value (s_attrs s) vo_attr_size).
  destruct (truthy v) eqn:Ev; cbn [bind fst snd].
  - unfold known_field_errs. cbn [flat_map]. rewrite app_nil_r.
    destruct v as [| |n|sv]; cbn [pv_in_fm is_nil fm_index_pv bind]; try discriminate.
    + rewrite Hdisc. cbn [bind fst snd]. rewrite Hinit. cbn [bind]. reflexivity.
    + rewrite Hdisc. cbn [bind fst snd]. rewrite Hinit. cbn [bind]. reflexivity.
    + unfold dict_mem, dict_index. destruct (dict_get fm sv) as [ty|]; cbn [is_nil bind].
      * rewrite Hdisc. cbn [bind fst snd]. rewrite Hinit. cbn [bind]. destruct ty; reflexivity.
      * rewrite Hdisc. cbn [bind fst snd]. rewrite Hinit. cbn [bind]. reflexivity.
  - rewrite Hdisc. cbn [bind fst snd]. rewrite Hinit. cbn [bind]. reflexivity.
Qed.

Lemma validate_struct_total m t s : (attrs_checked m = true -> struct_wf s = true) -> validate_struct m t s = Ok (struct_errs m t s).
Proof.
  intros Hwf. unfold validate_struct, struct_errs.
  rewrite (concat_results_total _ (member_errs t (fmap_of (s_fields s)) (s_name s))) by (intros; apply validate_field_total).
  simpl. destruct (attrs_checked m) eqn:E; simpl; [|reflexivity].
  rewrite check_struct_attributes_total by auto. reflexivity.
Qed.

Lemma attrs_checked_pre : attrs_checked Pre = false.
Proof. reflexivity. Qed.
Lemma attrs_checked_post : attrs_checked Post = true.
Proof. reflexivity. Qed.

Lemma tdm_of_In ds k d : In (k, d) (tdm_of ds) -> In d ds /\ k = decl_name d.
Proof.
  intros H. apply dict_of_pairs_In in H. apply in_map_iff in H. destruct H as [x [Hx Hin]]. inv Hx. auto.
Qed.

Theorem validate_total m ds : (m = Post -> initializers_wf ds = true) -> validate m ds = Ok (verrors m ds).
Proof.
  intros Hwf. unfold validate, verrors.
  apply concat_results_total. intros [k d] Hin. simpl.
  destruct d as [n l c|n b vs a c|s]; simpl; try reflexivity.
  apply validate_struct_total. intros Hm.
  destruct m; [discriminate|]. specialize (Hwf eq_refl).
  apply tdm_of_In in Hin. destruct Hin as [Hin _].
  unfold initializers_wf in Hwf. rewrite forallb_forall in Hwf. apply (Hwf _ Hin).
Qed.

(* ------------------------------------------------------------------------------------------------------------------ *)
(* soundness: a consistent schema yields no error *)
From Symv Require Import Cats.ValidateSpec.

Definition mode_of (g : stage) : mode := match g with Before => Pre | After => Post end.

Lemma existsb_eqb_In x l : existsb (String.eqb x) l = true <-> In x l.
Proof. apply mem_In. Qed.

Lemma nodupb_NoDup l : nodupb l = true <-> NoDup l.
Proof.
  induction l as [|x r IH]; simpl.
  - split; [constructor | reflexivity].
  - rewrite andb_true_iff, negb_true_iff, IH. split.
    + intros [H1 H2]. constructor; [|assumption]. intros Hin. apply existsb_eqb_In in Hin. congruence.
    + intros H. inv H. split; [|assumption]. destruct (existsb (String.eqb x) r) eqn:E; [|reflexivity].
      apply existsb_eqb_In in E. contradiction.
Qed.

Lemma named_fields_members fs : named_fields fs = members fs.
Proof. reflexivity. Qed.

Lemma dict_get_member_type (ms : list (string * ftype)) n : dict_get ms n = member_type ms n.
Proof.
  unfold member_type. induction ms as [|[k v] r IH]; simpl; [reflexivity|].
  destruct (k =? n); [reflexivity | assumption].
Qed.

Lemma dict_get_lookup s n : dict_get (map (fun d => (decl_name d, d)) s) n = lookup s n.
Proof.
  unfold lookup. induction s as [|d r IH]; simpl; [reflexivity|].
  destruct (decl_name d =? n); [reflexivity | assumption].
Qed.

Lemma tdm_of_unique s : nodupb (map decl_name s) = true -> tdm_of s = map (fun d => (decl_name d, d)) s.
Proof.
  intros H. unfold tdm_of. apply dict_of_pairs_unique. rewrite map_map. simpl. now apply nodupb_NoDup.
Qed.

Lemma fmap_of_unique fs : nodupb (map fst (members fs)) = true -> fmap_of fs = members fs.
Proof. intros H. unfold fmap_of. rewrite named_fields_members. apply dict_of_pairs_unique. now apply nodupb_NoDup. Qed.

Lemma has_member_get ms n : has_member ms n = dict_mem ms n.
Proof. unfold has_member, dict_mem. now rewrite dict_get_member_type. Qed.

Lemma dup_names_aux_nodup names unique dup :
  NoDup names -> (forall x, In x names -> ~ In x unique) -> dup_names_aux names unique dup = dup.
Proof.
  revert unique dup. induction names as [|n r IH]; simpl; intros unique dup Hnd Hfresh; [reflexivity|].
  inv Hnd. assert (Hn : mem n unique = false) by (apply mem_false; apply Hfresh; now left).
  unfold pymem, vo_dup_mem. rewrite Hn. simpl. apply IH; [assumption|].
  intros x Hx. unfold add_name. rewrite Hn. intros Hin. apply in_app_or in Hin. destruct Hin as [Hin|[->|[]]].
  - apply (Hfresh x); [now right | assumption].
  - contradiction.
Qed.

Lemma duplicate_error_nodup k typename names : nodupb names = true -> duplicate_error k typename names = [].
Proof.
  intros H. apply nodupb_NoDup in H. unfold duplicate_error, find_duplicate_names.
  rewrite dup_names_aux_nodup; auto.
Qed.

Lemma is_inline_disp_spec d : is_inline_disp d = match d with DispInline => true | _ => false end.
Proof. destruct d; reflexivity. Qed.
Lemma is_sizeof_disp_spec d : is_sizeof_disp d = match d with DispSizeof => true | _ => false end.
Proof. destruct d; reflexivity. Qed.
Lemma not_inline_struct_spec rs :
  not_inline_struct rs = match rs with Some st => match s_disp st with SdInline => false | _ => true end | None => true end.
Proof. destruct rs as [st|]; [|reflexivity]. unfold not_inline_struct. destruct (s_disp st); reflexivity. Qed.

Section Sound.
Variable s : list decl.
Variable t : tdm.
Hypothesis Ht : forall n, dict_get t n = lookup s n.
Variable ms : list (string * ftype).
Variable mk : mkind -> list string -> error.

Lemma known_declared n : is_known_type t (Some n) = declared s n.
Proof. unfold is_known_type, pymem, vo_known_type_mem, dict_mem, declared. now rewrite Ht. Qed.

Lemma sort_key_in_spec k fs : sort_key_in (Some k) fs = has_member (members fs) k.
Proof.
  unfold has_member, member_type. induction fs as [|f r IH]; simpl; [reflexivity|].
  destruct f as [n ty v d a c|tn c]; simpl.
  - unfold pyeqs, vo_sortkey_eq, opt_str_eqb. rewrite String.eqb_sym. destruct (n =? k); simpl; [reflexivity | assumption].
  - assumption.
Qed.

Lemma sound_type ty disp :
  consistent_type s ms ty = true -> consistent_inline s ty disp = true ->
  type_errors t mk ty disp = [] /\ detail_errors t ms mk ty = [].
Proof.
  intros Hty Hinl. unfold type_errors, detail_errors. rewrite is_inline_disp_spec, not_inline_struct_spec.
  destruct ty as [i|n|a]; cbn [ftype_name consistent_type consistent_inline] in *.
  - split.
    + destruct disp; try reflexivity. discriminate.
    + unfold validate_integer. destruct (it_sizeref i) as [[p d]|]; [|reflexivity].
      rewrite has_member_get in Hty. unfold pymem, vo_sizeref_mem. now rewrite Hty.
  - rewrite known_declared, Hty. cbn [negb]. split; [|reflexivity].
    destruct disp; try reflexivity. cbn [consistent_inline] in Hinl. unfold inline_struct in Hinl. cbn [find_struct andb]. rewrite Ht.
    destruct (lookup s n) as [[? ? ?|? ? ? ? ?|st]|]; simpl in Hinl; try discriminate. destruct (s_disp st); try discriminate. reflexivity.
  - split; [destruct disp; try reflexivity; discriminate|].
    apply andb_prop in Hty. destruct Hty as [Hty Hkey]. apply andb_prop in Hty. destruct Hty as [Helem Hsize].
    unfold validate_array.
    assert (Hknown : is_known_type t (elem_name (a_elem a)) = true).
    { destruct (a_elem a) as [i|n]; cbn [elem_name]; [reflexivity|]. now rewrite known_declared. }
    rewrite Hknown. cbn [negb app].
    assert (Hsz : match a_size a with SzName s0 => if pymem vo_size_mem (dict_mem ms s0) then [mk MUnknownSize [s0]] else [] | _ => [] end = []).
    { destruct (a_size a) as [z|m|]; try reflexivity. rewrite has_member_get in Hsize. unfold pymem, vo_size_mem. now rewrite Hsize. }
    rewrite Hsz, app_nil_r.
    destruct (a_sort_key a) as [k|]; [|reflexivity].
    destruct (a_elem a) as [i|n]; [discriminate|]. cbn [elem_name find_struct].
    unfold struct_has_member in Hkey. rewrite Ht.
    destruct (lookup s n) as [[? ? ?|? ? ? ? ?|st]|]; simpl in Hkey; try discriminate.
    rewrite sort_key_in_spec, Hkey. now rewrite orb_true_r.
Qed.

Lemma sound_in_range ty v : value_ok s ty v = true -> in_range_errs t mk ty v = [].
Proof.
  unfold value_ok, in_range_errs, enum_value_names. intros H.
  destruct ty as [i|n|a]; try (destruct v; [reflexivity | discriminate]).
  rewrite Ht. destruct (lookup s n) as [[| n' b vs at' c|st]|]; try (destruct v; [reflexivity | discriminate]).
  destruct v as [z|x]; [discriminate|].
  assert (He : existsb (fun ev => cv_is_name (CvName x) (ev_name ev)) vs = true).
  { apply existsb_exists in H. destruct H as [y [Hy Hxy]]. apply in_map_iff in Hy. destruct Hy as [ev [<- Hev]].
    apply existsb_exists. exists ev. split; [assumption|]. exact Hxy. }
  now rewrite He.
Qed.

Lemma sound_value ty value disp : consistent_value s ms ty value disp = true -> value_errs t ms mk ty value disp = [].
Proof.
  unfold consistent_value, value_errs. rewrite is_sizeof_disp_spec. intros H.
  destruct disp; destruct value as [|z|x|c]; try discriminate; try reflexivity;
    try (apply sound_in_range; assumption);
    try (unfold conditional_errs; rewrite dict_get_member_type; destruct (member_type ms (c_link c)); [now apply sound_in_range | discriminate]).
  unfold sizeof_errs. rewrite dict_get_member_type.
  destruct (member_type ms x) as [[i|tn|a]|]; try discriminate.
  unfold size_implicit_struct, is_flag_attr in H. rewrite Ht.
  destruct (lookup s tn) as [[| |st]|]; try discriminate.
  unfold lookup_attr_value. change vo_attr_is_size_implicit with "is_size_implicit".
  destruct (find_attr (s_attrs st) "is_size_implicit") as [a|]; [|discriminate].
  unfold attr_value, at_is_flag in *. destruct (at_values a); [reflexivity | discriminate].
Qed.

Lemma applicable_has_attr ty a : applicable ty a = true -> type_has_attr ty a = true.
Proof.
  destruct ty as [i|n|arr]; simpl; intros H; [| discriminate |].
  - apply String.eqb_eq in H. subst. reflexivity.
  - apply orb_prop in H. destruct H as [H|H]; [apply orb_prop in H; destruct H as [H|H]|]; apply String.eqb_eq in H; subst; reflexivity.
Qed.

Lemma sound_attrs ty attrs : consistent_attrs ty attrs = true -> attr_errors mk ty attrs = [].
Proof.
  unfold consistent_attrs, attr_errors. destruct attrs as [l|]; [|reflexivity].
  induction l as [|a r IH]; simpl; intros H; [reflexivity|].
  apply andb_prop in H. destruct H as [Ha Hr]. rewrite (applicable_has_attr _ _ Ha). simpl. auto.
Qed.
End Sound.

Lemma sound_member s t ms sname f :
  (forall n, dict_get t n = lookup s n) -> consistent_member s ms f = true -> member_errs t ms sname f = [].
Proof.
  intros Ht H. destruct f as [n ty v d a c|tn c]; simpl in *.
  - apply andb_prop in H. destruct H as [H Hattr]. apply andb_prop in H. destruct H as [H Hval]. apply andb_prop in H. destruct H as [Hty Hinl].
    unfold field_errs. destruct (sound_type s t Ht ms (mk_field sname n) ty d Hty Hinl) as [-> ->].
    rewrite (sound_value s t Ht ms _ ty v d Hval), (sound_attrs _ ty a Hattr). reflexivity.
  - unfold validate_unnamed_inline. rewrite (known_declared s t Ht). unfold declared, is_struct in *.
    destruct (lookup s tn) as [[| |st]|]; try discriminate. reflexivity.
Qed.

Lemma flat_map_nil {A B} (f : A -> list B) l : (forall x, In x l -> f x = []) -> flat_map f l = [].
Proof. induction l as [|x r IH]; simpl; intros H; [reflexivity|]. rewrite H by now left. apply IH. intros; apply H; now right. Qed.

Lemma flat_map_nil_inv {A B} (f : A -> list B) l : flat_map f l = [] -> forall x, In x l -> f x = [].
Proof.
  induction l as [|y r IH]; simpl; intros H x Hin; [contradiction|].
  apply app_eq_nil in H. destruct H as [H1 H2]. destruct Hin as [->|Hin]; auto.
Qed.

(* struct attributes *)
Lemma pv_in_fm_str ms n : pv_in_fm (PvStr n) ms = has_member ms n.
Proof. simpl. now rewrite has_member_get. Qed.

Lemma comparer_sound ms st l : comparer_ok ms l = true ->
  flat_map (fun pt =>
    (if pymem vo_comparer_mem (pv_in_fm (fst pt) ms) then [mk_struct_error st MUnknownComparer [str_pyval (fst pt)]] else [])
    ++ (if pymem vo_transform_mem (transform_known (snd pt)) then [mk_struct_error st MUnknownTransform [str_pyval (snd pt)]] else []))
    (pairs_of (map pv_of l)) = [].
Proof.
  revert l. fix IH 1. intros l. destruct l as [|v0 [|v1 r]]; intros H; try reflexivity.
  cbn [comparer_ok] in H. destruct v0 as [z|n|]; try discriminate.
  apply andb_prop in H. destruct H as [H Hr]. apply andb_prop in H. destruct H as [Hm Htr].
  cbn [map pairs_of flat_map fst snd]. rewrite (IH r Hr), app_nil_r.
  cbn [pv_of]. rewrite pv_in_fm_str, Hm. unfold pymem, vo_comparer_mem, vo_transform_mem. cbn [negb app].
  destruct v1 as [z|x|]; cbn [transform_ok pv_of transform_known] in *; try discriminate; [|reflexivity].
  change vo_transform_lit with "ripemd_keccak_256". now rewrite Htr.
Qed.

Lemma same_type_str a b : same_type a b = true -> str_ftype a = str_ftype b.
Proof.
  assert (Hint : forall x y, intty_same x y = true -> str_intty x = str_intty y).
  { intros x y H. unfold intty_same in H. apply andb_prop in H. destruct H as [H1 H2].
    apply Bool.eqb_prop in H1. apply Z.eqb_eq in H2. unfold str_intty, it_short_name. now rewrite H1, H2. }
  destruct a as [x|x|x], b as [y|y|y]; simpl; intros H; try discriminate.
  - auto.
  - now apply String.eqb_eq in H.
  - apply andb_prop in H. destruct H as [He Hs]. unfold str_array.
    assert (E1 : str_elem (a_elem x) = str_elem (a_elem y)).
    { destruct (a_elem x) as [i|n], (a_elem y) as [j|m]; simpl in *; try discriminate; [auto | now apply String.eqb_eq in He]. }
    assert (E2 : str_asize (a_size x) = str_asize (a_size y)).
    { destruct (a_size x), (a_size y); simpl in *; try discriminate; try reflexivity.
      - apply Z.eqb_eq in Hs. now subst.
      - apply String.eqb_eq in Hs. now subst. }
    now rewrite E1, E2.
Qed.

Lemma find_attr_In attrs name a : find_attr (Some attrs) name = Some a -> In a attrs /\ at_name a = name.
Proof. unfold find_attr. intros H. apply find_some in H. destruct H as [H1 H2]. apply String.eqb_eq in H2. auto. Qed.

Lemma initializer_pairs_sound fm st l :
  (forall a, In a l -> at_name a = "initializes" -> consistent_struct_attr st fm a = true) ->
  flat_map (initializer_errs fm st) (initializer_pairs_total l) = [].
Proof.
  induction l as [|a r IH]; intros H; [reflexivity|].
  cbn [initializer_pairs_total]. change vo_attr_initializes with "initializes".
  destruct ("initializes" =? at_name a) eqn:E; [|apply IH; intros; apply H; [now right | assumption]].
  apply String.eqb_eq in E. symmetry in E.
  specialize (H a (or_introl eq_refl) E) as Ha. unfold consistent_struct_attr in Ha. rewrite E in Ha.
  change ("initializes" =? "size") with false in Ha. change ("initializes" =? "discriminator") with false in Ha.
  change ("initializes" =? "comparer") with false in Ha. change ("initializes" =? "initializes") with true in Ha. cbv iota in Ha.
  destruct (at_values a) as [|[z|target|] [|[z'|value|] [|x rest]]]; try discriminate.
  cbn [flat_map]. rewrite IH by (intros; apply H; [now right | assumption]). rewrite app_nil_r.
  unfold initializer_errs, pv_of, check_initializer_name. unfold pymem, vo_init_mem. rewrite !pv_in_fm_str.
  unfold has_member. rewrite <- !dict_get_member_type in Ha. rewrite <- !dict_get_member_type.
  destruct (dict_get fm target) as [t1|]; [|discriminate]. simpl.
  destruct (dict_get fm value) as [t2|]; simpl.
  - rewrite (same_type_str _ _ Ha). unfold pyeqs, vo_init_type_ne, opt_str_eqb. now rewrite String.eqb_refl.
  - unfold is_concrete, concrete in *. destruct (s_disp st); try discriminate; reflexivity.
Qed.

Lemma sound_struct_attrs st :
  consistent_struct_attrs st = true -> struct_attr_errs (members (s_fields st)) st = [].
Proof.
  unfold consistent_struct_attrs, struct_attr_errs. set (fm := members (s_fields st)).
  destruct (s_attrs st) as [attrs|] eqn:Eattrs.
  2:{ unfold size_attr_errs, discriminator_errs, check_comparer, struct_comparer, struct_initializers_total, lookup_attr_value, lookup_attr_values.
      rewrite Eattrs. reflexivity. }
  intros H. rewrite forallb_forall in H.
  assert (Hsize : size_attr_errs fm st = []).
  { unfold size_attr_errs, lookup_attr_value. rewrite Eattrs. change vo_attr_size with "size".
    destruct (find_attr (Some attrs) "size") as [a|] eqn:Ea; [|reflexivity].
    apply find_attr_In in Ea. destruct Ea as [Hin Hname]. specialize (H a Hin). unfold consistent_struct_attr in H. rewrite Hname in H.
    change ("size" =? "size") with true in H. cbv iota in H.
    unfold attr_value. destruct (at_values a) as [|[z|n|] [|x r]]; try discriminate.
    simpl pv_of. destruct (truthy (PvStr n)); [|reflexivity].
    rewrite dict_get_member_type. destruct (member_type fm n) as [[i|x|x]|]; try discriminate. reflexivity. }
  assert (Hdisc : discriminator_errs fm st = []).
  { unfold discriminator_errs, lookup_attr_values. rewrite Eattrs. change vo_attr_discriminator with "discriminator".
    destruct (find_attr (Some attrs) "discriminator") as [a|] eqn:Ea; [|reflexivity].
    apply find_attr_In in Ea. destruct Ea as [Hin Hname]. specialize (H a Hin). unfold consistent_struct_attr in H. rewrite Hname in H.
    change ("discriminator" =? "size") with false in H. change ("discriminator" =? "discriminator") with true in H. cbv iota in H.
    unfold known_field_errs. apply flat_map_nil. intros v Hv. apply in_map_iff in Hv. destruct Hv as [av [<- Hav]].
    rewrite forallb_forall in H. specialize (H av Hav). destruct av as [z|n|]; try discriminate.
    simpl pv_of. rewrite pv_in_fm_str, H. reflexivity. }
  assert (Hcmp : check_comparer fm st = []).
  { unfold check_comparer, struct_comparer, lookup_attr_values. rewrite Eattrs. change vo_attr_comparer with "comparer".
    destruct (find_attr (Some attrs) "comparer") as [a|] eqn:Ea; [|reflexivity].
    apply find_attr_In in Ea. destruct Ea as [Hin Hname]. specialize (H a Hin). unfold consistent_struct_attr in H. rewrite Hname in H.
    change ("comparer" =? "size") with false in H. change ("comparer" =? "discriminator") with false in H.
    change ("comparer" =? "comparer") with true in H. cbv iota in H.
    now apply comparer_sound. }
  rewrite Hsize, Hdisc, Hcmp. simpl. unfold struct_initializers_total. rewrite Eattrs.
  apply initializer_pairs_sound. intros a Hin _. now apply H.
Qed.

Lemma sound_decl g s d :
  nodupb (map decl_name s) = true -> consistent_decl g s d = true -> decl_errs (mode_of g) (tdm_of s) d = [].
Proof.
  intros Hnd H. assert (Ht : forall n, dict_get (tdm_of s) n = lookup s n).
  { intros n. rewrite tdm_of_unique by assumption. apply dict_get_lookup. }
  destruct d as [n l c|n b vs a c|st]; simpl in *; [reflexivity | |].
  - unfold validate_enum. now apply duplicate_error_nodup.
  - apply andb_prop in H. destruct H as [H Hattrs]. apply andb_prop in H. destruct H as [Hnames Hmembers].
    unfold struct_errs. rewrite fmap_of_unique by assumption.
    unfold member_names. rewrite named_fields_members. rewrite duplicate_error_nodup by assumption.
    rewrite forallb_forall in Hmembers.
    rewrite flat_map_nil by (intros f Hf; apply (sound_member s); auto).
    destruct g; simpl; [reflexivity|]. now apply sound_struct_attrs.
Qed.

Theorem verrors_consistent g s : consistent g s = true -> verrors (mode_of g) s = [].
Proof.
  unfold consistent. intros H. apply andb_prop in H. destruct H as [Hnd Hall].
  unfold verrors. apply flat_map_nil. intros [k d] Hin. simpl.
  apply tdm_of_In in Hin. destruct Hin as [Hin _].
  rewrite forallb_forall in Hall. apply sound_decl; auto.
Qed.

(* ------------------------------------------------------------------------------------------------------------------ *)
(* every error names the declaration it was found in (and, for member checks, the member) *)

Definition made_by (mk : mkind -> list string -> error) (l : list error) : Prop := Forall (fun e => exists k a, e = mk k a) l.

Lemma made_by_nil mk : made_by mk [].
Proof. constructor. Qed.
Lemma made_by_one mk k a : made_by mk [mk k a].
Proof. constructor; [eauto | constructor]. Qed.
Lemma made_by_app mk a b : made_by mk a -> made_by mk b -> made_by mk (a ++ b).
Proof. intros Ha Hb. apply Forall_app. split; assumption. Qed.
Lemma made_by_if mk (c : bool) a b : made_by mk a -> made_by mk b -> made_by mk (if c then a else b).
Proof. destruct c; auto. Qed.
Lemma made_by_flat_map {A} mk (f : A -> list error) l : (forall x, made_by mk (f x)) -> made_by mk (flat_map f l).
Proof. intros H. induction l; simpl; [constructor | apply made_by_app; auto]. Qed.
Lemma made_by_cons mk k a l : made_by mk l -> made_by mk (mk k a :: l).
Proof. intros H. constructor; [eauto | assumption]. Qed.
#[local] Hint Resolve made_by_nil made_by_one made_by_cons made_by_app made_by_if : made.

Lemma numeric_made mk v : made_by mk (numeric_errors mk v).
Proof. destruct v; simpl; auto with made. Qed.
Lemma in_range_made t mk ty v : made_by mk (in_range_errs t mk ty v).
Proof.
  unfold in_range_errs. destruct ty as [i|n|a]; try apply numeric_made.
  destruct (dict_get t n) as [[| |]|]; try apply numeric_made. auto with made.
Qed.

Lemma field_errs_made t fm mk ty v d a : made_by mk (field_errs t fm mk ty v d a).
Proof.
  unfold field_errs. repeat apply made_by_app.
  - unfold type_errors. auto with made.
  - unfold detail_errors, validate_integer, validate_array. destruct ty as [i|n|arr]; auto with made.
    + destruct (it_sizeref i) as [[p z]|]; auto with made.
    + repeat apply made_by_app; auto with made. destruct (a_size arr); auto with made.
  - unfold value_errs, sizeof_errs, conditional_errs.
    destruct v as [|z|x|c]; auto with made; destruct (is_sizeof_disp d); auto using in_range_made with made.
    + destruct (dict_get fm x) as [[i|n|arr]|]; auto with made.
      destruct (dict_get t n) as [[| |st]|]; auto with made.
    + destruct (dict_get fm (c_link c)); auto using in_range_made with made.
  - unfold attr_errors. destruct a as [l|]; auto with made. apply made_by_flat_map. intros x. auto with made.
Qed.

Lemma member_errs_names t fm sname f e :
  In e (member_errs t fm sname f) -> e_type e = sname /\ e_fields e = match field_name f with Some n => [n] | None => [] end.
Proof.
  destruct f as [n ty v d a c|tn c]; simpl.
  - intros H. pose proof (field_errs_made t fm (mk_field sname n) ty v d a) as Hm.
    unfold made_by in Hm. rewrite Forall_forall in Hm. destruct (Hm e H) as [k [args ->]]. auto.
  - unfold validate_unnamed_inline. destruct (negb _); simpl; [|tauto]. intros [<-|[]]. auto.
Qed.

Lemma duplicate_error_names k typename names e : In e (duplicate_error k typename names) -> e_type e = typename.
Proof. unfold duplicate_error. destruct (find_duplicate_names names); simpl; [tauto|]. intros [<-|[]]. reflexivity. Qed.

Lemma struct_attr_errs_names fm st e : In e (struct_attr_errs fm st) -> e_type e = s_name st.
Proof.
  assert (Hmk : forall l, made_by (mk_struct_error st) l -> In e l -> e_type e = s_name st).
  { intros l Hl Hin. unfold made_by in Hl. rewrite Forall_forall in Hl. destruct (Hl e Hin) as [k [a ->]]. reflexivity. }
  apply Hmk. unfold struct_attr_errs. repeat apply made_by_app.
  - unfold size_attr_errs. destruct (truthy _); auto with made.
    destruct (lookup_attr_value (s_attrs st) vo_attr_size) as [| |z|sv]; auto with made.
    destruct (dict_get fm sv) as [[| |]|]; auto with made.
  - unfold discriminator_errs, known_field_errs. destruct (lookup_attr_values _ _); auto with made.
    apply made_by_flat_map. intros x. auto with made.
  - unfold check_comparer. apply made_by_flat_map. intros x. auto with made.
  - apply made_by_flat_map. intros [a b]. unfold initializer_errs, check_initializer_name.
    destruct (pymem vo_init_mem (pv_in_fm a fm)), (pymem vo_init_mem (pv_in_fm b fm)); simpl; auto with made;
      try (destruct vo_init_target_raises; auto with made); try (destruct (is_concrete st); auto with made).
    all: destruct a as [| |za|sa], b as [| |zb|sb]; cbn iota; auto with made; destruct (dict_get fm sa), (dict_get fm sb); auto with made.
Qed.

Lemma decl_errs_names m t d e : In e (decl_errs m t d) -> e_type e = decl_name d.
Proof.
  destruct d as [n l c|n b vs a c|st]; simpl; [tauto | apply duplicate_error_names |].
  unfold struct_errs. intros H. apply in_app_or in H. destruct H as [H|H]; [now apply duplicate_error_names in H|].
  apply in_app_or in H. destruct H as [H|H].
  - apply in_flat_map in H. destruct H as [f [_ Hf]]. now apply member_errs_names in Hf.
  - destruct (attrs_checked m); [now apply struct_attr_errs_names in H | contradiction].
Qed.

(* ------------------------------------------------------------------------------------------------------------------ *)
(* detection: a broken site is reported, on its struct and member, in either stage *)

Lemma In_tdm_of t d : nodupb (map decl_name t) = true -> In d t -> In (decl_name d, d) (tdm_of t).
Proof. intros Hnd Hin. rewrite tdm_of_unique by assumption. now apply (in_map (fun d => (decl_name d, d))). Qed.

Lemma tdm_get_lookup t n : nodupb (map decl_name t) = true -> dict_get (tdm_of t) n = lookup t n.
Proof. intros Hnd. rewrite tdm_of_unique by assumption. apply dict_get_lookup. Qed.

Lemma lookup_In t n d : lookup t n = Some d -> In d t /\ decl_name d = n.
Proof. unfold lookup. intros H. apply find_some in H. destruct H as [H1 H2]. apply String.eqb_eq in H2. auto. Qed.

Lemma verrors_In m t d e : nodupb (map decl_name t) = true -> In d t -> In e (decl_errs m (tdm_of t) d) -> In e (verrors m t).
Proof. intros Hnd Hin He. unfold verrors. apply in_flat_map. exists (decl_name d, d). split; [now apply In_tdm_of | assumption]. Qed.

Lemma fmap_mem_false fs n : ~ In n (map fst (members fs)) -> dict_get (fmap_of fs) n = None.
Proof.
  intros H. pose proof (dict_of_pairs_mem (named_fields fs) n) as Hm. fold (fmap_of fs) in Hm.
  rewrite named_fields_members in Hm. apply mem_false in H. rewrite H in Hm. unfold dict_mem in Hm.
  destruct (dict_get (fmap_of fs) n); [discriminate | reflexivity].
Qed.

Lemma in_range_fresh t tdm mk ty x :
  (forall n d, dict_get tdm n = Some d -> In d t) -> fresh_const t x -> in_range_errs tdm mk ty (CvName x) <> [].
Proof.
  intros Hin Hfresh. unfold in_range_errs, numeric_errors.
  destruct ty as [i|n|a]; try discriminate.
  destruct (dict_get tdm n) as [[| n' b vs at' c|]|] eqn:E; try discriminate.
  assert (Hno : existsb (fun ev => cv_is_name (CvName x) (ev_name ev)) vs = false).
  { destruct (existsb _ vs) eqn:Ex; [|reflexivity]. apply existsb_exists in Ex. destruct Ex as [ev [Hev Hx]].
    simpl in Hx. unfold pyeqs, vo_enum_eq, opt_str_eqb in Hx. apply String.eqb_eq in Hx. subst x.
    exfalso. apply (Hfresh n' b vs at' c (Hin _ _ E)). now apply in_map. }
  rewrite Hno. discriminate.
Qed.

Lemma nonempty_app_l {A} (a b : list A) : a <> [] -> a ++ b <> [].
Proof. destruct a; [congruence | discriminate]. Qed.
Lemma nonempty_app_r {A} (a b : list A) : b <> [] -> a ++ b <> [].
Proof. destruct a; [auto | discriminate]. Qed.

Lemma known_attribute_inapplicable ty name : known_attribute name -> applicable ty name = false -> type_has_attr ty name = false.
Proof. intros Hk Ha. destruct ty as [i|n|arr]; [| reflexivity |]; destruct Hk; try reflexivity; discriminate. Qed.

Lemma detect_field_errs t st f n mk :
  nodupb (map decl_name t) = true -> field_name f = Some n -> broken_field t (members (s_fields st)) f ->
  match f with
  | Field _ ty v d a _ => field_errs (tdm_of t) (fmap_of (s_fields st)) mk ty v d a <> []
  | InlinePlaceholder _ _ => False
  end.
Proof.
  intros Hnd Hname Hb. set (tdm := tdm_of t).
  assert (Hget : forall k, dict_get tdm k = lookup t k) by (intros; now apply tdm_get_lookup).
  assert (Hin : forall k d, dict_get tdm k = Some d -> In d t).
  { intros k d H. rewrite Hget in H. now apply lookup_In in H. }
  assert (Hunknown : forall bad, fresh_type t bad -> is_known_type tdm (Some bad) = false).
  { intros bad Hf. unfold is_known_type, pymem, vo_known_type_mem, dict_mem. rewrite Hget, Hf. reflexivity. }
  destruct Hb; unfold field_errs.
  - (* member type *) apply nonempty_app_l. unfold type_errors. cbn [ftype_name]. rewrite Hunknown by assumption. discriminate.
  - (* element type *) apply nonempty_app_r, nonempty_app_l. cbn [detail_errors]. unfold validate_array. rewrite H0. cbn [elem_name].
    rewrite Hunknown by assumption. discriminate.
  - (* size member *) apply nonempty_app_r, nonempty_app_l. cbn [detail_errors]. unfold validate_array. rewrite H.
    apply nonempty_app_r, nonempty_app_r. unfold pymem, vo_size_mem, dict_mem. rewrite fmap_mem_false by assumption. discriminate.
  - (* sort key *) apply nonempty_app_r, nonempty_app_l. cbn [detail_errors]. unfold validate_array. rewrite H.
    destruct H0 as [Hne Hfresh].
    destruct (is_known_type tdm (elem_name (a_elem arr))) eqn:Ek; cbn [negb]; [|discriminate].
    apply nonempty_app_r, nonempty_app_l.
    assert (Hk : (bad =? "") = false) by (destruct (bad =? "") eqn:E; [apply String.eqb_eq in E; contradiction | reflexivity]).
    rewrite Hk. cbn [orb].
    destruct (find_struct tdm (elem_name (a_elem arr))) as [es|] eqn:Ef; [|discriminate].
    assert (Hes : In (DStruct es) t).
    { unfold find_struct in Ef. destruct (elem_name (a_elem arr)) as [en|]; [|discriminate].
      destruct (dict_get tdm en) as [[| |es']|] eqn:Eg; try discriminate. inv Ef. eauto. }
    rewrite sort_key_in_spec. unfold has_member. rewrite <- dict_get_member_type.
    assert (Hnone : dict_get (members (s_fields es)) bad = None) by (apply dict_get_none_iff; now apply Hfresh).
    rewrite Hnone. discriminate.
  - (* sizeof member *) apply nonempty_app_r, nonempty_app_r, nonempty_app_l. unfold value_errs. rewrite is_sizeof_disp_spec.
    unfold sizeof_errs. rewrite fmap_mem_false by assumption. discriminate.
  - (* sizeref *) apply nonempty_app_r, nonempty_app_l. cbn [detail_errors]. unfold validate_integer. rewrite H.
    unfold pymem, vo_sizeref_mem, dict_mem. rewrite fmap_mem_false by assumption. discriminate.
  - (* condition member *) apply nonempty_app_r, nonempty_app_r, nonempty_app_l. unfold value_errs. rewrite is_sizeof_disp_spec.
    assert (Hd : match d with DispSizeof => true | _ => false end = false) by (destruct d; try reflexivity; contradiction).
    rewrite Hd. unfold conditional_errs. rewrite fmap_mem_false by assumption. discriminate.
  - (* condition value *) apply nonempty_app_r, nonempty_app_r, nonempty_app_l. unfold value_errs. rewrite is_sizeof_disp_spec.
    assert (Hd : match d with DispSizeof => true | _ => false end = false) by (destruct d; try reflexivity; contradiction).
    rewrite Hd. unfold conditional_errs. destruct (dict_get _ (c_link cnd)); [|discriminate].
    rewrite H0. now apply (in_range_fresh t).
  - (* constant value *) apply nonempty_app_r, nonempty_app_r, nonempty_app_l. unfold value_errs. rewrite is_sizeof_disp_spec.
    assert (Hd : match d with DispSizeof => true | _ => false end = false) by (destruct d; try reflexivity; contradiction).
    rewrite Hd. now apply (in_range_fresh t).
  - (* sizeof of a fixed-size type *) apply nonempty_app_r, nonempty_app_r, nonempty_app_l. unfold value_errs. rewrite is_sizeof_disp_spec.
    unfold sizeof_errs. rewrite fmap_of_unique by assumption. rewrite dict_get_member_type, H0.
    destruct rty as [i|tn|a']; try discriminate.
    specialize (H1 tn eq_refl). unfold is_struct in H1. fold tdm. rewrite Hget.
    destruct (lookup t tn) as [[| |]|]; try discriminate.
  - (* sizeof of a struct that is not size implicit *) apply nonempty_app_r, nonempty_app_r, nonempty_app_l. unfold value_errs. rewrite is_sizeof_disp_spec.
    unfold sizeof_errs. rewrite fmap_of_unique by assumption. rewrite dict_get_member_type, H0.
    fold tdm. rewrite Hget, H1. unfold lookup_attr_value. change vo_attr_is_size_implicit with "is_size_implicit". rewrite H2. discriminate.
  - (* named inline of something that is not an inline struct *) apply nonempty_app_l. unfold type_errors.
    destruct (is_known_type tdm (ftype_name ty)) eqn:Ek; cbn [negb]; [|discriminate].
    rewrite is_inline_disp_spec, not_inline_struct_spec. cbn [andb].
    destruct ty as [i|tn|a']; cbn [ftype_name find_struct]; try discriminate.
    specialize (H tn eq_refl). unfold inline_struct in H. rewrite Hget.
    destruct (lookup t tn) as [[| |st']|]; try discriminate. destruct (s_disp st'); try discriminate.
  - (* inapplicable attribute *) apply nonempty_app_r, nonempty_app_r, nonempty_app_r. unfold attr_errors.
    induction attrs as [|x r IH]; [contradiction|]. cbn [flat_map]. destruct H as [->|H].
    + rewrite (known_attribute_inapplicable _ _ H1 H0). discriminate.
    + apply nonempty_app_r. auto.
Qed.

(* _find_duplicate_names: a name that occurs twice is returned *)
Lemma add_name_In n x l : In x (add_name n l) <-> x = n \/ In x l.
Proof.
  unfold add_name. destruct (mem n l) eqn:E.
  - apply mem_In in E. split; [auto | intros [->|H]; auto].
  - rewrite in_app_iff. simpl. split; [intros [H|[H|[]]]; auto | intros [H|H]; auto].
Qed.
Lemma dup_aux_keeps names unique dup x : In x dup -> In x (dup_names_aux names unique dup).
Proof.
  revert unique dup. induction names as [|n r IH]; cbn [dup_names_aux]; intros unique dup H; [assumption|].
  unfold pymem, vo_dup_mem. destruct (mem n unique); cbn [negb]; apply IH; [apply add_name_In; now right | assumption].
Qed.
Lemma dup_aux_seen names unique dup x : In x unique -> In x names -> In x (dup_names_aux names unique dup).
Proof.
  revert unique dup. induction names as [|n r IH]; cbn [dup_names_aux]; intros unique dup Hu Hn; [contradiction|].
  destruct Hn as [->|Hn].
  - assert (E : mem x unique = true) by now apply mem_In. unfold pymem, vo_dup_mem. rewrite E. cbn [negb].
    apply dup_aux_keeps. apply add_name_In. now left.
  - unfold pymem, vo_dup_mem. destruct (mem n unique); cbn [negb]; apply IH; auto. apply add_name_In. now right.
Qed.
Lemma dup_aux_twice l1 n l2 l3 unique dup : In n (dup_names_aux (l1 ++ n :: l2 ++ n :: l3) unique dup).
Proof.
  revert unique dup. induction l1 as [|y r IH]; cbn [app dup_names_aux]; intros unique dup.
  - destruct (mem n unique) eqn:E; unfold pymem, vo_dup_mem; cbn [negb].
    + apply dup_aux_keeps. apply add_name_In. now left.
    + apply dup_aux_seen; [apply add_name_In; now left | apply in_or_app; right; now left].
  - unfold pymem, vo_dup_mem. destruct (mem y unique); cbn [negb]; apply IH.
Qed.
Lemma duplicate_error_twice k typename l1 n l2 l3 :
  exists e, In e (duplicate_error k typename (l1 ++ n :: l2 ++ n :: l3)) /\ e_type e = typename /\ In n (e_fields e).
Proof.
  unfold duplicate_error, find_duplicate_names. pose proof (dup_aux_twice l1 n l2 l3 [] []) as H.
  destruct (dup_names_aux _ [] []) as [|d r]; [contradiction|]. eexists. split; [now left|]. simpl. auto.
Qed.

Theorem detect_site t D mname m :
  nodupb (map decl_name t) = true -> broken_site t D mname ->
  exists e, In e (verrors m t) /\ e_type e = D /\ (forall n, mname = Some n -> In n (e_fields e)).
Proof.
  intros Hnd Hb. destruct Hb as [st f n Hst Hf Hname Hbf | st bad c Hst Hf Hfresh | st n Hst [l1 [l2 [l3 Hdup]]] | name b vs a c n Hen [l1 [l2 [l3 Hdup]]]].
  - pose proof (detect_field_errs t st f n (mk_field (s_name st) n) Hnd Hname Hbf) as Hne.
    destruct f as [n' ty v d a c|tn c]; [|contradiction]. simpl in Hname. inv Hname.
    destruct (field_errs (tdm_of t) (fmap_of (s_fields st)) (mk_field (s_name st) n) ty v d a) as [|e r] eqn:E; [congruence|].
    exists e. assert (Hin : In e (member_errs (tdm_of t) (fmap_of (s_fields st)) (s_name st) (Field n ty v d a c))) by (simpl; rewrite E; now left).
    destruct (member_errs_names _ _ _ _ _ Hin) as [Ht Hfs]. simpl in Hfs. split; [|split; [assumption|]].
    + apply (verrors_In m t (DStruct st)); auto. simpl. unfold struct_errs. apply in_or_app. right. apply in_or_app. left.
      apply in_flat_map. eauto.
    + intros n0 Hn0. inv Hn0. rewrite Hfs. now left.
  - exists {| e_kind := MUnknownInlined; e_args := [bad]; e_type := s_name st; e_fields := [] |}. split; [|split; [reflexivity | discriminate]].
    apply (verrors_In m t (DStruct st)); auto. simpl. unfold struct_errs. apply in_or_app. right. apply in_or_app. left.
    apply in_flat_map. exists (InlinePlaceholder bad c). split; [assumption|]. simpl. unfold validate_unnamed_inline.
    unfold is_known_type, pymem, vo_known_type_mem, dict_mem. rewrite tdm_get_lookup by assumption. rewrite Hfresh. simpl. now left.
  - destruct (duplicate_error_twice MDupField (s_name st) l1 n l2 l3) as [e [Hin [Ht Hn]]].
    exists e. split; [|split; [assumption | intros n0 Hn0; inv Hn0; assumption]].
    apply (verrors_In m t (DStruct st)); auto. simpl. unfold struct_errs. apply in_or_app. left.
    unfold member_names. rewrite named_fields_members, Hdup. assumption.
  - destruct (duplicate_error_twice MDupEnum name l1 n l2 l3) as [e [Hin [Ht Hn]]].
    exists e. split; [|split; [assumption | intros n0 Hn0; inv Hn0; assumption]].
    apply (verrors_In m t (DEnum name b vs a c)); auto. simpl. unfold validate_enum. rewrite Hdup. assumption.
Qed.

(* ------------------------------------------------------------------------------------------------------------------ *)
(* frame: a change confined to the declarations C produces errors only for declarations of C *)

Definition rel_decl (C : list string) (d d' : decl) : Prop := d = d' \/ (In (decl_name d) C /\ same_interface d d').
Definition rel_weak (d d' : decl) : Prop := d = d' \/ same_interface d d'.

Lemma same_interface_name d d' : same_interface d d' -> decl_name d = decl_name d'.
Proof. destruct d, d'; simpl; try tauto; intros [H _]; assumption. Qed.
Lemma rel_decl_name C d d' : rel_decl C d d' -> decl_name d = decl_name d'.
Proof. intros [->|[_ H]]; [reflexivity | now apply same_interface_name]. Qed.

Section DictRel.
Context {A : Type} (R : A -> A -> Prop).
Definition rel_item (kv kv' : string * A) : Prop := fst kv = fst kv' /\ R (snd kv) (snd kv').

Lemma dict_set_rel d d' k v v' : Forall2 rel_item d d' -> R v v' -> Forall2 rel_item (dict_set k v d) (dict_set k v' d').
Proof.
  intros H Hv. induction H as [|[k1 v1] [k2 v2] r r' [Hk Hr] Hrest IH]; simpl.
  - constructor; [split; auto | constructor].
  - simpl in Hk. subst k2. destruct (k1 =? k); constructor; try split; auto.
Qed.

Lemma fold_dict_rel (l l' : list (string * A)) d d' :
  Forall2 rel_item l l' -> Forall2 rel_item d d' ->
  Forall2 rel_item (fold_left (fun d kv => dict_set (fst kv) (snd kv) d) l d) (fold_left (fun d kv => dict_set (fst kv) (snd kv) d) l' d').
Proof.
  intros H. revert d d'. induction H as [|[k v] [k' v'] r r' [Hk Hv] Hrest IH]; simpl; intros d d' Hd; [assumption|].
  simpl in Hk. subst k'. apply IH. now apply dict_set_rel.
Qed.

Lemma dict_get_rel d d' k :
  Forall2 rel_item d d' ->
  match dict_get d k, dict_get d' k with None, None => True | Some a, Some b => R a b | _, _ => False end.
Proof.
  intros H. induction H as [|[k1 v1] [k2 v2] r r' [Hk Hr] Hrest IH]; simpl; [trivial|].
  simpl in Hk. subst k2. destruct (k1 =? k); assumption.
Qed.
End DictRel.

Lemma tdm_of_rel C t t' : confined C t t' -> Forall2 (rel_item (rel_decl C)) (tdm_of t) (tdm_of t').
Proof.
  intros H. unfold tdm_of, dict_of_pairs. apply fold_dict_rel; [|constructor].
  induction H as [|d d' r r' Hd Hrest IH]; simpl; constructor; [|assumption].
  split; simpl; [now apply (rel_decl_name C) | assumption].
Qed.

Section Frame.
Variables t1 t2 : tdm.
Hypothesis Hrel : forall k, match dict_get t1 k, dict_get t2 k with None, None => True | Some a, Some b => rel_weak a b | _, _ => False end.

Lemma frame_known o : is_known_type t2 o = is_known_type t1 o.
Proof.
  destruct o as [n|]; [|reflexivity]. unfold is_known_type, dict_mem. specialize (Hrel n).
  destruct (dict_get t1 n), (dict_get t2 n); try reflexivity; contradiction.
Qed.

Lemma frame_find_struct o :
  match find_struct t1 o, find_struct t2 o with
  | None, None => True
  | Some a, Some b => s_disp a = s_disp b /\ find_attr (s_attrs a) "is_size_implicit" = find_attr (s_attrs b) "is_size_implicit" /\ incl (map fst (members (s_fields a))) (map fst (members (s_fields b)))
  | _, _ => False
  end.
Proof.
  destruct o as [n|]; simpl; [|trivial]. specialize (Hrel n).
  destruct (dict_get t1 n) as [d1|], (dict_get t2 n) as [d2|]; try contradiction; [|trivial].
  destruct Hrel as [->|Hs].
  - destruct d2; try trivial. repeat split; auto. apply incl_refl.
  - destruct d1, d2; simpl in Hs; try contradiction; try trivial. tauto.
Qed.

Lemma frame_type_errors mk ty d : type_errors t2 mk ty d = type_errors t1 mk ty d.
Proof.
  unfold type_errors. rewrite frame_known. destruct (is_known_type t1 (ftype_name ty)); [|reflexivity]. cbn [negb].
  pose proof (frame_find_struct (ftype_name ty)) as H. rewrite !not_inline_struct_spec.
  destruct (find_struct t1 (ftype_name ty)), (find_struct t2 (ftype_name ty)); try contradiction; [|reflexivity].
  destruct H as [-> _]. reflexivity.
Qed.

Lemma sort_key_in_iff sk fs : sort_key_in sk fs = true <-> exists k, sk = Some k /\ In k (map fst (members fs)).
Proof.
  destruct sk as [k|].
  - rewrite sort_key_in_spec. unfold has_member. rewrite <- dict_get_member_type. split.
    + intros H. exists k. split; [reflexivity|]. destruct (dict_get (members fs) k) eqn:E; [|discriminate].
      apply dict_get_In in E. change k with (fst (k, f)). now apply in_map.
    + intros [k' [Hk Hin]]. inv Hk. destruct (dict_get (members fs) k') eqn:E; [reflexivity|].
      apply dict_get_none_iff in E. contradiction.
  - split; [|intros [k [H _]]; discriminate]. unfold sort_key_in. intros H. apply existsb_exists in H. destruct H as [f [_ Hf]].
    destruct (field_name f); discriminate.
Qed.

Lemma frame_array fm mk a : validate_array t1 fm mk a = [] -> validate_array t2 fm mk a = [].
Proof.
  unfold validate_array. rewrite frame_known. intros H.
  apply app_eq_nil in H. destruct H as [H1 H]. apply app_eq_nil in H. destruct H as [H2 H3].
  rewrite H1, H3, app_nil_r. cbn [app].
  destruct (is_known_type t1 (elem_name (a_elem a))); cbn [negb] in *; [|assumption].
  pose proof (frame_find_struct (elem_name (a_elem a))) as Hf.
  destruct (match a_sort_key a with Some k => k =? "" | None => true end); [reflexivity|]. cbn [orb] in *.
  destruct (find_struct t1 (elem_name (a_elem a))) as [s1|], (find_struct t2 (elem_name (a_elem a))) as [s2|]; try contradiction; try assumption.
  destruct Hf as [_ [_ Hincl]].
  destruct (sort_key_in (a_sort_key a) (s_fields s1)) eqn:E1; [|discriminate].
  apply sort_key_in_iff in E1. destruct E1 as [k [Hk Hin]].
  assert (E2 : sort_key_in (a_sort_key a) (s_fields s2) = true) by (apply sort_key_in_iff; exists k; split; [assumption | now apply Hincl]).
  now rewrite E2.
Qed.

Lemma frame_in_range mk ty v : in_range_errs t1 mk ty v = [] -> in_range_errs t2 mk ty v = [].
Proof.
  unfold in_range_errs. destruct ty as [i|n|a]; try tauto. specialize (Hrel n).
  destruct (dict_get t1 n) as [d1|], (dict_get t2 n) as [d2|]; try contradiction; try tauto.
  destruct Hrel as [->|Hs]; [tauto|].
  destruct d1 as [| n1 b1 vs1 a1 c1 | s1], d2 as [| n2 b2 vs2 a2 c2 | s2]; simpl in Hs; try contradiction; try tauto.
  destruct Hs as [_ Hincl]. intros H.
  destruct (existsb (fun ev => cv_is_name v (ev_name ev)) vs1) eqn:E; [|discriminate].
  apply existsb_exists in E. destruct E as [ev [Hev Hv]].
  assert (Hin : In (ev_name ev) (map ev_name vs2)) by (apply Hincl; now apply in_map).
  apply in_map_iff in Hin. destruct Hin as [ev2 [Hn Hev2]].
  assert (E2 : existsb (fun ev => cv_is_name v (ev_name ev)) vs2 = true).
  { apply existsb_exists. exists ev2. split; [assumption|]. now rewrite Hn. }
  now rewrite E2.
Qed.

Lemma frame_sizeof fm mk v : sizeof_errs t1 fm mk v = [] -> sizeof_errs t2 fm mk v = [].
Proof.
  unfold sizeof_errs. destruct v as [|z|x|c]; try tauto.
  destruct (dict_get fm x) as [[i|n|a]|]; try tauto. specialize (Hrel n).
  destruct (dict_get t1 n) as [d1|], (dict_get t2 n) as [d2|]; try contradiction; try tauto.
  destruct Hrel as [->|Hs]; [tauto|].
  destruct d1 as [| | s1], d2 as [| | s2]; simpl in Hs; try contradiction; try discriminate.
  destruct Hs as [_ [_ [Ha _]]]. unfold lookup_attr_value. change vo_attr_is_size_implicit with "is_size_implicit". rewrite <- Ha. tauto.
Qed.

Lemma frame_value fm mk ty v d : value_errs t1 fm mk ty v d = [] -> value_errs t2 fm mk ty v d = [].
Proof.
  unfold value_errs, conditional_errs. destruct v as [|z|x|c]; try tauto; destruct (is_sizeof_disp d);
    auto using frame_sizeof, frame_in_range.
  destruct (dict_get fm (c_link c)); auto using frame_in_range.
Qed.

Lemma frame_member fm sname f : member_errs t1 fm sname f = [] -> member_errs t2 fm sname f = [].
Proof.
  destruct f as [n ty v d a c|tn c]; simpl.
  - unfold field_errs. rewrite frame_type_errors. intros H.
    apply app_eq_nil in H. destruct H as [H1 H]. apply app_eq_nil in H. destruct H as [H2 H]. apply app_eq_nil in H. destruct H as [H3 H4].
    rewrite H1, H4, (frame_value _ _ _ _ _ H3). cbn [app]. rewrite app_nil_r.
    destruct ty as [i|x|arr]; cbn [detail_errors] in *; auto using frame_array.
  - unfold validate_unnamed_inline. now rewrite frame_known.
Qed.

Lemma frame_decl m d : decl_errs m t1 d = [] -> decl_errs m t2 d = [].
Proof.
  destruct d as [n l c|n b vs a c|st]; simpl; try tauto.
  unfold struct_errs. intros H. apply app_eq_nil in H. destruct H as [H1 H]. apply app_eq_nil in H. destruct H as [H2 H3].
  rewrite H1, H3, app_nil_r. cbn [app]. apply flat_map_nil. intros f Hf. apply frame_member. now apply (flat_map_nil_inv _ _ H2).
Qed.
End Frame.

Theorem frame m C t t' : verrors m t = [] -> confined C t t' -> forall e, In e (verrors m t') -> In (e_type e) C.
Proof.
  intros Hnil Hconf e He. pose proof (tdm_of_rel C t t' Hconf) as Hrel.
  assert (Hget : forall k, match dict_get (tdm_of t) k, dict_get (tdm_of t') k with None, None => True | Some a, Some b => rel_weak a b | _, _ => False end).
  { intros k. pose proof (dict_get_rel (rel_decl C) _ _ k Hrel) as H.
    destruct (dict_get (tdm_of t) k), (dict_get (tdm_of t') k); try assumption. destruct H as [->|[_ H]]; [now left | now right]. }
  unfold verrors in He. apply in_flat_map in He. destruct He as [[k d'] [Hin He]]. simpl in He.
  (* the corresponding item of tdm_of t *)
  assert (Hpair : exists d, In (k, d) (tdm_of t) /\ rel_decl C d d').
  { clear -Hrel Hin. induction Hrel as [|[k1 v1] [k2 v2] r r' [Hk Hr] Hrest IH]; [contradiction|].
    simpl in Hk. subst k2. destruct Hin as [Heq|Hin].
    - inv Heq. exists v1. split; [now left | assumption].
    - destruct (IH Hin) as [d [Hd Hrd]]. exists d. split; [now right | assumption]. }
  destruct Hpair as [d [Hd Hrd]].
  rewrite (decl_errs_names _ _ _ _ He).
  destruct Hrd as [->|[HC Hs]].
  - exfalso. unfold verrors in Hnil. pose proof (flat_map_nil_inv _ _ Hnil (k, d') Hd) as Hd0. simpl in Hd0.
    rewrite (frame_decl _ _ Hget m d' Hd0) in He. contradiction.
  - now rewrite <- (same_interface_name _ _ Hs).
Qed.

(* ------------------------------------------------------------------------------------------------------------------ *)
(* breaking exactly one site: the change is confined to the declaring struct and produces a broken site *)

Lemma lookup_none_names s n : lookup s n = None <-> ~ In n (map decl_name s).
Proof.
  unfold lookup. induction s as [|d r IH]; simpl; [tauto|].
  destruct (decl_name d =? n) eqn:E.
  - apply String.eqb_eq in E. split; [discriminate | intros H; exfalso; auto].
  - rewrite IH. split; [intros H [H1|H1]; [subst; now rewrite String.eqb_refl in E | auto] | tauto].
Qed.

Lemma lookup_unique s d : nodupb (map decl_name s) = true -> In d s -> lookup s (decl_name d) = Some d.
Proof.
  intros Hnd Hin. apply nodupb_NoDup in Hnd. unfold lookup. induction s as [|x r IH]; [contradiction|]. simpl in *. inv Hnd.
  destruct Hin as [->|Hin]; [now rewrite String.eqb_refl|].
  destruct (decl_name x =? decl_name d) eqn:E; [|auto].
  apply String.eqb_eq in E. exfalso. apply H1. rewrite E. now apply in_map.
Qed.

Lemma Forall2_map_self {A} (R : A -> A -> Prop) (f : A -> A) l : (forall x, In x l -> R x (f x)) -> Forall2 R l (map f l).
Proof. induction l as [|x r IH]; simpl; intros H; constructor; auto. Qed.

Definition upd (D : string) (g : struct -> struct) (d : decl) : decl :=
  match d with DStruct st => if s_name st =? D then DStruct (g st) else d | _ => d end.
Lemma update_struct_map s D g : update_struct s D g = map (upd D g) s.
Proof. reflexivity. Qed.

Lemma update_struct_names s D g : (forall st, s_name (g st) = s_name st) -> map decl_name (update_struct s D g) = map decl_name s.
Proof.
  intros Hg. rewrite update_struct_map, map_map. apply map_ext. intros d. destruct d as [| |st]; simpl; try reflexivity.
  destruct (s_name st =? D); simpl; auto.
Qed.

Lemma update_struct_confined s D g st :
  nodupb (map decl_name s) = true -> lookup s D = Some (DStruct st) -> same_interface (DStruct st) (DStruct (g st)) ->
  confined [D] s (update_struct s D g).
Proof.
  intros Hnd Hl Hs. rewrite update_struct_map. apply Forall2_map_self. intros d Hin.
  destruct d as [| |st']; simpl; try (now left).
  destruct (s_name st' =? D) eqn:E; [|now left]. apply String.eqb_eq in E.
  pose proof (lookup_unique s (DStruct st') Hnd Hin) as Hu. simpl in Hu. rewrite E, Hl in Hu. inv Hu.
  right. split; [simpl; now left | assumption].
Qed.

Lemma update_struct_In s D g st : In (DStruct st) s -> s_name st = D -> In (DStruct (g st)) (update_struct s D g).
Proof.
  intros Hin Hn. rewrite update_struct_map. apply in_map_iff. exists (DStruct st). split; [|assumption].
  simpl. subst D. now rewrite String.eqb_refl.
Qed.

Lemma update_struct_structs s D g y :
  In (DStruct y) (update_struct s D g) -> In (DStruct y) s \/ exists x, In (DStruct x) s /\ s_name x = D /\ y = g x.
Proof.
  rewrite update_struct_map. intros H. apply in_map_iff in H. destruct H as [d [Hd Hin]].
  destruct d as [| |st]; simpl in Hd; try discriminate.
  - destruct (s_name st =? D) eqn:E; inv Hd; [|now left]. apply String.eqb_eq in E. right. eauto.
Qed.

Lemma update_struct_enums s D g n b vs a c : In (DEnum n b vs a c) (update_struct s D g) -> In (DEnum n b vs a c) s.
Proof.
  rewrite update_struct_map. intros H. apply in_map_iff in H. destruct H as [d [Hd Hin]].
  destruct d as [? ? ?|? ? ? ? ?|st]; simpl in Hd; [discriminate | now rewrite <- Hd | destruct (s_name st =? D); discriminate].
Qed.

Lemma replace_nth_names i f f' fs :
  nth_error fs i = Some f -> field_name f' = field_name f -> map fst (members (replace_nth i f' fs)) = map fst (members fs).
Proof.
  revert i. induction fs as [|x r IH]; intros i Hn Hname; destruct i; simpl in *; try discriminate.
  - inv Hn. unfold members. simpl. rewrite !map_app. f_equal.
    destruct f as [n ty v d a c|tn c], f' as [n' ty' v' d' a' c'|tn' c']; simpl in *; try discriminate; try reflexivity. now inv Hname.
  - unfold members in *. simpl. rewrite !map_app. f_equal. now apply IH.
Qed.

Lemma replace_nth_In {A} i (x y : A) l : nth_error l i = Some y -> In x (replace_nth i x l).
Proof. revert i. induction l as [|z r IH]; intros i H; destruct i; simpl in *; try discriminate; [now left | right; eauto]. Qed.

Definition site_member (s : list decl) (x : site) : option string :=
  match site_field s x with Some f => field_name f | None => None end.

Record rewrite_facts (s s' : list decl) (D : string) (st st' : struct) (f' : field) : Prop := {
  rf_confined : confined [D] s s';
  rf_names : map decl_name s' = map decl_name s;
  rf_old : In (DStruct st) s /\ s_name st = D;
  rf_new : In (DStruct st') s' /\ s_name st' = D;
  rf_field : In f' (s_fields st');
  rf_members : map fst (members (s_fields st')) = map fst (members (s_fields st));
  rf_structs : forall y, In (DStruct y) s' -> y = st' \/ In (DStruct y) s;
  rf_enums : forall n b vs a c, In (DEnum n b vs a c) s' -> In (DEnum n b vs a c) s
}.

Lemma rewrite_site_facts s x f f' :
  nodupb (map decl_name s) = true -> site_field s x = Some f -> field_name f' = field_name f ->
  exists st, rewrite_facts s (rewrite_site s x f') (fst x) st (with_fields st (replace_nth (snd x) f' (s_fields st))) f'.
Proof.
  intros Hnd Hsite Hname. unfold site_field in Hsite.
  destruct (lookup s (fst x)) as [[| |st]|] eqn:El; try discriminate.
  exists st. destruct (lookup_In _ _ _ El) as [Hin Hn]. simpl in Hn.
  set (g := fun st0 => with_fields st0 (replace_nth (snd x) f' (s_fields st0))).
  assert (Hmem : map fst (members (s_fields (g st))) = map fst (members (s_fields st))) by (now apply (replace_nth_names _ f)).
  constructor.
  - apply (update_struct_confined s (fst x) g st Hnd El). simpl. repeat split; auto. change (replace_nth (snd x) f' (s_fields st)) with (s_fields (g st)). rewrite Hmem. apply incl_refl.
  - now apply update_struct_names.
  - auto.
  - split; [now apply (update_struct_In s (fst x) g st) | assumption].
  - simpl. now apply (replace_nth_In _ _ f).
  - exact Hmem.
  - intros y Hy. apply update_struct_structs in Hy. destruct Hy as [Hy|[x0 [Hx0 [Hn0 ->]]]]; [now right|].
    left. pose proof (lookup_unique s (DStruct x0) Hnd Hx0) as Hu. simpl in Hu. rewrite Hn0, El in Hu. now inv Hu.
  - intros. eapply update_struct_enums; eauto.
Qed.

Lemma fresh_type_preserved s s' bad : map decl_name s' = map decl_name s -> fresh_type s bad -> fresh_type s' bad.
Proof. unfold fresh_type. rewrite !lookup_none_names. now intros ->. Qed.

Lemma fresh_member_preserved s s' D st st' f' bad : rewrite_facts s s' D st st' f' -> fresh_member s bad -> fresh_member s' bad.
Proof.
  intros R [Hne Hf]. split; [assumption|]. intros y Hy. destruct (rf_structs _ _ _ _ _ _ R y Hy) as [->|Hin]; [|auto].
  rewrite (rf_members _ _ _ _ _ _ R). apply Hf. apply (rf_old _ _ _ _ _ _ R).
Qed.

Lemma fresh_const_preserved s s' D st st' f' x : rewrite_facts s s' D st st' f' -> fresh_const s x -> fresh_const s' x.
Proof. intros R Hf n b vs a c Hin. eapply Hf. eapply (rf_enums _ _ _ _ _ _ R); eauto. Qed.

(* one lemma for every breakage that rewrites one member in place, keeping its name *)
Lemma break_with_spec (brk : string -> field -> option field) bad x s s' :
  (forall f f', brk bad f = Some f' -> field_name f' = field_name f) ->
  nodupb (map decl_name s) = true -> break_with brk bad x s = Some s' ->
  exists f f' st st', site_field s x = Some f /\ brk bad f = Some f' /\ rewrite_facts s s' (fst x) st st' f'.
Proof.
  intros Hbrk Hnd H. unfold break_with in H.
  destruct (site_field s x) as [f|] eqn:Es; [|discriminate]. destruct (brk bad f) as [f'|] eqn:Eb; [|discriminate]. inv H.
  destruct (rewrite_site_facts s x f f' Hnd Es (Hbrk _ _ Eb)) as [st R]. eauto 10.
Qed.

Lemma site_of_facts s s' D st st' f' n :
  rewrite_facts s s' D st st' f' -> field_name f' = Some n -> broken_field s' (members (s_fields st')) f' -> broken_site s' D (Some n).
Proof.
  intros R Hn Hb. destruct (rf_new _ _ _ _ _ _ R) as [Hin <-]. eapply SiteField; eauto. apply (rf_field _ _ _ _ _ _ R).
Qed.

Ltac break_start H Hnd :=
  let f := fresh "f" in let f' := fresh "f'" in let st := fresh "st" in let st' := fresh "st'" in
  let Hs := fresh "Hsite" in let Hb := fresh "Hbrk" in let R := fresh "R" in
  apply break_with_spec in H; [destruct H as [f [f' [st [st' [Hs [Hb R]]]]]] | | exact Hnd].

Definition broken_after (s s' : list decl) (x : site) : Prop :=
  confined [fst x] s s' /\ map decl_name s' = map decl_name s /\ exists n, site_member s x = Some n /\ broken_site s' (fst x) (Some n).

Lemma broken_after_intro s s' x f f' st st' n :
  site_field s x = Some f -> field_name f = Some n -> field_name f' = Some n ->
  rewrite_facts s s' (fst x) st st' f' -> broken_field s' (members (s_fields st')) f' -> broken_after s s' x.
Proof.
  intros Hs Hn Hn' R Hb. split; [apply (rf_confined _ _ _ _ _ _ R)|]. split; [apply (rf_names _ _ _ _ _ _ R)|].
  exists n. split; [unfold site_member; now rewrite Hs | eapply site_of_facts; eauto].
Qed.

Lemma break_member_type_spec s x bad s' :
  nodupb (map decl_name s) = true -> fresh_type s bad -> break_with break_member_type bad x s = Some s' -> broken_after s s' x.
Proof.
  intros Hnd Hfresh H. break_start H Hnd.
  - destruct f as [n ty v d a c|]; [|discriminate]. destruct ty; try discriminate. inv Hbrk.
    eapply broken_after_intro; eauto; try reflexivity. constructor. apply (fresh_type_preserved s); [apply (rf_names _ _ _ _ _ _ R) | assumption].
  - intros f f' Hb. destruct f as [n ty v d a c|]; [|discriminate]. destruct ty; try discriminate. now inv Hb.
Qed.

Lemma break_elem_type_spec s x bad s' :
  nodupb (map decl_name s) = true -> fresh_type s bad -> break_with break_elem_type bad x s = Some s' -> broken_after s s' x.
Proof.
  intros Hnd Hfresh H. break_start H Hnd.
  - destruct f as [n ty v d a c|]; [|discriminate]. destruct ty; try discriminate. inv Hbrk.
    eapply broken_after_intro; eauto; try reflexivity. eapply BrokenElemType; [|reflexivity]. apply (fresh_type_preserved s); [apply (rf_names _ _ _ _ _ _ R) | assumption].
  - intros f f' Hb. destruct f as [n ty v d a c|]; [|discriminate]. destruct ty; try discriminate. now inv Hb.
Qed.

Lemma break_size_member_spec s x bad s' :
  nodupb (map decl_name s) = true -> (forall st, In (DStruct st) s -> s_name st = fst x -> ~ In bad (map fst (members (s_fields st)))) ->
  break_with break_size_member bad x s = Some s' -> broken_after s s' x.
Proof.
  intros Hnd Hfresh H. break_start H Hnd.
  - destruct f as [n ty v d a c|]; [|discriminate]. destruct ty; try discriminate. inv Hbrk.
    eapply broken_after_intro; eauto; try reflexivity. eapply BrokenSizeMember; [reflexivity|].
    rewrite (rf_members _ _ _ _ _ _ R). destruct (rf_old _ _ _ _ _ _ R). auto.
  - intros f f' Hb. destruct f as [n ty v d a c|]; [|discriminate]. destruct ty; try discriminate. now inv Hb.
Qed.

Lemma break_sort_key_spec s x bad s' :
  nodupb (map decl_name s) = true -> fresh_member s bad -> break_with break_sort_key bad x s = Some s' -> broken_after s s' x.
Proof.
  intros Hnd Hfresh H. break_start H Hnd.
  - destruct f as [n ty v d a c|]; [|discriminate]. destruct ty; try discriminate. inv Hbrk.
    eapply broken_after_intro; eauto; try reflexivity. eapply BrokenSortKey; [reflexivity|]. eapply fresh_member_preserved; eauto.
  - intros f f' Hb. destruct f as [n ty v d a c|]; [|discriminate]. destruct ty; try discriminate. now inv Hb.
Qed.

Lemma break_sizeof_member_spec s x bad s' :
  nodupb (map decl_name s) = true -> (forall st, In (DStruct st) s -> s_name st = fst x -> ~ In bad (map fst (members (s_fields st)))) ->
  break_with break_sizeof_member bad x s = Some s' -> broken_after s s' x.
Proof.
  intros Hnd Hfresh H. break_start H Hnd.
  - destruct f as [n ty v d a c|]; [|discriminate]. destruct v; try discriminate. destruct d; try discriminate. inv Hbrk.
    eapply broken_after_intro; eauto; try reflexivity. eapply BrokenSizeofMember.
    rewrite (rf_members _ _ _ _ _ _ R). destruct (rf_old _ _ _ _ _ _ R). auto.
  - intros f f' Hb. destruct f as [n ty v d a c|]; [|discriminate]. destruct v; try discriminate. destruct d; try discriminate. now inv Hb.
Qed.

Lemma break_sizeref_spec s x bad s' :
  nodupb (map decl_name s) = true -> (forall st, In (DStruct st) s -> s_name st = fst x -> ~ In bad (map fst (members (s_fields st)))) ->
  break_with break_sizeref bad x s = Some s' -> broken_after s s' x.
Proof.
  intros Hnd Hfresh H. break_start H Hnd.
  - destruct f as [n ty v d a c|]; [|discriminate]. destruct ty as [i| |]; try discriminate.
    simpl in Hbrk. destruct (it_sizeref i) as [[p delta]|] eqn:Ei; [|discriminate]. inv Hbrk.
    eapply broken_after_intro; eauto; try reflexivity. eapply BrokenSizeref; [reflexivity|].
    rewrite (rf_members _ _ _ _ _ _ R). destruct (rf_old _ _ _ _ _ _ R). auto.
  - intros f f' Hb. destruct f as [n ty v d a c|]; [|discriminate]. destruct ty as [i| |]; try discriminate.
    simpl in Hb. destruct (it_sizeref i) as [[p delta]|]; [|discriminate]. now inv Hb.
Qed.

Lemma not_sizeof_ne d : not_sizeof d = true -> d <> DispSizeof.
Proof. destruct d; simpl; congruence. Qed.

Lemma break_cond_member_spec s x bad s' :
  nodupb (map decl_name s) = true -> (forall st, In (DStruct st) s -> s_name st = fst x -> ~ In bad (map fst (members (s_fields st)))) ->
  break_with break_cond_member bad x s = Some s' -> broken_after s s' x.
Proof.
  intros Hnd Hfresh H. break_start H Hnd.
  - destruct f as [n ty v d a c|]; [|discriminate]. destruct v; try discriminate. simpl in Hbrk.
    destruct (not_sizeof d) eqn:Ed; [|discriminate]. inv Hbrk.
    eapply broken_after_intro; eauto; try reflexivity. eapply BrokenCondMember; [now apply not_sizeof_ne|]. simpl.
    rewrite (rf_members _ _ _ _ _ _ R). destruct (rf_old _ _ _ _ _ _ R). auto.
  - intros f f' Hb. destruct f as [n ty v d a c|]; [|discriminate]. destruct v; try discriminate. simpl in Hb.
    destruct (not_sizeof d); [|discriminate]. now inv Hb.
Qed.

Lemma break_cond_value_spec s x bad s' :
  nodupb (map decl_name s) = true -> fresh_const s bad -> break_with break_cond_value bad x s = Some s' -> broken_after s s' x.
Proof.
  intros Hnd Hfresh H. break_start H Hnd.
  - destruct f as [n ty v d a c|]; [|discriminate]. destruct v; try discriminate. simpl in Hbrk.
    destruct (not_sizeof d) eqn:Ed; [|discriminate]. inv Hbrk.
    eapply broken_after_intro; eauto; try reflexivity. eapply BrokenCondValue; [now apply not_sizeof_ne | reflexivity |].
    eapply fresh_const_preserved; eauto.
  - intros f f' Hb. destruct f as [n ty v d a c|]; [|discriminate]. destruct v; try discriminate. simpl in Hb.
    destruct (not_sizeof d); [|discriminate]. now inv Hb.
Qed.

Lemma break_const_value_spec s x bad s' :
  nodupb (map decl_name s) = true -> fresh_const s bad -> break_with break_const_value bad x s = Some s' -> broken_after s s' x.
Proof.
  intros Hnd Hfresh H. break_start H Hnd.
  - destruct f as [n ty v d a c|]; [|discriminate]. destruct v; try discriminate; simpl in Hbrk;
      (destruct (not_sizeof d) eqn:Ed; [|discriminate]); inv Hbrk;
      (eapply broken_after_intro; eauto; try reflexivity; eapply BrokenConstValue; [now apply not_sizeof_ne | eapply fresh_const_preserved; eauto]).
  - intros f f' Hb. destruct f as [n ty v d a c|]; [|discriminate]. destruct v; try discriminate; simpl in Hb;
      (destruct (not_sizeof d); [|discriminate]); now inv Hb.
Qed.

(* unnamed inline: the site has no member *)
Lemma break_inlined_type_spec s x bad s' :
  nodupb (map decl_name s) = true -> fresh_type s bad -> break_with break_inlined_type bad x s = Some s' ->
  confined [fst x] s s' /\ map decl_name s' = map decl_name s /\ site_member s x = None /\ broken_site s' (fst x) None.
Proof.
  intros Hnd Hfresh H. break_start H Hnd.
  - destruct f as [|tn c]; [discriminate|]. inv Hbrk.
    split; [apply (rf_confined _ _ _ _ _ _ R)|]. split; [apply (rf_names _ _ _ _ _ _ R)|].
    split; [unfold site_member; now rewrite Hsite|].
    destruct (rf_new _ _ _ _ _ _ R) as [Hin <-]. eapply SiteInlinedType; [exact Hin | apply (rf_field _ _ _ _ _ _ R) |].
    apply (fresh_type_preserved s); [apply (rf_names _ _ _ _ _ _ R) | assumption].
  - intros f f' Hb. destruct f as [|tn c]; [discriminate|]. now inv Hb.
Qed.

(* duplicate member *)
Lemma insert_after_names i n ty v d a c fs :
  nth_error fs i = Some (Field n ty v d a c) ->
  exists l1 l3, map fst (members fs) = l1 ++ n :: l3 /\ map fst (members (insert_after i (Field n ty v d a c) fs)) = l1 ++ n :: [] ++ n :: l3.
Proof.
  revert i. induction fs as [|x r IH]; intros i H; destruct i; simpl in *; try discriminate.
  - inv H. exists [], (map fst (members r)). unfold members. simpl. auto.
  - destruct (IH _ H) as [l1 [l3 [E1 E2]]].
    exists (map fst (members [x]) ++ l1), l3. unfold members in *. simpl. rewrite !map_app, app_nil_r, E1, E2, <- !app_assoc. auto.
Qed.

Lemma break_duplicate_member_spec s x s' :
  nodupb (map decl_name s) = true -> break_duplicate_member x s = Some s' -> broken_after s s' x.
Proof.
  intros Hnd H. unfold break_duplicate_member in H.
  destruct (site_field s x) as [[n ty v d a c|]|] eqn:Es; try discriminate. inv H.
  unfold site_field in Es. destruct (lookup s (fst x)) as [[| |st]|] eqn:El; try discriminate.
  destruct (lookup_In _ _ _ El) as [Hin Hn]. simpl in Hn.
  set (g := fun st0 => with_fields st0 (insert_after (snd x) (Field n ty v d a c) (s_fields st0))).
  destruct (insert_after_names _ _ _ _ _ _ _ _ Es) as [l1 [l3 [E1 E2]]].
  split; [|split].
  - apply (update_struct_confined s (fst x) g st Hnd El). simpl. repeat split; auto.
    rewrite E1, E2. intros y Hy. apply in_app_or in Hy. apply in_or_app. destruct Hy as [Hy|Hy]; [now left | right].
    simpl in *. destruct Hy as [Hy|Hy]; auto.
  - now apply update_struct_names.
  - exists n. split; [unfold site_member, site_field; now rewrite El, Es|].
    pose proof (update_struct_In s (fst x) g st Hin Hn) as Hnew.
    change (fst x) with (fst x). rewrite <- Hn at 2. change (s_name st) with (s_name (g st)).
    apply SiteDuplicateMember; [exact Hnew|]. exists l1, [], l3. exact E2.
Qed.

(* duplicate enum value name *)
Lemma break_duplicate_enum_value_spec s E i s' :
  nodupb (map decl_name s) = true -> break_duplicate_enum_value E i s = Some s' ->
  confined [E] s s' /\ map decl_name s' = map decl_name s /\ exists n, broken_site s' E (Some n).
Proof.
  intros Hnd H. unfold break_duplicate_enum_value in H.
  destruct (lookup s E) as [[|n b vs a c|]|] eqn:El; try discriminate.
  destruct (nth_error vs i) as [v|] eqn:Ev; [|discriminate]. inv H.
  destruct (lookup_In _ _ _ El) as [Hin Hn]. simpl in Hn. subst n.
  set (g := fun d => match d with DEnum n' b' vs' a' c' => if n' =? E then DEnum n' b' (vs' ++ [v]) a' c' else d | _ => d end).
  split; [|split].
  - apply Forall2_map_self. intros d Hd. destruct d as [| n' b' vs' a' c' |]; try (now left). simpl.
    destruct (n' =? E) eqn:En; [|now left]. apply String.eqb_eq in En. subst n'.
    right. split; [simpl; now left|]. simpl. split; [reflexivity|]. rewrite map_app. now apply incl_appl, incl_refl.
  - rewrite map_map. apply map_ext. intros d. destruct d as [| n' b' vs' a' c' |]; simpl; try reflexivity. destruct (n' =? E); reflexivity.
  - exists (ev_name v). apply (SiteDuplicateEnumValue _ E b (vs ++ [v]) a c).
    + apply in_map_iff. exists (DEnum E b vs a c). split; [|assumption]. simpl. now rewrite String.eqb_refl.
    + apply nth_error_split in Ev. destruct Ev as [l1 [l2 [-> _]]].
      exists (map ev_name l1), (map ev_name l2), []. rewrite !map_app. simpl. now rewrite <- app_assoc.
Qed.

(* carriers *)
Lemma carriers_fuel_incl fuel s acc x : In x acc -> In x (carriers_fuel fuel s acc).
Proof. revert acc. induction fuel as [|k IH]; simpl; intros acc H; [assumption|]. apply IH. apply in_or_app. now left. Qed.
Lemma carriers_self s D : In D (carriers s D).
Proof. apply carriers_fuel_incl. now left. Qed.

(* well-formed initializes attributes *)
Lemma consistent_After_wf sp : consistent After sp = true -> initializers_wf sp = true.
Proof.
  unfold consistent, initializers_wf. intros H. apply andb_prop in H. destruct H as [_ H].
  rewrite forallb_forall in *. intros d Hd. specialize (H d Hd). destruct d as [| |st]; try reflexivity.
  simpl in H. apply andb_prop in H. destruct H as [_ H]. unfold consistent_struct_attrs, struct_wf in *.
  destruct (s_attrs st) as [l|]; [|reflexivity]. unfold attr_list_wf. rewrite forallb_forall in *. intros a Ha. specialize (H a Ha).
  change vo_attr_initializes with "initializes". destruct ("initializes" =? at_name a) eqn:E; [|reflexivity].
  apply String.eqb_eq in E. unfold consistent_struct_attr in H. rewrite <- E in H.
  change ("initializes" =? "size") with false in H. change ("initializes" =? "discriminator") with false in H.
  change ("initializes" =? "comparer") with false in H. change ("initializes" =? "initializes") with true in H. cbv iota in H.
  destruct (at_values a) as [|[z|t0|] [|[z'|v0|] [|y rest]]]; try discriminate. reflexivity.
Qed.

Lemma initializes_complete_wf sp : initializes_complete sp = initializers_wf sp.
Proof. reflexivity. Qed.

Lemma consistent_nodup g s : consistent g s = true -> nodupb (map decl_name s) = true.
Proof. unfold consistent. intros H. apply andb_prop in H. tauto. Qed.

Lemma confined_names C s s' : confined C s s' -> map decl_name s' = map decl_name s.
Proof.
  intros H. induction H as [|d d' r r' Hd Hrest IH]; simpl; [reflexivity|]. rewrite IH. f_equal.
  symmetry. now apply (rel_decl_name C).
Qed.

Lemma confined_weaken C C' s s' : incl C C' -> confined C s s' -> confined C' s s'.
Proof.
  intros Hi H. induction H as [|d d' r r' Hd Hrest IH]; constructor; [|assumption].
  destruct Hd as [->|[Hc Hs]]; [now left | right; split; auto].
Qed.

(* the completeness statement of C06 for one broken site, both stages *)
Definition reported (s : list decl) (D : string) (mname : option string) (errors : list error) : Prop :=
  (exists e, In e errors /\ e_type e = D /\ (forall n, mname = Some n -> In n (e_fields e)))
  /\ (forall e, In e errors -> In (e_type e) (carriers s D)).

Theorem completeness_generic s s' D mname sp (post' : option (list decl)) :
  consistent Before s = true -> consistent After sp = true ->
  confined [D] s s' -> broken_site s' D mname ->
  (forall sp', post' = Some sp' -> confined (carriers s D) sp sp' /\ initializes_complete sp' = true) ->
  exists es_pre es_post,
    validate Pre s' = Ok es_pre
    /\ match post' with Some sp' => validate Post sp' = Ok es_post | None => es_post = [] end
    /\ reported s D mname (es_pre ++ es_post).
Proof.
  intros Hs Hsp Hconf Hbroken Hpost.
  pose proof (consistent_nodup _ _ Hs) as Hnd.
  assert (Hnd' : nodupb (map decl_name s') = true) by (rewrite (confined_names _ _ _ Hconf); assumption).
  exists (verrors Pre s'). exists (match post' with Some sp' => verrors Post sp' | None => [] end).
  split; [apply validate_total; discriminate|]. split.
  - destruct post' as [sp'|]; [|reflexivity]. apply validate_total. intros _.
    rewrite <- initializes_complete_wf. now apply Hpost.
  - split.
    + destruct (detect_site s' D mname Pre Hnd' Hbroken) as [e [Hin [Ht Hn]]].
      exists e. split; [apply in_or_app; now left | auto].
    + intros e He. apply in_app_or in He. destruct He as [He|He].
      * assert (Hc : confined (carriers s D) s s').
        { apply (confined_weaken [D]); [|assumption]. intros y [<-|[]]. apply carriers_self. }
        apply (frame Pre (carriers s D) s s'); auto. apply (verrors_consistent Before s Hs).
      * destruct post' as [sp'|]; [|contradiction].
        apply (frame Post (carriers s D) sp sp'); auto; [apply (verrors_consistent After sp Hsp) | now apply Hpost].
Qed.

(* ------------------------------------------------------------------------------------------------------------------ *)
(* struct-level attribute sites (stage After) *)

Lemma fmap_get_members fs n ty : dict_get (fmap_of fs) n = Some ty -> In (n, ty) (members fs).
Proof. intros H. apply dict_get_In in H. apply dict_of_pairs_In in H. now rewrite named_fields_members in H. Qed.

Lemma pairs_of_comparer l n : In (AvStr n) (comparer_members l) -> exists tr, In (PvStr n, tr) (pairs_of (map pv_of l)).
Proof.
  revert l. fix IH 1. intros l. destruct l as [|a [|b r]]; simpl; try tauto.
  intros [->|H]; [exists (pv_of b); now left|]. destruct (IH r H) as [tr Htr]. exists tr. now right.
Qed.

Lemma initializer_pairs_In l a n v rest :
  In a l -> at_name a = "initializes" -> at_values a = AvStr n :: v :: rest -> In (PvStr n, pv_of v) (initializer_pairs_total l).
Proof.
  induction l as [|x r IH]; [contradiction|]. intros [->|Hin] Hn Hv; cbn [initializer_pairs_total]; change vo_attr_initializes with "initializes".
  - rewrite Hn. change ("initializes" =? "initializes") with true. cbv iota. rewrite Hv. now left.
  - destruct ("initializes" =? at_name x); [destruct (at_values x) as [|v0 [|v1 vs]]; try (right); auto | auto].
Qed.

Lemma detect_struct_attr st : broken_struct_attr st -> struct_attr_errs (fmap_of (s_fields st)) st <> [].
Proof.
  set (fm := fmap_of (s_fields st)).
  assert (Hmiss : forall n, ~ In n (map fst (members (s_fields st))) -> pv_in_fm (PvStr n) fm = false).
  { intros n H. simpl. unfold dict_mem, fm. now rewrite fmap_mem_false. }
  intros Hb. unfold struct_attr_errs. destruct Hb as [a n Ha Hv Hne Hint | a n Ha Hv Hn | a n Ha Hv Hn | attrs a n v rest Hattrs Hin Hname Hv Hn].
  - apply nonempty_app_l. unfold size_attr_errs, lookup_attr_value. change vo_attr_size with "size". rewrite Ha. unfold attr_value. rewrite Hv.
    cbn [pv_of truthy]. assert (E : (n =? "") = false) by (destruct (n =? "") eqn:E; [apply String.eqb_eq in E; contradiction | reflexivity]).
    rewrite E. cbn [negb]. destruct (dict_get fm n) as [[i|x|x]|] eqn:Eg; try discriminate.
    apply fmap_get_members in Eg. exfalso. eapply Hint; eauto.
  - apply nonempty_app_r, nonempty_app_l. unfold discriminator_errs, lookup_attr_values. change vo_attr_discriminator with "discriminator". rewrite Ha.
    unfold known_field_errs. apply (in_map pv_of) in Hv. cbn [pv_of] in Hv.
    induction (map pv_of (at_values a)) as [|x r IH]; [contradiction|]. cbn [flat_map]. destruct Hv as [->|Hv].
    + rewrite Hmiss by assumption. discriminate.
    + apply nonempty_app_r. auto.
  - apply nonempty_app_r, nonempty_app_r, nonempty_app_l. unfold check_comparer, struct_comparer, lookup_attr_values.
    change vo_attr_comparer with "comparer". rewrite Ha. destruct (pairs_of_comparer _ _ Hv) as [tr Htr].
    induction (pairs_of (map pv_of (at_values a))) as [|x r IH]; [contradiction|]. cbn [flat_map]. destruct Htr as [->|Htr].
    + apply nonempty_app_l, nonempty_app_l. cbn [fst]. rewrite Hmiss by assumption. discriminate.
    + apply nonempty_app_r. auto.
  - apply nonempty_app_r, nonempty_app_r, nonempty_app_r. unfold struct_initializers_total. rewrite Hattrs.
    pose proof (initializer_pairs_In attrs a n v rest Hin Hname Hv) as Hp.
    induction (initializer_pairs_total attrs) as [|x r IH]; [contradiction|]. cbn [flat_map]. destruct Hp as [->|Hp].
    + apply nonempty_app_l. unfold initializer_errs, check_initializer_name. rewrite Hmiss by assumption.
      unfold pymem, vo_init_mem, vo_init_target_raises. cbn [negb]. destruct (negb (pv_in_fm (pv_of v) fm)); cbn [andb]; discriminate.
    + apply nonempty_app_r. auto.
Qed.

Theorem detect_struct_site t st :
  nodupb (map decl_name t) = true -> In (DStruct st) t -> broken_struct_attr st ->
  exists e, In e (verrors Post t) /\ e_type e = s_name st.
Proof.
  intros Hnd Hin Hb. pose proof (detect_struct_attr st Hb) as Hne.
  destruct (struct_attr_errs (fmap_of (s_fields st)) st) as [|e r] eqn:E; [congruence|].
  exists e. split.
  - apply (verrors_In Post t (DStruct st)); auto. simpl. unfold struct_errs. apply in_or_app. right. apply in_or_app. right.
    rewrite attrs_checked_post, E. now left.
  - apply (struct_attr_errs_names (fmap_of (s_fields st)) st). rewrite E. now left.
Qed.

(* a broken struct-level attribute of struct D: the declarations before expansion differ only in D's attributes, the expanded ones only inside the carriers *)
Theorem completeness_struct_level s s' D sp sp' st' :
  consistent Before s = true -> consistent After sp = true ->
  confined [D] s s' -> confined (carriers s D) sp sp' -> initializes_complete sp' = true ->
  In (DStruct st') sp' -> s_name st' = D -> broken_struct_attr st' ->
  exists es_pre es_post,
    validate Pre s' = Ok es_pre /\ validate Post sp' = Ok es_post /\ reported s D None (es_pre ++ es_post).
Proof.
  intros Hs Hsp Hconf Hconf' Hwf Hin Hname Hb.
  exists (verrors Pre s'), (verrors Post sp'). split; [apply validate_total; discriminate|].
  split; [apply validate_total; intros _; now rewrite <- initializes_complete_wf|].
  assert (Hnd' : nodupb (map decl_name sp') = true).
  { rewrite (confined_names _ _ _ Hconf'). apply (consistent_nodup _ _ Hsp). }
  split.
  - destruct (detect_struct_site sp' st' Hnd' Hin Hb) as [e [He Ht]].
    exists e. split; [apply in_or_app; now right|]. split; [congruence | discriminate].
  - intros e He. apply in_app_or in He. destruct He as [He|He].
    + apply (frame Pre (carriers s D) s s'); auto; [apply (verrors_consistent Before s Hs)|].
      apply (confined_weaken [D]); [|assumption]. intros y [<-|[]]. apply carriers_self.
    + apply (frame Post (carriers s D) sp sp'); auto. apply (verrors_consistent After sp Hsp).
Qed.

(* ------------------------------------------------------------------------------------------------------------------ *)
(* the statements of Props/C06.v *)

Definition complete_for (s s' : list decl) (D : string) (mname : option string) (sp : list decl) (post' : option (list decl)) : Prop :=
  (forall sp', post' = Some sp' -> confined (carriers s D) sp sp' /\ initializes_complete sp' = true) ->
  exists es_pre es_post,
    validate Pre s' = Ok es_pre
    /\ match post' with Some sp' => validate Post sp' = Ok es_post | None => es_post = [] end
    /\ reported s D mname (es_pre ++ es_post).

Lemma complete_of_broken_after s s' x sp post' :
  consistent Before s = true -> consistent After sp = true -> broken_after s s' x ->
  complete_for s s' (fst x) (site_member s x) sp post'.
Proof.
  intros Hs Hsp [Hconf [_ [n [Hm Hb]]]] Hpost. rewrite Hm. now apply (completeness_generic s s' (fst x) (Some n) sp post').
Qed.

Section Kinds.
Variables (s sp s' : list decl) (x : site) (bad : string) (post' : option (list decl)).
Hypothesis Hs : consistent Before s = true.
Hypothesis Hsp : consistent After sp = true.
Let Hnd := consistent_nodup _ _ Hs.
Definition no_member_named (s : list decl) (D k : string) : Prop :=
  forall st, In (DStruct st) s -> s_name st = D -> ~ In k (map fst (members (s_fields st))).

Lemma complete_member_type : fresh_type s bad -> break_with break_member_type bad x s = Some s' -> complete_for s s' (fst x) (site_member s x) sp post'.
Proof. intros. apply complete_of_broken_after; auto. eapply break_member_type_spec; eauto. Qed.
Lemma complete_elem_type : fresh_type s bad -> break_with break_elem_type bad x s = Some s' -> complete_for s s' (fst x) (site_member s x) sp post'.
Proof. intros. apply complete_of_broken_after; auto. eapply break_elem_type_spec; eauto. Qed.
Lemma complete_inlined_type : fresh_type s bad -> break_with break_inlined_type bad x s = Some s' -> complete_for s s' (fst x) None sp post'.
Proof.
  intros Hf Hb Hpost. destruct (break_inlined_type_spec s x bad s' Hnd Hf Hb) as [Hc [_ [_ Hsite]]].
  now apply (completeness_generic s s' (fst x) None sp post').
Qed.
Lemma complete_size_member : no_member_named s (fst x) bad -> break_with break_size_member bad x s = Some s' -> complete_for s s' (fst x) (site_member s x) sp post'.
Proof. intros. apply complete_of_broken_after; auto. eapply break_size_member_spec; eauto. Qed.
Lemma complete_sort_key : fresh_member s bad -> break_with break_sort_key bad x s = Some s' -> complete_for s s' (fst x) (site_member s x) sp post'.
Proof. intros. apply complete_of_broken_after; auto. eapply break_sort_key_spec; eauto. Qed.
Lemma complete_sizeof_member : no_member_named s (fst x) bad -> break_with break_sizeof_member bad x s = Some s' -> complete_for s s' (fst x) (site_member s x) sp post'.
Proof. intros. apply complete_of_broken_after; auto. eapply break_sizeof_member_spec; eauto. Qed.
Lemma complete_sizeref_member : no_member_named s (fst x) bad -> break_with break_sizeref bad x s = Some s' -> complete_for s s' (fst x) (site_member s x) sp post'.
Proof. intros. apply complete_of_broken_after; auto. eapply break_sizeref_spec; eauto. Qed.
Lemma complete_cond_member : no_member_named s (fst x) bad -> break_with break_cond_member bad x s = Some s' -> complete_for s s' (fst x) (site_member s x) sp post'.
Proof. intros. apply complete_of_broken_after; auto. eapply break_cond_member_spec; eauto. Qed.
Lemma complete_cond_value : fresh_const s bad -> break_with break_cond_value bad x s = Some s' -> complete_for s s' (fst x) (site_member s x) sp post'.
Proof. intros. apply complete_of_broken_after; auto. eapply break_cond_value_spec; eauto. Qed.
Lemma complete_const_value : fresh_const s bad -> break_with break_const_value bad x s = Some s' -> complete_for s s' (fst x) (site_member s x) sp post'.
Proof. intros. apply complete_of_broken_after; auto. eapply break_const_value_spec; eauto. Qed.
Lemma complete_duplicate_member : break_duplicate_member x s = Some s' -> complete_for s s' (fst x) (site_member s x) sp post'.
Proof. intros. apply complete_of_broken_after; auto. eapply break_duplicate_member_spec; eauto. Qed.
Lemma complete_duplicate_enum_value E i :
  break_duplicate_enum_value E i s = Some s' -> exists n, complete_for s s' E (Some n) sp post'.
Proof.
  intros Hb. destruct (break_duplicate_enum_value_spec s E i s' Hnd Hb) as [Hc [_ [n Hsite]]].
  exists n. intros Hpost. now apply (completeness_generic s s' E (Some n) sp post').
Qed.
End Kinds.

Theorem no_crash_pre s : exists es, validate Pre s = Ok es.
Proof. eexists. apply validate_total. discriminate. Qed.
Theorem no_crash_post s : initializes_complete s = true -> exists es, validate Post s = Ok es.
Proof. intros H. eexists. apply validate_total. intros _. now rewrite <- initializes_complete_wf. Qed.

Theorem soundness_both s sp :
  consistent Before s = true -> consistent After sp = true -> validate Pre s = Ok [] /\ validate Post sp = Ok [].
Proof.
  intros Hs Hsp. split.
  - rewrite validate_total by discriminate. pose proof (verrors_consistent Before s Hs) as H. simpl in H. now rewrite H.
  - rewrite validate_total by (intros _; now apply consistent_After_wf). pose proof (verrors_consistent After sp Hsp) as H. simpl in H. now rewrite H.
Qed.

Theorem broken_site_reported t D mname m :
  nodupb (map decl_name t) = true -> (m = Post -> initializes_complete t = true) -> broken_site t D mname ->
  exists es, validate m t = Ok es /\ exists e, In e es /\ e_type e = D /\ (forall n, mname = Some n -> In n (e_fields e)).
Proof.
  intros Hnd Hwf Hb. exists (verrors m t). split.
  - apply validate_total. intros Hm. rewrite <- initializes_complete_wf. auto.
  - now apply detect_site.
Qed.

Theorem nothing_outside m C t t' :
  validate m t = Ok [] -> confined C t t' -> (m = Post -> initializes_complete t = true /\ initializes_complete t' = true) ->
  exists es, validate m t' = Ok es /\ forall e, In e es -> In (e_type e) C.
Proof.
  intros Hv Hc Hwf. exists (verrors m t'). split.
  - apply validate_total. intros Hm. rewrite <- initializes_complete_wf. now apply Hwf.
  - rewrite validate_total in Hv by (intros Hm; rewrite <- initializes_complete_wf; now apply Hwf). inv Hv.
    intros e He. eapply frame; eauto.
Qed.

Theorem completeness_frame_only s s' D sp sp' :
  consistent Before s = true -> consistent After sp = true ->
  confined [D] s s' -> confined (carriers s D) sp sp' -> initializes_complete sp' = true ->
  exists es_pre es_post,
    validate Pre s' = Ok es_pre /\ validate Post sp' = Ok es_post /\ forall e, In e (es_pre ++ es_post) -> In (e_type e) (carriers s D).
Proof.
  intros Hs Hsp Hconf Hconf' Hwf.
  exists (verrors Pre s'), (verrors Post sp'). split; [apply validate_total; discriminate|].
  split; [apply validate_total; intros _; now rewrite <- initializes_complete_wf|].
  intros e He. apply in_app_or in He. destruct He as [He|He].
  - apply (frame Pre (carriers s D) s s'); auto; [apply (verrors_consistent Before s Hs)|].
    apply (confined_weaken [D]); [|assumption]. intros y [<-|[]]. apply carriers_self.
  - apply (frame Post (carriers s D) sp sp'); auto. apply (verrors_consistent After sp Hsp).
Qed.

Lemma cli_status_errors pre post : pre <> [] \/ post <> [] -> cli_status pre post = 2%Z.
Proof. unfold cli_status. destruct pre, post; simpl; intros [H|H]; try congruence; reflexivity. Qed.
