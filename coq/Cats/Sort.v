(* sorted(list, key=accessor): a stable insertion sort on precomputed keys, plus the fixed-text order on keys. Definitions only. *)
From Symv Require Export Cats.LayoutInst.
Open Scope Z_scope.

Section Sorting.
Variable A : Type.
Variable lt : keyv -> keyv -> bool.

(* insert x before the first element that is not smaller than it; with fold_right this keeps equal keys in input order (stable) *)
Fixpoint insert_sorted (x : keyv * A) (l : list (keyv * A)) : list (keyv * A) :=
  match l with
  | [] => [x]
  | y :: r => if lt (fst y) (fst x) then y :: insert_sorted x r else x :: y :: r
  end.
Definition sort_pairs (l : list (keyv * A)) : list (keyv * A) := fold_right insert_sorted [] l.
End Sorting.
Arguments insert_sorted {A}. Arguments sort_pairs {A}.

(* Python's order on the sort keys that occur: ints, byte strings (lexicographic), tuples of those (lexicographic) *)
Definition key_lt (a b : keyv) : bool := key_cmp Lt a b.

(* fixed-text specification of that order, for flat keys *)
Definition atom_lt (a b : keyv) : bool :=
  match a, b with
  | KInt x, KInt y => x <? y
  | KBytes x, KBytes y => bytes_lt x y
  | _, _ => false
  end.
Definition atom_eq (a b : keyv) : bool :=
  match a, b with
  | KInt x, KInt y => x =? y
  | KBytes x, KBytes y => bytes_eq x y
  | _, _ => false
  end.
Fixpoint tuple_lt (x y : list keyv) : bool :=
  match x, y with
  | [], [] => false
  | [], _ :: _ => true
  | _ :: _, [] => false
  | p :: x', q :: y' => if atom_eq p q then tuple_lt x' y' else atom_lt p q
  end.
Definition key_lt_spec (a b : keyv) : bool :=
  match a, b with
  | KTuple x, KTuple y => tuple_lt x y
  | _, _ => atom_lt a b
  end.
Definition is_atom (k : keyv) : bool := match k with KTuple _ => false | _ => true end.
Definition flat_key (k : keyv) : bool := match k with KTuple l => forallb is_atom l | _ => true end.
(* two keys of the same declared comparer have the same shape *)
Definition same_atom (a b : keyv) : bool :=
  match a, b with KInt _, KInt _ => true | KBytes _, KBytes _ => true | _, _ => false end.
Fixpoint same_tuple (x y : list keyv) : bool :=
  match x, y with [], [] => true | p :: x', q :: y' => same_atom p q && same_tuple x' y' | _, _ => false end.
Definition same_shape (a b : keyv) : bool :=
  match a, b with KTuple x, KTuple y => same_tuple x y | _, _ => same_atom a b end.

(* the sort() of one keyed array: keys by the declared accessor, stable sort, values back *)
Definition sort_values (keys : list keyv) (l : list value) : list value := map snd (sort_pairs key_lt (combine keys l)).
