(* Outline of the module that sdk/python/generator writes for an EXPANDED schema (AstPostProcessor.type_descriptors):
   Generator.generate_files, TypeFormatter.generate_methods, StructTypeFormatter / EnumTypeFormatter / PodTypeFormatter /
   FactoryFormatter and the printers, at the level of: classes in order, base, class-level fields (SIZE, enum members, constants,
   TYPE_HINTS), the ordered methods (decorator, name, result annotation), then one factory per abstract struct with its mapping
   entries and create_by_name keys.  Method BODIES are not modelled.  Model file: definitions only.

   String constants (name fixes, prefixes, method names, annotations) come from Gen/OutlineOps.v, the order of the method slots from
   Gen/OutlineOrder.v; both are rewritten from /repo on every run.  Member classification (const / reserved / computed / bound /
   inherited) is Cats.Layout's; the factory map is Cats.Derive's build_factory_map (model of catparser/generators/util.py).

   Where the generator would raise (unknown member type, missing base struct, no settable member at all, constant of an array type)
   the class carries a `CfUnsupported` field; `CfUnrecognised` / `EUnrecognised` are produced only by the extractor of the
   checked-in modules (harness/gens/c03.py), so neither can be equal to anything this model yields for a supported schema. *)
From Coq Require Import String ZArith Bool List Ascii.
From Symv Require Import Cats.Layout Cats.Derive.
From Symv Require Export Gen.OutlineOps Gen.OutlineOrder.
Import ListNotations.
Open Scope list_scope.
Open Scope string_scope.

(* ---------- the outline datatype ---------- *)
Record meth := { m_deco : string; m_name : string; m_ret : string }.       (* "@property" / "" ; name ; "-> ret" or "" *)
Inductive oval := OvInt (z : Z) | OvRef (ty member : string).
Inductive cfield :=
| CfAssign (name : string) (v : Z)                               (* SIZE = n ; ENUM_MEMBER = n *)
| CfConst (name ty : string) (v : oval)                          (* NAME: ty = value *)
| CfHints (base : option string) (hints : list (string * string))(* TYPE_HINTS = { **Base.TYPE_HINTS, 'key': 'hint', ... } *)
| CfUnsupported (why : string)
| CfUnrecognised (what : string).
Record class_outline := { co_name : string; co_base : string; co_fields : list cfield; co_methods : list meth }.
Record factory_outline := {
  fo_name : string; fo_parent : string; fo_discriminator : list string;
  fo_entries : list (list (string * string) * string);           (* (Child.CONST, ...) -> Child *)
  fo_names : list (string * string);                             (* 'child_name' -> Child *)
  fo_methods : list meth }.
Inductive entry := EClass (c : class_outline) | EFactory (f : factory_outline) | EError (what : string) | EUnrecognised (what : string).
Definition module_outline := list entry.

Definition mk_meth (deco name ret : string) : meth := {| m_deco := deco; m_name := name; m_ret := ret |}.

(* ---------- name_formatting.py ---------- *)
Definition fix_name (n : string) : string :=
  if String.eqb n name_fix_1 || String.eqb n name_fix_2 then n ++ name_fix_suffix else n.

Definition is_upper (c : ascii) : bool := let n := nat_of_ascii c in (65 <=? n)%nat && (n <=? 90)%nat.
Definition to_lower (c : ascii) : ascii := if is_upper c then ascii_of_nat (nat_of_ascii c + 32) else c.
(* CAMEL_CASE_PATTERN = (?<!^)(?=[A-Z]) : the empty match before every upper-case letter that is not the first character;
   sub(sep) inserts the separator there; .lower() afterwards (names are ASCII) *)
Fixpoint underline_tail (s : string) : string :=
  match s with
  | EmptyString => ""
  | String c r => (if is_upper c then underline_sep else "") ++ String (to_lower c) (underline_tail r)
  end.
Definition underline_name (s : string) : string :=
  match s with EmptyString => "" | String c r => String (to_lower c) (underline_tail r) end.

Fixpoint drop (n : nat) (s : string) : string :=
  match n, s with O, _ => s | S k, String _ r => drop k r | S _, EmptyString => "" end.
(* FactoryFormatter.skip_embedded *)
Definition skip_embedded (n : string) : string :=
  if String.prefix embedded_prefix n then drop (String.length embedded_strip) n else n.

(* ---------- printers.py: which printer a member gets (extend_models / create_printer) ---------- *)
Inductive printer := PInt | PBytes | PTyped (elem : string) | PModel (hint_prefix tyname : string) | PBad.

Definition elem_str (e : elemty) : string := match e with ElInt i => it_short_name i | ElName s => s end.

Section WithSchema.
Variable tm : list decl.

Definition printer_of (f : field) : printer :=
  match f_type f with
  | FInt _ => PInt
  | FArray a => if is_byte_array a then PBytes else PTyped (elem_str (a_elem a))
  | FName t =>
    match Layout.lookup tm t with
    | Some (DAlias n (LInt _) _) => PModel hint_model_int n
    | Some (DAlias n (LBuffer _) _) => PModel hint_model_bytes n
    | Some (DEnum n _ _ _ _) => PModel hint_model_enum n
    | Some (DStruct s) => PModel hint_model_struct (s_name s)
    | None => PBad
    end
  end.

Definition printer_type (p : printer) : string :=
  match p with
  | PInt => ty_int
  | PBytes => ty_bytes
  | PTyped e => ty_list_open ++ e ++ ty_list_close
  | PModel _ n => n
  | PBad => "?"
  end.
Definition printer_hint (p : printer) : option string :=
  match p with
  | PInt => None
  | PBytes => Some hint_bytes_array
  | PTyped e => Some (hint_array_open ++ e ++ hint_array_close)
  | PModel h n => Some (h ++ n)
  | PBad => Some "?"
  end.
Definition is_bad (p : printer) : bool := match p with PBad => true | _ => false end.

(* ---------- StructTypeFormatter ---------- *)
Definition struct_abstract (s : struct) : bool := match s_disp s with SdAbstract => true | _ => false end.
Definition has_base_name (s : struct) : option string :=
  match s_factory_type s with Some f => if String.eqb f "" then None else Some f | None => None end.

(* filter_size_if_first *)
Definition drop_first_named (n : string) (fs : list field) : list field :=
  match fs with f :: r => if String.eqb n (f_name f) then r else fs | [] => [] end.
(* non_reserved_fields() *)
Definition candidates (s : struct) : list field :=
  let all := non_const (s_fields s) in filter (is_settable all) all.
Definition non_reserved (s : struct) : list field := drop_first_named first_size_name (candidates s).
Definition own (s : struct) (f : field) : bool := negb (is_inherited tm s f).
Definition own_non_reserved (s : struct) : list field := filter (own s) (non_reserved s).
Definition own_computed (s : struct) : list field := filter (own s) (filter is_computed (non_const (s_fields s))).
Definition own_reserved (s : struct) : list field := filter (own s) (filter is_reserved (non_const (s_fields s))).
Definition const_fields (s : struct) : list field := filter is_const (s_fields s).

(* generate_class_field *)
Definition const_outline (f : field) : cfield :=
  match printer_of f, f_value f with
  | PInt, VNum n => CfConst (f_name f) ty_int (OvInt n)
  | PModel _ t, VName v => CfConst (f_name f) t (OvRef t v)
  | _, _ => CfUnsupported ("constant " ++ f_name f)
  end.

(* generate_type_hints *)
Definition hints_outline (s : struct) : cfield :=
  CfHints (has_base_name s)
          (flat_map (fun f => match printer_hint (printer_of f) with Some h => [(fix_name (f_name f), h)] | None => [] end)
                    (own_non_reserved s)).

(* the places where the generator raises instead of writing the class *)
Definition struct_problems (s : struct) : list cfield :=
  List.concat [
    match has_base_name s, base_struct tm s with
    | Some b, None => [CfUnsupported ("base struct " ++ b ++ " not found")]
    | _, _ => []
    end;
    match candidates s with [] => [CfUnsupported "no settable member"] | _ => [] end;
    flat_map (fun f => if is_bad (printer_of f) then [CfUnsupported ("member " ++ f_name f ++ " of unknown type")] else [])
             (filter (fun f => match f with Field _ _ _ _ _ _ => true | InlinePlaceholder _ _ => false end) (s_fields s));
    flat_map (fun f => match f with InlinePlaceholder t _ => [CfUnsupported ("unexpanded inline " ++ t)] | _ => [] end) (s_fields s) ].

(* get_ctor_descriptor returns None exactly when its body stays empty *)
Definition has_ctor (s : struct) : bool :=
  match has_base_name s with
  | Some _ => true
  | None => match non_reserved s, own_reserved s with [], [] => false | _, _ => true end
  end.
(* Struct.comparer: at least one (property, transform) pair *)
Definition has_comparer (s : struct) : bool :=
  match find_attr (s_attrs s) "comparer" with
  | Some a => (2 <=? length (at_values a))%nat
  | None => false
  end.

Definition getter_of (f : field) : meth :=
  mk_meth ma_getter (fix_name (f_name f) ++ (if is_computed f then computed_suffix else "")) (printer_type (printer_of f)).
Definition setter_of (f : field) : meth :=
  mk_meth (ma_setter_open ++ fix_name (f_name f) ++ ma_setter_close) (fix_name (f_name f)) "".

(* ---------- TypeFormatter.generate_methods: what each slot contributes for a provider ---------- *)
Record provider := {
  pv_typename : string; pv_abstract : bool; pv_ctor : bool; pv_comparer : bool; pv_sort : bool;
  pv_getters : list meth; pv_setters : list meth; pv_size : bool; pv_str : bool; pv_json : bool }.

Definition opt_meth (b : bool) (m : meth) : list meth := if b then [m] else [].

Definition slot_methods (p : provider) (slot : string) : list meth :=
  if String.eqb slot "ctor" then opt_meth (pv_ctor p) (mk_meth "" mn_ctor "")
  else if String.eqb slot "comparer" then opt_meth (pv_comparer p) (mk_meth "" mn_comparer mr_comparer)
  else if String.eqb slot "sort" then opt_meth (pv_sort p) (mk_meth "" mn_sort mr_sort)
  else if String.eqb slot "getters" then pv_getters p
  else if String.eqb slot "setters" then pv_setters p
  else if String.eqb slot "size" then opt_meth (pv_size p) (mk_meth ma_size mn_size mr_size)
  else if String.eqb slot "deserializer" then
    [mk_meth ma_deserialize ((if pv_abstract p then md_prefix_abstract else md_prefix_concrete) ++ mn_deserialize)
             (if pv_abstract p then mr_deserialize_abstract else pv_typename p)]
  else if String.eqb slot "serializer" then [mk_meth "" mn_serialize mr_serialize]
  else if String.eqb slot "serializer_protected" then opt_meth (pv_abstract p) (mk_meth "" mn_serialize_protected "")
  else if String.eqb slot "representation" then opt_meth (pv_str p) (mk_meth "" mn_str mr_str)
  else if String.eqb slot "json" then opt_meth (pv_json p) (mk_meth "" mn_json "")
  else [mk_meth "?" slot ""].
Definition methods_of (p : provider) : list meth := flat_map (slot_methods p) method_order.

Definition struct_provider (s : struct) : provider :=
  {| pv_typename := s_name s; pv_abstract := struct_abstract s; pv_ctor := has_ctor s; pv_comparer := has_comparer s; pv_sort := true;
     pv_getters := List.app (map getter_of (own_non_reserved s)) (map getter_of (own_computed s));
     pv_setters := map setter_of (own_non_reserved s);
     pv_size := true; pv_str := true; pv_json := true |}.

Definition struct_class (s : struct) : class_outline :=
  {| co_name := s_name s;
     co_base := match has_base_name s with Some b => "(" ++ b ++ ")" | None => "" end;
     co_fields := List.app (map const_outline (const_fields s)) (hints_outline s :: struct_problems s);
     co_methods := methods_of (struct_provider s) |}.

(* EnumTypeFormatter *)
Definition enum_class (n : string) (b : intty) (vs : list enum_value) (attrs : option (list attribute)) : class_outline :=
  {| co_name := n;
     co_base := enum_base_open ++ (if is_bitwise attrs then enum_base_flag else enum_base_plain) ++ enum_base_close;
     co_fields := map (fun e => CfAssign (ev_name e) (ev_value e)) vs;
     co_methods := methods_of {| pv_typename := n; pv_abstract := false; pv_ctor := false; pv_comparer := false; pv_sort := false;
                                 pv_getters := []; pv_setters := []; pv_size := true; pv_str := false; pv_json := true |} |}.

(* PodTypeFormatter *)
Definition pod_class (n : string) (l : linked) : class_outline :=
  {| co_name := n;
     co_base := match l with LBuffer _ => pod_base_bytes | LInt _ => pod_base_int end;
     co_fields := [CfAssign "SIZE" (match l with LBuffer k => k | LInt i => it_size i end)];
     co_methods := methods_of {| pv_typename := n; pv_abstract := false; pv_ctor := true; pv_comparer := false; pv_sort := false;
                                 pv_getters := []; pv_setters := [];
                                 pv_size := match l with LBuffer _ => true | LInt _ => false end; pv_str := false; pv_json := false |} |}.

(* to_type_formatter_instance *)
Definition decl_class (d : decl) : class_outline :=
  match d with
  | DAlias n l _ => pod_class n l
  | DEnum n b vs attrs _ => enum_class n b vs attrs
  | DStruct s => struct_class s
  end.

End WithSchema.

(* ---------- FactoryFormatter ---------- *)
Definition fm_find (k : string) (m : fmap) : option fdesc :=
  match find (fun e => String.eqb (fst e) k) m with Some e => Some (snd e) | None => None end.
Definition av_text (v : avalue) : string := match v with AvStr s => s | AvNum n => Z_to_string n | AvNone => "None" end.

Definition factory_slot (parent : string) (slot : string) : list meth :=
  if String.eqb slot "deserializer" then [mk_meth fma_deserialize fmn_deserialize parent]
  else if String.eqb slot "create_by_name" then [mk_meth fma_create_by_name fmn_create_by_name parent]
  else [mk_meth "?" slot ""].

Definition factory_of (m : fmap) (a : struct) : factory_outline :=
  let fd := fm_find (s_name a) m in
  let children := match fd with Some d => fd_children d | None => [] end in
  {| fo_name := s_name a ++ factory_suffix;
     fo_parent := s_name a;
     fo_discriminator := match fd with Some d => map (fun n => fix_name (av_text n)) (fd_names d) | None => [] end;
     fo_entries := map (fun c => (match fd with Some d => map (fun v => (s_name c, av_text v)) (fd_values d) | None => [] end, s_name c)) children;
     fo_names := map (fun c => (skip_embedded (underline_name (s_name c)), s_name c)) children;
     fo_methods := flat_map (factory_slot (s_name a)) factory_method_order |}.

Definition abstract_structs (ds : list decl) : list struct :=
  flat_map (fun d => match d with DStruct s => if struct_abstract s then [s] else [] | _ => [] end) ds.

(* ---------- Generator.generate_files ---------- *)
Definition classes (ds : list decl) : list class_outline := map (decl_class ds) ds.
Definition factories (ds : list decl) (m : fmap) : list factory_outline := map (factory_of m) (abstract_structs ds).

Definition outline (ds : list decl) : module_outline :=
  match build_factory_map ds with
  | Ok m => List.app (map EClass (classes ds)) (map EFactory (factories ds m))
  | Reject => [EError "ValueError"]
  | Crash k => [EError k]
  end.

(* ---------- projections used by the theorems ---------- *)
Definition class_names (o : module_outline) : list string :=
  flat_map (fun e => match e with EClass c => [co_name c] | _ => [] end) o.
Definition factory_entries (o : module_outline) : list factory_outline :=
  flat_map (fun e => match e with EFactory f => [f] | _ => [] end) o.
Definition is_class (e : entry) : bool := match e with EClass _ => true | _ => false end.
Definition is_factory (e : entry) : bool := match e with EFactory _ => true | _ => false end.

(* ---------- text rendering (mirrored by harness/gens/c03.py render_entries; used only to locate a difference) ---------- *)
Definition nl : string := String (ascii_of_nat 10) "".
Definition render_meth (m : meth) : string := "  def [" ++ m_deco m ++ "] " ++ m_name m ++ " -> [" ++ m_ret m ++ "]".
Definition render_oval (v : oval) : string := match v with OvInt z => Z_to_string z | OvRef t m => t ++ "." ++ m end.
Definition render_field (f : cfield) : list string :=
  match f with
  | CfAssign n v => ["  " ++ n ++ " = " ++ Z_to_string v]
  | CfConst n t v => ["  " ++ n ++ ": " ++ t ++ " = " ++ render_oval v]
  | CfHints b hs => ("  TYPE_HINTS" ++ match b with Some x => " **" ++ x | None => "" end)
                    :: map (fun h => "    " ++ fst h ++ ": " ++ snd h) hs
  | CfUnsupported w => ["  ?unsupported " ++ w]
  | CfUnrecognised w => ["  ?unrecognised " ++ w]
  end.
Definition render_entry (e : entry) : list string :=
  match e with
  | EClass c => ("class " ++ co_name c ++ co_base c) :: List.app (flat_map render_field (co_fields c)) (map render_meth (co_methods c))
  | EFactory f =>
    ("factory " ++ fo_name f ++ " of " ++ fo_parent f ++ " by (" ++ String.concat ", " (fo_discriminator f) ++ ")")
    :: List.concat [
         map (fun en => "  (" ++ String.concat ", " (map (fun r => fst r ++ "." ++ snd r) (fst en)) ++ ") -> " ++ snd en) (fo_entries f);
         map (fun kv => "  " ++ fst kv ++ " => " ++ snd kv) (fo_names f);
         map render_meth (fo_methods f) ]
  | EError w => ["?error " ++ w]
  | EUnrecognised w => ["?unrecognised " ++ w]
  end.
Definition render_outline (o : module_outline) : string := String.concat nl (flat_map render_entry o).

(* ---------- boolean equality (so that a per-artefact obligation that does not hold fails fast: `false = true`) ---------- *)
Fixpoint list_eqb {A} (e : A -> A -> bool) (l1 l2 : list A) : bool :=
  match l1, l2 with
  | [], [] => true
  | x :: r, y :: r' => e x y && list_eqb e r r'
  | _, _ => false
  end.
Definition pair_eqb {A B} (ea : A -> A -> bool) (eb : B -> B -> bool) (p q : A * B) : bool := ea (fst p) (fst q) && eb (snd p) (snd q).
Definition option_eqb {A} (e : A -> A -> bool) (a b : option A) : bool :=
  match a, b with Some x, Some y => e x y | None, None => true | _, _ => false end.
Definition meth_eqb (a b : meth) : bool :=
  String.eqb (m_deco a) (m_deco b) && String.eqb (m_name a) (m_name b) && String.eqb (m_ret a) (m_ret b).
Definition oval_eqb (a b : oval) : bool :=
  match a, b with
  | OvInt x, OvInt y => Z.eqb x y
  | OvRef t m, OvRef t' m' => String.eqb t t' && String.eqb m m'
  | _, _ => false
  end.
Definition cfield_eqb (a b : cfield) : bool :=
  match a, b with
  | CfAssign n v, CfAssign n' v' => String.eqb n n' && Z.eqb v v'
  | CfConst n t v, CfConst n' t' v' => String.eqb n n' && String.eqb t t' && oval_eqb v v'
  | CfHints b hs, CfHints b' hs' => option_eqb String.eqb b b' && list_eqb (pair_eqb String.eqb String.eqb) hs hs'
  | CfUnsupported w, CfUnsupported w' => String.eqb w w'
  | CfUnrecognised w, CfUnrecognised w' => String.eqb w w'
  | _, _ => false
  end.
Definition class_eqb (a b : class_outline) : bool :=
  String.eqb (co_name a) (co_name b) && String.eqb (co_base a) (co_base b) && list_eqb cfield_eqb (co_fields a) (co_fields b)
  && list_eqb meth_eqb (co_methods a) (co_methods b).
Definition factory_eqb (a b : factory_outline) : bool :=
  String.eqb (fo_name a) (fo_name b) && String.eqb (fo_parent a) (fo_parent b)
  && list_eqb String.eqb (fo_discriminator a) (fo_discriminator b)
  && list_eqb (pair_eqb (list_eqb (pair_eqb String.eqb String.eqb)) String.eqb) (fo_entries a) (fo_entries b)
  && list_eqb (pair_eqb String.eqb String.eqb) (fo_names a) (fo_names b)
  && list_eqb meth_eqb (fo_methods a) (fo_methods b).
Definition entry_eqb (a b : entry) : bool :=
  match a, b with
  | EClass x, EClass y => class_eqb x y
  | EFactory x, EFactory y => factory_eqb x y
  | EError x, EError y => String.eqb x y
  | EUnrecognised x, EUnrecognised y => String.eqb x y
  | _, _ => false
  end.
Definition outline_eqb (a b : module_outline) : bool := list_eqb entry_eqb a b.
