(* Proofs for Cats/DialectKeys.v: the sort-key view is total (never Crash "Unsupported") on admissible values of a schema in wf_schema, and on
   whatever the decoders of a schema in wf_schema_full hand to it; hence the codecs of such a schema never answer "Unsupported" - without the
   premise on `key` that DialectProofs.codecs_no_unsupported_all carries. *)
From Symv Require Import Base.Bytes Base.PyOps Cats.LayoutInst Cats.Dialect Cats.DialectProofs Cats.DialectKeys Gen.SchemaSc Gen.SchemaNc.
From Coq Require Import Lia.
Open Scope string_scope.
Open Scope list_scope.
Open Scope Z_scope.

(* ---------- per-run kernel obligation on the regenerated shipped schemas ---------- *)
Lemma wf_keys_sc : wf_keys sc_schema = true.
Proof. vm_compute. reflexivity. Qed.
Lemma wf_keys_nc : wf_keys nc_schema = true.
Proof. vm_compute. reflexivity. Qed.
Lemma wf_full_shipped_both : wf_schema_full sc_schema = true /\ wf_schema_full nc_schema = true.
Proof.
  unfold wf_schema_full. rewrite (proj1 wf_shipped_both), (proj2 wf_shipped_both), wf_keys_sc, wf_keys_nc. split; reflexivity.
Qed.
Lemma wf_full_split tm : wf_schema_full tm = true -> wf_schema tm = true /\ wf_keys tm = true.
Proof. unfold wf_schema_full. intros H. apply Bool.andb_true_iff in H. exact H. Qed.

(* ---------- small facts ---------- *)
Lemma find_field_some fs n f : find_field fs n = Some f -> In f fs /\ f_name f = n.
Proof. unfold find_field. intros H. apply find_some in H as [H1 H2]. apply String.eqb_eq in H2. auto. Qed.

Lemma forallb_named {A} (name : A -> string) (P : A -> bool) (l : list A) n x :
  forallb (fun g => negb (String.eqb (name g) n) || P g) l = true -> In x l -> name x = n -> P x = true.
Proof.
  intros H Hin Hn. rewrite forallb_forall in H. specialize (H _ Hin). rewrite Hn, String.eqb_refl in H. exact H.
Qed.

Lemma vget_in v n pv : vget v n = Some pv -> exists cls fs, v = VStruct cls fs /\ In (n, pv) fs.
Proof.
  destruct v as [| | |cls fs|]; try discriminate. cbn [vget].
  destruct (find (fun p : string * value => String.eqb (fst p) n) fs) as [[n' pv']|] eqn:Hf; [|discriminate].
  intros H; injection H as <-. apply find_some in Hf as [Hin Hn]. cbn [fst] in Hn. apply String.eqb_eq in Hn. subst n'. eauto.
Qed.

Section Facts.
Variable OP : ops.
Variable tm : list decl.

Lemma lookup_struct_lookup n s : lookup_struct tm n = Some s -> lookup tm n = Some (DStruct s).
Proof. unfold lookup_struct. destruct (lookup tm n) as [[| |s']|]; try discriminate. intros H; injection H as <-. reflexivity. Qed.
Lemma lookup_lookup_struct n s : lookup tm n = Some (DStruct s) -> lookup_struct tm n = Some s.
Proof. unfold lookup_struct. intros ->. reflexivity. Qed.

Lemma wf_keys_struct s : wf_keys tm = true -> In (DStruct s) tm -> struct_keys_ok tm s = true.
Proof. unfold wf_keys. intros H Hin. rewrite forallb_forall in H. exact (H _ Hin). Qed.

Lemma wf_comparer s : wf_schema tm = true -> In (DStruct s) tm -> comparer_static_ok tm s = true.
Proof.
  intros Hwf Hin. destruct (wf_struct_checks tm s "comparer" (fun _ => comparer_static_ok tm s) Hwf Hin) as [_ H]; [|exact H].
  intros e. unfold struct_checks. cbn [In]. do 7 right. left. reflexivity.
Qed.

(* ---------- the key view of a struct: Unsupported only through an untransformed named-type member whose value is no enum / alias value ---------- *)
Definition comparer_safe (s : struct) (v : value) : Prop :=
  forall a p pf pt pv, find_attr (s_attrs s) "comparer" = Some a -> In p (plain_props (at_values a)) ->
    find_field (s_fields s) p = Some pf -> f_type pf = FName pt -> vget v p = Some pv -> scalar_match tm pt pv = true.

Lemma key_struct_nu k t s v : lookup tm t = Some (DStruct s) -> comparer_static_ok tm s = true -> comparer_safe s v -> nu (key OP tm k t v).
Proof.
  intros Hl Hst Hsafe. destruct k as [|k]; [nu_crash|]. cbn [key]. rewrite Hl.
  destruct v as [| | |cls fs|]; try nu_crash.
  unfold comparer_static_ok in Hst. unfold comparer_safe in Hsafe.
  destruct (find_attr (s_attrs s) "comparer") as [a|]; [|nu_crash].
  specialize (Hsafe a). 
  assert (Hs : forall p pf pt pv, In p (plain_props (at_values a)) -> find_field (s_fields s) p = Some pf -> f_type pf = FName pt ->
                 vget (VStruct cls fs) p = Some pv -> scalar_match tm pt pv = true) by (intros; eapply Hsafe; eauto).
  clear Hsafe. revert Hst Hs. generalize (S (length (at_values a))) as fuel. generalize (at_values a) as vals.
  intros vals fuel Hst Hs. apply nu_bind; [|intros; apply nu_ok].
  revert vals Hst Hs. induction fuel as [|fuel IH]; intros vals Hst Hs; [destruct vals; discriminate Hst|].
  destruct vals as [|[z|p|] [|tr rest]]; cbn [comparer_pairs_ok] in Hst; try discriminate Hst; [apply nu_ok|].
  destruct (find_field (s_fields s) p) as [pf|] eqn:Hpf; [|discriminate Hst].
  apply Bool.andb_true_iff in Hst as [Hp Hrest].
  destruct (vget (VStruct cls fs) p) as [pv|] eqn:Hpv; [|nu_crash].
  apply nu_bind.
  - destruct tr as [z|trn|].
    + nu_crash.
    + destruct pv; nu_crash.
    + destruct (f_type pf) as [i|pt|arr] eqn:Hty.
      * destruct pv; nu_crash.
      * assert (Hm : scalar_match tm pt pv = true).
        { apply (Hs p pf pt pv); auto. cbn [plain_props]. left. reflexivity. }
        unfold scalar_match in Hm.
        destruct (lookup tm pt) as [[n0 [i0|b0] c0|n0 b0 vs0 a0 c0|s0]|]; destruct pv; try discriminate Hm; apply nu_ok.
      * nu_crash.
  - intros x _. apply nu_bind; [|intros; apply nu_ok]. apply IH; [exact Hrest|].
    intros q qf qt qv Hin. apply Hs. destruct tr; cbn [plain_props]; auto. right. exact Hin.
Qed.


(* a value that is no object, or a static type that is no struct: Ok or TypeError *)
Lemma key_nonstruct_nu k t v : (forall cls fs, v <> VStruct cls fs) \/ (forall s, lookup tm t <> Some (DStruct s)) -> nu (key OP tm k t v).
Proof.
  intros H. destruct k as [|k]; [nu_crash|]. cbn [key].
  destruct (lookup tm t) as [[n0 [i0|b0] c0|n0 b0 vs0 a0 c0|s0]|]; destruct v; try nu_crash; try apply nu_ok.
  exfalso. destruct H as [H|H]; [eapply H|eapply H]; reflexivity.
Qed.

(* the untransformed members of a statically accepted comparer are of enum / alias type *)
Lemma comparer_pairs_scalar fs fuel : forall vals p pf pt, comparer_pairs_ok tm fs vals fuel = true -> In p (plain_props vals) ->
  find_field fs p = Some pf -> f_type pf = FName pt -> exists d, lookup tm pt = Some d /\ forall s, d <> DStruct s.
Proof.
  induction fuel as [|fuel IH]; intros vals p pf pt Hst Hin Hpf Hty; [destruct vals; discriminate Hst|].
  destruct vals as [|[z|q|] [|tr rest]]; cbn [comparer_pairs_ok] in Hst; try discriminate Hst; try (destruct Hin; fail).
  destruct (find_field fs q) as [qf|] eqn:Hqf; [|discriminate Hst].
  apply Bool.andb_true_iff in Hst as [Hq Hrest].
  destruct tr as [z|trn|]; cbn [plain_props] in Hin.
  - eapply IH; eauto.
  - eapply IH; eauto.
  - destruct Hin as [->|Hin]; [|eapply IH; eauto].
    rewrite Hpf in Hqf. injection Hqf as <-. rewrite Hty in Hq.
    destruct (lookup tm pt) as [[n0 l0 c0|n0 b0 vs0 a0 c0|s0]|]; try discriminate Hq; eexists; (split; [reflexivity|intros s0 H0; discriminate H0]).
Qed.

Lemma scalar_no_struct pt d : lookup tm pt = Some d -> (forall s, d <> DStruct s) -> lookup_struct tm pt = None /\ abs_name tm pt = false.
Proof.
  intros Hl Hd. assert (H : lookup_struct tm pt = None).
  { unfold lookup_struct. rewrite Hl. destruct d; try reflexivity. exfalso. eapply Hd. reflexivity. }
  split; [exact H|]. unfold abs_name. rewrite H. reflexivity.
Qed.

Lemma named_shape_scalar pt d pv : lookup tm pt = Some d -> (forall s, d <> DStruct s) -> named_shape tm pt pv = true -> scalar_match tm pt pv = true.
Proof. unfold named_shape. intros Hl Hd. rewrite Hl. destruct d; auto. exfalso. eapply Hd. reflexivity. Qed.

Lemma abs_name_false t s : lookup tm t = Some (DStruct s) -> abs_name tm t = false -> is_abstract s = false.
Proof. unfold abs_name, is_abstract. intros Hl. rewrite (lookup_lookup_struct _ _ Hl). destruct (s_disp s); auto. Qed.

(* what value_admissible says about one member of an object *)
Lemma admissible_member v cls fs s g n pv : v = VStruct cls fs -> value_admissible tm v = true -> lookup_struct tm cls = Some s ->
  In (n, pv) fs -> In g (decl_fields tm s) -> f_name g = n -> field_shape tm g pv = true /\ value_admissible tm pv = true.
Proof.
  intros -> Hv Hs Hin Hg Hn. cbn [value_admissible] in Hv. rewrite Hs in Hv. rewrite forallb_forall in Hv. specialize (Hv _ Hin). cbn in Hv.
  apply Bool.andb_true_iff in Hv as [Hm Hp]. split; [|exact Hp].
  unfold member_shape in Hm. exact (forallb_named f_name (fun g => field_shape tm g pv) _ n g Hm Hg Hn).
Qed.

Lemma admissible_vget v n pv : value_admissible tm v = true -> vget v n = Some pv -> value_admissible tm pv = true.
Proof.
  intros Hv Hg. destruct (vget_in _ _ _ Hg) as [cls [fs [-> Hin]]]. cbn [value_admissible] in Hv.
  destruct (lookup_struct tm cls); [|discriminate Hv]. rewrite forallb_forall in Hv. specialize (Hv _ Hin). cbn in Hv.
  apply Bool.andb_true_iff in Hv as [_ Hp]. exact Hp.
Qed.

Lemma in_decl_fields_own s f : In f (s_fields s) -> In f (decl_fields tm s).
Proof. intros H. unfold decl_fields. apply in_or_app. left. exact H. Qed.

Hypothesis Hwf : wf_schema tm = true.
Hypothesis Hkeys : wf_keys tm = true.

Lemma comparer_props_fact s a p pf pt : In (DStruct s) tm -> find_attr (s_attrs s) "comparer" = Some a -> In p (plain_props (at_values a)) ->
  find_field (s_fields s) p = Some pf -> f_type pf = FName pt ->
  uncond pf = true
  /\ forallb (fun g => negb (String.eqb (f_name g) p) || (named_is pt g && uncond g)) (dec_fields tm s) = true
  /\ existsb (fun g => String.eqb (f_name g) p) (dec_fields tm s) = true
  /\ exists d, lookup tm pt = Some d /\ forall s', d <> DStruct s'.
Proof.
  intros Hin Ha Hp Hpf Hty.
  pose proof (wf_keys_struct s Hkeys Hin) as Hk. unfold struct_keys_ok in Hk. apply Bool.andb_true_iff in Hk as [Hk _].
  unfold comparer_keys_ok in Hk. rewrite Ha in Hk. rewrite forallb_forall in Hk. specialize (Hk _ Hp). rewrite Hpf, Hty in Hk.
  apply Bool.andb_true_iff in Hk as [Hk H3]. apply Bool.andb_true_iff in Hk as [H1 H2].
  repeat split; auto.
  pose proof (wf_comparer s Hwf Hin) as Hc. unfold comparer_static_ok in Hc. rewrite Ha in Hc.
  exact (comparer_pairs_scalar _ _ _ _ _ _ Hc Hp Hpf Hty).
Qed.

(* ---------- the key view is total on admissible values ---------- *)
Theorem key_admissible_nu k t v : value_admissible tm v = true -> v = VNull \/ named_shape tm t v = true -> abs_name tm t = false ->
  nu (key OP tm k t v).
Proof.
  intros Hv Hsh Habs.
  destruct (lookup tm t) as [d|] eqn:Hl.
  2:{ apply key_nonstruct_nu. right. intros s Hs. rewrite Hl in Hs. discriminate Hs. }
  destruct d as [n0 l0 c0|n0 b0 vs0 a0 c0|s];
    try (apply key_nonstruct_nu; right; intros s Hs; rewrite Hl in Hs; discriminate Hs).
  destruct Hsh as [->|Hsh]; [apply key_nonstruct_nu; left; intros; discriminate|].
  pose proof (lookup_in _ _ _ Hl) as Hin.
  apply (key_struct_nu k t s v Hl (wf_comparer s Hwf Hin)).
  intros a p pf pt pv Ha Hp Hpf Hty Hg.
  destruct (comparer_props_fact s a p pf pt Hin Ha Hp Hpf Hty) as [Hu [_ [_ [d [Hd Hnd]]]]].
  destruct (vget_in _ _ _ Hg) as [cls [fs [-> Hinp]]].
  unfold named_shape in Hsh. rewrite Hl, (abs_name_false _ _ Hl Habs) in Hsh. apply String.eqb_eq in Hsh. subst cls.
  destruct (find_field_some _ _ _ Hpf) as [Hpfin Hpfn].
  destruct (admissible_member _ _ _ s pf p pv eq_refl Hv (lookup_lookup_struct _ _ Hl) Hinp (in_decl_fields_own _ _ Hpfin) Hpfn) as [Hfs _].
  unfold field_shape in Hfs. rewrite Hty in Hfs.
  apply (named_shape_scalar pt d pv Hd Hnd).
  destruct pv; try exact Hfs. rewrite Hu in Hfs. discriminate Hfs.
Qed.
End Facts.

(* ---------- what the member loop of deserialize binds ---------- *)
Section EnvInv.
Variable OP : ops.
Variable tm : list decl.
Variable R : rec_ops.

(* a member of named type is bound to what the codec of that type returned *)
Definition loaded (f : field) (v : value) : Prop :=
  forall t, f_type f = FName t -> exists b, (if abs_name tm t then decf_t R t b else dec_t R t b) = Ok v.
Definition bound_ok (F : list field) (q : string * value) : Prop :=
  exists f, In f F /\ f_name f = fst q /\ ((snd q = VNull /\ uncond f = false) \/ loaded f (snd q)).
Definition env_inv (F : list field) (e : env) : Prop := forall q, In q e -> bound_ok F q.

Lemma env_inv_nil F : env_inv F [].
Proof. intros q []. Qed.
Lemma env_inv_incl F G e : incl F G -> env_inv F e -> env_inv G e.
Proof. intros HFG H q Hq. destruct (H q Hq) as [f [Hf Hr]]. exists f. split; [apply HFG; exact Hf|exact Hr]. Qed.

Lemma load_field_loaded s allfs e f buf v rest : load_field OP tm R s allfs e f buf = Ok (v, rest) -> loaded f v.
Proof.
  intros H t Ht. unfold load_field in H. rewrite Ht in H. cbv zeta in H.
  match type of H with (match ?x with Some _ => _ | None => _ end) = _ => destruct x as [lb|] end; [|discriminate H].
  change (match lookup_struct tm t with Some ts => match s_disp ts with SdAbstract => true | _ => false end | None => false end)
    with (abs_name tm t) in H.
  exists lb. unfold bind in H.
  destruct (if abs_name tm t then decf_t R t lb else dec_t R t lb) as [v0| |]; try discriminate H.
  destruct (size_t R t v0); try discriminate H. injection H as -> _. reflexivity.
Qed.

Lemma deserialize_field_inv s allfs e f buf e' buf' : deserialize_field OP tm R s allfs e f buf = Ok (e', buf') ->
  exists v, e' = (f_name f, v) :: e /\ ((v = VNull /\ uncond f = false) \/ loaded f v).
Proof.
  unfold deserialize_field, bind. destruct (cond_local tm allfs e f) as [c| |] eqn:Hc; try discriminate. destruct c.
  - destruct (load_field OP tm R s allfs e f buf) as [[v rest]| |] eqn:Hl; try discriminate.
    cbn [fst snd]. intros H; injection H as <- <-. exists v. split; [reflexivity|]. right. exact (load_field_loaded _ _ _ _ _ _ _ Hl).
  - intros H; injection H as <- <-. exists VNull. split; [reflexivity|]. left. split; [reflexivity|].
    unfold uncond. unfold cond_local in Hc. destruct (f_cond f); [reflexivity|discriminate Hc].
Qed.

Lemma env_inv_cons F e f v : In f F -> (v = VNull /\ uncond f = false) \/ loaded f v -> env_inv F e -> env_inv F ((f_name f, v) :: e).
Proof. intros Hf Hv He q [<-|Hq]; [exists f; cbn [fst snd]; auto|exact (He q Hq)]. Qed.

Lemma drain_queue_inv s allfs F fs : incl fs F -> forall e tbuf e', drain_queue OP tm R s allfs e fs tbuf = Ok e' ->
  env_inv F e -> env_inv F e' /\ incl e e'.
Proof.
  induction fs as [|f r IH]; intros HF e tbuf e'; cbn [drain_queue].
  - intros H He; injection H as <-. split; [exact He|apply incl_refl].
  - unfold bind. destruct (deserialize_field OP tm R s allfs e f tbuf) as [[e1 b1]| |] eqn:Hd; try discriminate. cbn [fst snd].
    intros H He. destruct (deserialize_field_inv _ _ _ _ _ _ _ Hd) as [v [-> Hv]].
    destruct (IH (fun x Hx => HF x (or_intror Hx)) _ _ _ H (env_inv_cons F e f v (HF f (or_introl eq_refl)) Hv He)) as [H1 H2].
    split; [exact H1|]. intros x Hx. apply H2. right. exact Hx.
Qed.

Definition queue_in (F : list field) (queued : list (string * list field)) : Prop := forall q, In q queued -> incl (snd q) F.

Lemma deserialize_loop_inv s allfs F fs : incl fs F ->
  forall processed queued temps e buf e' buf', deserialize_loop OP tm R s allfs fs processed queued temps e buf = Ok (e', buf') ->
  queue_in F queued -> env_inv F e ->
  env_inv F e' /\ incl e e' /\ (forall f, In f fs -> uncond f = true -> exists v, In (f_name f, v) e').
Proof.
  induction fs as [|f r IH]; intros HF processed queued temps e buf e' buf'; cbn [deserialize_loop].
  - intros H _ He; injection H as <- <-. split; [exact He|]. split; [apply incl_refl|]. intros f [].
  - assert (Hf : In f F) by (apply HF; left; reflexivity).
    assert (Hr : incl r F) by (intros x Hx; apply HF; right; exact Hx).
    intros H Hq He.
    assert (Hdirect : forall processed' , 
      bind (deserialize_field OP tm R s allfs e f buf) (fun x =>
        bind (drain_queue OP tm R s allfs (fst x)
                (match find (fun q : string * list field => String.eqb (fst q) (f_name f)) queued with Some q => snd q | None => [] end)
                (match find (fun q : string * bytes => String.eqb (fst q) (f_name f)) temps with Some q => snd q | None => [] end))
             (fun e2 => deserialize_loop OP tm R s allfs r processed' queued temps e2 (snd x))) = Ok (e', buf') ->
      env_inv F e' /\ incl e e' /\ (forall g, In g (f :: r) -> uncond g = true -> exists v, In (f_name g, v) e')).
    { intros processed' H'. unfold bind in H'.
      destruct (deserialize_field OP tm R s allfs e f buf) as [[e1 b1]| |] eqn:Hd; try discriminate H'. cbn [fst snd] in H'.
      destruct (deserialize_field_inv _ _ _ _ _ _ _ Hd) as [v [-> Hv]].
      match type of H' with match drain_queue _ _ _ _ _ _ ?w ?tb with _ => _ end = _ => destruct (drain_queue OP tm R s allfs ((f_name f, v) :: e) w tb) as [e2| |] eqn:Hdq; try discriminate H';
        assert (Hw : incl w F) end.
      { destruct (find (fun q : string * list field => String.eqb (fst q) (f_name f)) queued) as [q0|] eqn:Hfind; [|intros x []].
        apply Hq. exact (proj1 (find_some _ _ Hfind)). }
      destruct (drain_queue_inv s allfs F _ Hw _ _ _ Hdq (env_inv_cons F e f v Hf Hv He)) as [He2 Hi2].
      destruct (IH Hr _ _ _ _ _ _ _ H' Hq He2) as [He' [Hi' Hc']].
      split; [exact He'|]. split.
      - intros x Hx. apply Hi', Hi2. right. exact Hx.
      - intros g [<-|Hg] Hu; [|exact (Hc' g Hg Hu)]. exists v. apply Hi', Hi2. left. reflexivity. }
    destruct (f_cond f) as [c|] eqn:Hc; [|exact (Hdirect _ H)].
    destruct (existsb (String.eqb (c_link c)) processed); [exact (Hdirect _ H)|].
    assert (Hnu : uncond f = false) by (unfold uncond; rewrite Hc; reflexivity).
    assert (Hcov : forall e'' : env, (forall g, In g r -> uncond g = true -> exists v, In (f_name g, v) e'') ->
                   forall g, In g (f :: r) -> uncond g = true -> exists v, In (f_name g, v) e'').
    { intros e'' Hc' g [<-|Hg] Hu; [rewrite Hnu in Hu; discriminate Hu|exact (Hc' g Hg Hu)]. }
    destruct (find (fun q : string * list field => String.eqb (fst q) (c_link c)) queued) as [q0|].
    + assert (Hq' : queue_in F (map (fun q : string * list field => if String.eqb (fst q) (c_link c) then (fst q, snd q ++ [f]) else q) queued)).
      { intros q Hin. apply in_map_iff in Hin as [q' [<- Hin']]. destruct (String.eqb (fst q') (c_link c)); cbn [snd]; [|exact (Hq _ Hin')].
        apply incl_app; [exact (Hq _ Hin')|]. intros x [<-|[]]. exact Hf. }
      destruct (IH Hr _ _ _ _ _ _ _ H Hq' He) as [He' [Hi' Hc']]. split; [exact He'|]. split; [exact Hi'|]. exact (Hcov _ Hc').
    + destruct (f_type f) as [i|t|a]; try discriminate H. unfold bind in H.
      destruct (dec_t R t buf) as [tv| |]; try discriminate H. destruct (size_t R t tv) as [sz| |]; try discriminate H.
      assert (Hq' : queue_in F (queued ++ [(c_link c, [f])])).
      { intros q Hin. apply in_app_or in Hin as [Hin|[<-|[]]]; [exact (Hq _ Hin)|]. cbn [snd]. intros x [<-|[]]. exact Hf. }
      destruct (IH Hr _ _ _ _ _ _ _ H Hq' He) as [He' [Hi' Hc']]. split; [exact He'|]. split; [exact Hi'|]. exact (Hcov _ Hc').
Qed.
End EnvInv.

(* ---------- the shape of a decoded object, and the key view of what the decoders return ---------- *)
Section Decoded.
Variable OP : ops.
Variable tm : list decl.

Definition Rk (k : nat) : rec_ops :=
  {| enc_t := enc OP tm k; size_t := size OP tm k; dec_t := dec OP tm k; decf_t := decf OP tm k; key_t := key OP tm k |}.

Ltac refold :=
  fold (enc OP tm) (size OP tm) (key OP tm) (dec OP tm) (decf OP tm) (enc_struct OP tm) (size_struct OP tm) (dec_struct OP tm).

Lemma dec_struct_shape k s buf v : dec_struct OP tm k s buf = Ok v ->
  exists k' e, k = S k' /\ v = VStruct (s_name s) (collect s e) /\ env_inv tm (Rk k') (dec_fields tm s) e
            /\ (forall f, In f (dec_fields tm s) -> uncond f = true -> exists x, In (f_name f, x) e).
Proof.
  destruct k as [|k]; [discriminate|]. cbn [dec_struct]. refold. fold (Rk k). intros H. exists k.
  assert (Hmain :
    match base_struct tm s with
    | Some b =>
        bind (dec_header_with OP tm (Rk k) b (struct_fields_nc s) buf)
          (fun h => let '(e0, ws, we) := h in
             bind (deserialize_loop OP tm (Rk k) s (struct_fields_nc s) (own_fields tm s) [] [] [] e0 (zskipn ws (zfirstn we buf)))
               (fun r => Ok (VStruct (s_name s) (collect s (fst r)))))
    | None =>
        bind (deserialize_loop OP tm (Rk k) s (struct_fields_nc s) (own_fields tm s) [] [] [] [] buf)
          (fun r => Ok (VStruct (s_name s) (collect s (fst r))))
    end = Ok v).
  { destruct (s_disp s); [exact H|discriminate H|exact H]. }
  clear H. unfold dec_fields. destruct (base_struct tm s) as [b|].
  - unfold bind, dec_header_with in Hmain. unfold bind in Hmain.
    destruct (deserialize_loop OP tm (Rk k) b (struct_fields_nc s) (struct_fields_nc b) [] [] [] [] buf) as [[e0 b0]| |] eqn:Hh; try discriminate Hmain.
    cbn [fst snd] in Hmain.
    match type of Hmain with match deserialize_loop _ _ _ _ _ _ _ _ _ _ ?w with _ => _ end = _ =>
      destruct (deserialize_loop OP tm (Rk k) s (struct_fields_nc s) (own_fields tm s) [] [] [] e0 w) as [[e1 b1]| |] eqn:Ho; try discriminate Hmain end.
    cbn [fst] in Hmain. injection Hmain as <-. exists e1. split; [reflexivity|]. split; [reflexivity|].
    set (F := struct_fields_nc b ++ own_fields tm s).
    destruct (deserialize_loop_inv OP tm (Rk k) b (struct_fields_nc s) F (struct_fields_nc b) (fun x Hx => in_or_app _ _ x (or_introl Hx))
                _ _ _ _ _ _ _ Hh (fun q (Hq : In q []) => match Hq with end) (env_inv_nil tm (Rk k) F)) as [He0 [_ Hc0]].
    destruct (deserialize_loop_inv OP tm (Rk k) s (struct_fields_nc s) F (own_fields tm s) (fun x Hx => in_or_app _ _ x (or_intror Hx))
                _ _ _ _ _ _ _ Ho (fun q (Hq : In q []) => match Hq with end) He0) as [He1 [Hi1 Hc1]].
    split; [exact He1|]. intros f Hf Hu. apply in_app_or in Hf as [Hf|Hf]; [|exact (Hc1 f Hf Hu)].
    destruct (Hc0 f Hf Hu) as [x Hx]. exists x. apply Hi1. exact Hx.
  - unfold bind in Hmain.
    destruct (deserialize_loop OP tm (Rk k) s (struct_fields_nc s) (own_fields tm s) [] [] [] [] buf) as [[e1 b1]| |] eqn:Ho; try discriminate Hmain.
    cbn [fst] in Hmain. injection Hmain as <-. exists e1. split; [reflexivity|]. split; [reflexivity|]. cbn [app].
    destruct (deserialize_loop_inv OP tm (Rk k) s (struct_fields_nc s) (own_fields tm s) (own_fields tm s) (incl_refl _)
                _ _ _ _ _ _ _ Ho (fun q (Hq : In q []) => match Hq with end) (env_inv_nil tm (Rk k) _)) as [He1 [_ Hc1]].
    split; [exact He1|exact Hc1].
Qed.

Lemma vget_collect s e c p pv : vget (VStruct c (collect s e)) p = Some pv ->
  (find (fun q : string * value => String.eqb (fst q) p) e = None /\ pv = VNull)
  \/ exists q, find (fun q : string * value => String.eqb (fst q) p) e = Some q /\ pv = snd q.
Proof.
  cbn [vget]. unfold collect.
  match goal with |- match ?x with _ => _ end = _ -> _ => destruct x as [p0|] eqn:Hf end; [|discriminate].
  intros H; injection H as <-. apply find_some in Hf as [Hin Hn]. apply in_map_iff in Hin as [f [<- _]]. cbn [fst snd] in *.
  apply String.eqb_eq in Hn. rewrite Hn.
  destruct (find (fun q : string * value => String.eqb (fst q) p) e) as [q|]; [right; eauto|left; auto].
Qed.

Lemma dec_scalar j pt d b v : lookup tm pt = Some d -> (forall s, d <> DStruct s) -> dec OP tm j pt b = Ok v -> scalar_match tm pt v = true.
Proof.
  intros Hl Hd. destruct j as [|j]; [discriminate|]. cbn [dec]. rewrite Hl. unfold scalar_match. rewrite Hl.
  destruct d as [n0 [i0|z0] c0|n0 b0 vs0 a0 c0|s0].
  - match goal with |- (if ?c then _ else _) = _ -> _ => destruct c end; [discriminate|]. intros H; injection H as <-. reflexivity.
  - unfold bind. destruct (get_bytes OP b z0); try discriminate. intros H; injection H as <-. reflexivity.
  - match goal with |- (if ?c then _ else _) = _ -> _ => destruct c end; [|discriminate]. intros H; injection H as <-. reflexivity.
  - exfalso. eapply Hd. reflexivity.
Qed.

Hypothesis Hwf : wf_schema tm = true.
Hypothesis Hkeys : wf_keys tm = true.

(* whatever T.deserialize returns has a total key view under the static type T *)
Lemma key_decoded_nu fuel j kt b kv : dec OP tm j kt b = Ok kv -> nu (key OP tm fuel kt kv).
Proof.
  intros H. destruct (lookup tm kt) as [d|] eqn:Hl.
  2:{ apply key_nonstruct_nu. right. intros s Hs. rewrite Hl in Hs. discriminate Hs. }
  destruct d as [n0 l0 c0|n0 b0 vs0 a0 c0|ks];
    try (apply key_nonstruct_nu; right; intros s Hs; rewrite Hl in Hs; discriminate Hs).
  destruct j as [|j]; [discriminate H|]. cbn [dec] in H. rewrite Hl in H. refold.
  destruct (dec_struct_shape _ _ _ _ H) as [k' [e [-> [-> [He Hc]]]]].
  pose proof (lookup_in _ _ _ Hl) as Hin.
  apply (key_struct_nu OP tm fuel kt ks _ Hl (wf_comparer tm ks Hwf Hin)).
  intros a p pf pt pv Ha Hp Hpf Hty Hg.
  destruct (comparer_props_fact tm Hwf Hkeys ks a p pf pt Hin Ha Hp Hpf Hty) as [Hu [Hall [Hex [d [Hd Hnd]]]]].
  destruct (vget_collect _ _ _ _ _ Hg) as [[Hnone ->]|[q [Hq ->]]].
  - exfalso. apply existsb_exists in Hex as [g [Hg1 Hg2]]. apply String.eqb_eq in Hg2.
    pose proof (forallb_named f_name _ _ p g Hall Hg1 Hg2) as Hgp. cbn beta in Hgp. apply Bool.andb_true_iff in Hgp as [_ Hgu].
    destruct (Hc g Hg1 Hgu) as [x Hx]. pose proof (find_none _ _ Hnone _ Hx) as Hf. cbn [fst] in Hf. rewrite Hg2, String.eqb_refl in Hf. discriminate Hf.
  - apply find_some in Hq as [Hqin Hqn]. apply String.eqb_eq in Hqn.
    destruct (He q Hqin) as [f [Hf [Hfn Hfv]]]. rewrite Hqn in Hfn.
    pose proof (forallb_named f_name _ _ p f Hall Hf Hfn) as Hfp. cbn beta in Hfp. apply Bool.andb_true_iff in Hfp as [Hft Hfu].
    destruct Hfv as [[_ Hfv]|Hfv]; [rewrite Hfu in Hfv; discriminate Hfv|].
    unfold named_is in Hft. destruct (f_type f) as [i|x|arr] eqn:Hfty; try discriminate Hft. apply String.eqb_eq in Hft. subst x.
    destruct (Hfv pt Hfty) as [b' Hb']. rewrite (proj2 (scalar_no_struct tm pt d Hd Hnd)) in Hb'. cbn [Rk dec_t] in Hb'.
    exact (dec_scalar _ _ _ _ _ Hd Hnd Hb').
Qed.

(* the element a sorted array's reader has just decoded has a total sort accessor *)
Lemma elem_key_decoded_nu j a view e : array_keys_ok tm a = true -> key_static_ok tm a = true ->
  elem_dec tm (Rk j) a view = Ok e -> nu (elem_key tm (Rk j) a e).
Proof.
  unfold array_keys_ok, key_static_ok, elem_key, elem_dec. destruct (a_sort_key a) as [k|]; [|intros; apply nu_ok].
  destruct (elem_name a) as [t|]; [|discriminate].
  destruct (lookup_struct tm t) as [es|] eqn:Hes; [|discriminate].
  destruct (find_field (s_fields es) k) as [kf|]; [|discriminate].
  intros Hk Hst Hd. apply Bool.andb_true_iff in Hk as [Hna Hk]. apply Bool.negb_true_iff in Hna. rewrite Hna in Hd.
  destruct (vget e k) as [kv|] eqn:Hg; [|nu_crash].
  destruct (f_type kf) as [i|kt|arr]; [destruct kv; nu_crash| |discriminate Hst].
  apply Bool.andb_true_iff in Hk as [Hkabs Hall]. apply Bool.negb_true_iff in Hkabs.
  apply nu_bind; [|intros; apply nu_ok]. cbn [Rk key_t dec_t] in *.
  destruct j as [|j]; [discriminate Hd|]. cbn [dec] in Hd. rewrite (lookup_struct_lookup tm _ _ Hes) in Hd. refold.
  destruct (dec_struct_shape _ _ _ _ Hd) as [k' [env [-> [-> [He _]]]]].
  destruct (vget_collect _ _ _ _ _ Hg) as [[_ ->]|[q [Hq ->]]]; [apply key_nonstruct_nu; left; intros; discriminate|].
  apply find_some in Hq as [Hqin Hqn]. apply String.eqb_eq in Hqn.
  destruct (He q Hqin) as [f [Hf [Hfn Hfv]]]. rewrite Hqn in Hfn.
  pose proof (forallb_named f_name _ _ k f Hall Hf Hfn) as Hft. cbn beta in Hft.
  destruct Hfv as [[-> _]|Hfv]; [apply key_nonstruct_nu; left; intros; discriminate|].
  unfold named_is in Hft. destruct (f_type f) as [i|x|arr] eqn:Hfty; try discriminate Hft. apply String.eqb_eq in Hft. subst x.
  destruct (Hfv kt Hfty) as [b' Hb']. rewrite Hkabs in Hb'. cbn [Rk dec_t] in Hb'.
  exact (key_decoded_nu _ _ _ _ _ Hb').
Qed.
End Decoded.

(* ---------- decode side again, with the key view only asked about what the element decoder returned ---------- *)
Definition R_des_ok2 (tm : list decl) (R : rec_ops) : Prop :=
  ((forall t b, nu (dec_t R t b)) /\ (forall t b, nu (decf_t R t b)) /\ (forall t v, nu (size_t R t v)))
  /\ (forall a view e, array_keys_ok tm a = true -> key_static_ok tm a = true -> elem_dec tm R a view = Ok e -> nu (elem_key tm R a e)).
Definition des_ok2 (tm : list decl) (allfs : list field) (f : field) : bool := des_static_ok tm allfs f && field_keys_ok tm f.

Section DecodeMembers2.
Variable OP : ops.
Variable tm : list decl.
Variable R : rec_ops.
Hypothesis HR : R_des_ok2 tm R.

Lemma nu_elem_dec2 a buf : (exists t, elem_name a = Some t) -> nu (elem_dec tm R a buf).
Proof. intros [t Ht]. unfold elem_dec. rewrite Ht. destruct (contents_abstract tm a); apply HR. Qed.
Lemma nu_elem_size2 a e : (exists t, elem_name a = Some t) -> nu (elem_size R a e).
Proof. intros [t Ht]. unfold elem_size. rewrite Ht. apply HR. Qed.

Lemma nu_read_array_go2 a acc : (exists t, elem_name a = Some t) -> key_static_ok tm a = true -> array_keys_ok tm a = true ->
  forall fuel rule i prev view, nu (read_array_go OP tm R a acc fuel rule i prev view).
Proof.
  intros Hn Hk Hka. induction fuel as [|fuel IH]; intros rule i prev view; cbn [read_array_go].
  - destruct (negb _); nu_crash.
  - destruct (negb _); [apply nu_ok|].
    apply nu_bind; [apply nu_elem_dec2; exact Hn|]. intros e He.
    apply nu_bind; [apply nu_elem_size2; exact Hn|]. intros s _.
    destruct (size_bad OP s); [apply nu_reject|].
    apply nu_bind; [destruct acc; [exact (proj2 HR a view e Hka Hk He)|apply nu_ok]|]. intros k _.
    match goal with |- nu (if ?c then _ else _) => destruct c end; [apply nu_reject|].
    apply nu_bind; [apply IH|]. intros; apply nu_ok.
Qed.

Lemma nu_read_variable2 a : (exists t, elem_name a = Some t) -> forall fuel view, nu (read_variable OP tm R a fuel view).
Proof.
  intros Hn. induction fuel as [|fuel IH]; intros view; destruct view as [|x view]; cbn [read_variable]; try nu_crash.
  apply nu_bind; [apply nu_elem_dec2; exact Hn|]. intros e _.
  apply nu_bind; [apply nu_elem_size2; exact Hn|]. intros s _.
  destruct (size_bad_v OP s); [apply nu_reject|].
  match goal with |- nu (if ?c then _ else _) => destruct c end; [apply nu_reject|].
  apply nu_bind; [apply IH|]. intros; apply nu_ok.
Qed.

Lemma des_static_no_unsupported2 s allfs e f buf : des_ok2 tm allfs f = true -> nu (load_field OP tm R s allfs e f buf).
Proof.
  unfold des_ok2, des_static_ok. intros H. apply Bool.andb_true_iff in H as [H Hfk]. apply Bool.andb_true_iff in H as [_ H].
  unfold field_keys_ok in Hfk.
  unfold load_field. destruct (f_type f) as [i|t|a].
  - destruct (is_reserved f); cbn [negb orb] in H.
    + destruct (f_value f); try discriminate. match goal with |- nu (if ?c then _ else _) => destruct c end; nu_crash.
    + apply nu_ok.
  - match goal with |- nu (match ?x with Some _ => _ | None => _ end) => destruct x end; [|nu_crash].
    apply nu_bind; [match goal with |- nu (if ?c then _ else _) => destruct c end; apply HR|].
    intros v _. apply nu_bind; [apply HR|]. intros; apply nu_ok.
  - destruct (is_byte_array a).
    + apply nu_bind.
      * destruct (a_size a); [apply nu_ok|apply nu_size_local|discriminate].
      * intros n _. apply nu_bind; [apply nu_get_bytes|]. intros; apply nu_ok.
    + apply Bool.andb_true_iff in H as [H Hk]. apply Bool.andb_true_iff in H as [Hn Hbc].
      assert (Hn' : exists t, elem_name a = Some t) by (destruct (elem_name a); [eauto|discriminate]).
      apply nu_bind.
      * destruct (a_size a); [apply nu_ok| |apply nu_ok]. apply nu_bind; [apply nu_size_local|]. intros; apply nu_ok.
      * intros sz Hsz. apply nu_bind.
        -- destruct (is_variable_size tm a); [apply nu_read_variable2; exact Hn'|].
           destruct sz; apply nu_read_array_go2; assumption.
        -- intros l _. apply nu_bind.
           ++ destruct (a_byte_constrained a); cbn [negb orb] in Hbc.
              ** destruct sz; [apply nu_ok|]. exfalso. destruct (a_size a) as [n|n|].
                 --- discriminate Hsz.
                 --- unfold bind in Hsz. destruct (size_local e n); discriminate Hsz.
                 --- discriminate Hbc.
              ** destruct (negb (alignment_of a =? 0)); apply nu_array_size_with; intros x; apply nu_elem_size2; exact Hn'.
           ++ intros; apply nu_ok.
Qed.

Lemma nu_deserialize_field2 s allfs e f buf : des_ok2 tm allfs f = true -> nu (deserialize_field OP tm R s allfs e f buf).
Proof.
  intros H. unfold deserialize_field.
  apply nu_bind; [apply nu_cond_local; unfold des_ok2, des_static_ok in H; apply Bool.andb_true_iff in H as [H _]; apply Bool.andb_true_iff in H as [H _]; exact H|].
  intros c _. destruct c; [|apply nu_ok].
  apply nu_bind; [apply des_static_no_unsupported2; exact H|]. intros; apply nu_ok.
Qed.

Variable s : struct.
Variable allfs : list field.
Let ok := des_ok2 tm allfs.

Lemma nu_drain_queue2 fs : forallb ok fs = true -> forall e tbuf, nu (drain_queue OP tm R s allfs e fs tbuf).
Proof.
  induction fs as [|f r IH]; cbn [drain_queue forallb]; [intros; apply nu_ok|].
  intros H e tbuf. apply Bool.andb_true_iff in H as [Hf Hr].
  apply nu_bind; [apply nu_deserialize_field2; assumption|]. intros x _. apply IH. exact Hr.
Qed.

Definition queue_ok2 (queued : list (string * list field)) : Prop := Forall (fun q => forallb ok (snd q) = true) queued.

Lemma nu_deserialize_loop2 fs : forallb ok fs = true ->
  forall processed queued temps e buf, queue_ok2 queued -> nu (deserialize_loop OP tm R s allfs fs processed queued temps e buf).
Proof.
  induction fs as [|f r IH]; cbn [deserialize_loop forallb]; [intros; apply nu_ok|].
  intros H processed queued temps e buf Hq. apply Bool.andb_true_iff in H as [Hf Hr].
  match goal with |- nu (match ?w with Some _ => _ | None => _ end) => destruct w as [cn|] end.
  - destruct (find (fun q : string * list field => String.eqb (fst q) cn) queued) as [q0|].
    + apply IH; [exact Hr|]. unfold queue_ok2 in *. rewrite Forall_forall in *. intros q Hin.
      apply in_map_iff in Hin as [q' [<- Hin']]. destruct (String.eqb (fst q') cn); cbn [snd].
      * apply forallb_app_true; [exact (Hq _ Hin')|cbn [forallb]; fold ok; rewrite Hf; reflexivity].
      * exact (Hq _ Hin').
    + destruct (f_type f) as [i|t|a]; try nu_crash.
      apply nu_bind; [apply HR|]. intros tv _. apply nu_bind; [apply HR|]. intros sz _.
      apply IH; [exact Hr|]. unfold queue_ok2. apply Forall_app. split; [exact Hq|].
      constructor; [|constructor]. cbn [snd forallb]. fold ok. rewrite Hf. reflexivity.
  - apply nu_bind; [apply nu_deserialize_field2; assumption|]. intros x _.
    apply nu_bind.
    + apply nu_drain_queue2.
      destruct (find (fun q : string * list field => String.eqb (fst q) (f_name f)) queued) as [q0|] eqn:Hfind; [|reflexivity].
      unfold queue_ok2 in Hq. rewrite Forall_forall in Hq. exact (Hq _ (proj1 (find_some _ _ Hfind))).
    + intros e2 _. apply IH; assumption.
Qed.
End DecodeMembers2.

(* size side: the members' sizes never ask for the key view (the lemmas of DialectProofs are reused at a record whose key view is a stub) *)
Lemma nu_size_fields2 OP tm R allfs self fs : (forall t v, nu (size_t R t v)) ->
  forallb (size_static_ok tm allfs) fs = true -> nu (size_fields OP tm R allfs self fs).
Proof.
  intros Hs H.
  change (nu (size_fields OP tm {| enc_t := fun _ _ => Ok []; size_t := size_t R; dec_t := dec_t R; decf_t := decf_t R;
                                   key_t := fun _ _ => Crash "TypeError" |} allfs self fs)).
  apply nu_size_fields; [|exact H]. repeat split; cbn [enc_t size_t key_t]; intros; try nu_crash. apply Hs.
Qed.

(* ---------- size, deserialize, factory-deserialize: never Unsupported, for every buffer and every value ---------- *)
Lemma forallb_and {A} (p q : A -> bool) l : forallb p l = true -> forallb q l = true -> forallb (fun x => p x && q x) l = true.
Proof.
  induction l as [|x l IH]; cbn [forallb]; [reflexivity|]. intros Hp Hq.
  apply Bool.andb_true_iff in Hp as [Hp1 Hp2]. apply Bool.andb_true_iff in Hq as [Hq1 Hq2]. rewrite Hp1, Hq1, (IH Hp2 Hq2). reflexivity.
Qed.

Section Codec2.
Variable OP : ops.
Variable tm : list decl.
Hypothesis Hwf : wf_schema tm = true.
Hypothesis Hkeys : wf_keys tm = true.

Definition sd_goal (k : nat) : Prop :=
  (forall t v, nu (size OP tm k t v)) /\ (forall s v, In (DStruct s) tm -> nu (size_struct OP tm k s v))
  /\ (forall t b, nu (dec OP tm k t b)) /\ (forall s b, In (DStruct s) tm -> nu (dec_struct OP tm k s b))
  /\ (forall t b, nu (decf OP tm k t b)).

Lemma sd_size j : sd_goal j -> forall t v, nu (size OP tm j t v). Proof. intros H; apply H. Qed.
Lemma sd_size_struct j : sd_goal j -> forall s v, In (DStruct s) tm -> nu (size_struct OP tm j s v). Proof. intros H; apply H. Qed.
Lemma sd_dec j : sd_goal j -> forall t b, nu (dec OP tm j t b). Proof. intros H; apply H. Qed.
Lemma sd_dec_struct j : sd_goal j -> forall s b, In (DStruct s) tm -> nu (dec_struct OP tm j s b). Proof. intros H; apply H. Qed.
Lemma sd_decf j : sd_goal j -> forall t b, nu (decf OP tm j t b). Proof. intros H; apply H. Qed.

Lemma rec_size_ok j : sd_goal j -> forall t v,
  nu (size_t {| enc_t := enc OP tm j; size_t := size OP tm j; dec_t := dec OP tm j; decf_t := decf OP tm j; key_t := key OP tm j |} t v).
Proof. intros H. cbn [size_t]. apply H. Qed.
Lemma rec_des_ok2 j : sd_goal j ->
  R_des_ok2 tm {| enc_t := enc OP tm j; size_t := size OP tm j; dec_t := dec OP tm j; decf_t := decf OP tm j; key_t := key OP tm j |}.
Proof.
  intros [Hs [_ [Hd [_ Hf]]]]. split; [repeat split; cbn [dec_t decf_t size_t]; auto|].
  intros a view e Hka Hk He. exact (elem_key_decoded_nu OP tm Hwf Hkeys j a view e Hka Hk He).
Qed.

(* field_keys_ok over the member lists the loops walk *)
Lemma keys_fields s : In (DStruct s) tm -> forallb (field_keys_ok tm) (s_fields s) = true.
Proof. intros Hin. pose proof (wf_keys_struct tm s Hkeys Hin) as H. unfold struct_keys_ok in H. apply Bool.andb_true_iff in H as [_ H]. exact H. Qed.
Lemma keys_nc s : In (DStruct s) tm -> forallb (field_keys_ok tm) (struct_fields_nc s) = true.
Proof. intros Hin. unfold struct_fields_nc, non_const. apply forallb_filter. apply keys_fields. exact Hin. Qed.
Lemma keys_own s : In (DStruct s) tm -> forallb (field_keys_ok tm) (own_fields tm s) = true.
Proof. intros Hin. unfold own_fields. apply forallb_filter. apply (keys_nc s Hin). Qed.
Lemma base_in s b : base_struct tm s = Some b -> In (DStruct b) tm.
Proof. unfold base_struct. destruct (s_factory_type s); [|discriminate]. apply lookup_struct_in. Qed.

Lemma fact2_own_des s : In (DStruct s) tm -> forallb (des_ok2 tm (struct_fields_nc s)) (own_fields tm s) = true.
Proof. intros Hin. apply forallb_and; [apply (fact_own_des tm Hwf s Hin)|apply keys_own; exact Hin]. Qed.
Lemma fact2_all_des s : In (DStruct s) tm -> forallb (des_ok2 tm (struct_fields_nc s)) (struct_fields_nc s) = true.
Proof. intros Hin. apply forallb_and; [apply (fact_all_des tm Hwf s Hin)|apply keys_nc; exact Hin]. Qed.
Lemma fact2_base_des s b : In (DStruct s) tm -> base_struct tm s = Some b -> forallb (des_ok2 tm (struct_fields_nc s)) (struct_fields_nc b) = true.
Proof. intros Hin Hb. apply forallb_and; [apply (fact_base_des tm Hwf s b Hin Hb)|apply keys_nc; exact (base_in s b Hb)]. Qed.
Lemma queue_ok2_nil allfs : queue_ok2 tm allfs [].
Proof. constructor. Qed.

Ltac refold :=
  fold (enc OP tm) (size OP tm) (key OP tm) (dec OP tm) (decf OP tm) (enc_struct OP tm) (size_struct OP tm) (dec_struct OP tm).
Ltac head_of t := lazymatch t with ?f _ => head_of f | _ => t end.
Ltac solve_in :=
  first [ assumption
        | eapply lookup_struct_in; eassumption
        | eapply lookup_in; eassumption
        | eapply find_rev_filter_in; eassumption ].
Ltac solve_fact :=
  first [ apply (fact_own_size tm Hwf); solve_in | eapply (fact_base_size tm Hwf); [solve_in|eassumption]
        | apply fact2_own_des; solve_in | eapply fact2_base_des; [solve_in|eassumption]
        | apply fact2_all_des; solve_in ].
Ltac lower Hlow := apply Hlow; lia.
Ltac leaf Hlow :=
  first
  [ apply nu_py_to_bytes
  | apply nu_get_bytes
  | eapply nu_size_fields2; [apply rec_size_ok; lower Hlow | solve_fact]
  | eapply nu_deserialize_loop2; [apply rec_des_ok2; lower Hlow | solve_fact | apply queue_ok2_nil]
  | apply sd_size; lower Hlow
  | apply sd_dec; lower Hlow
  | apply sd_decf; lower Hlow
  | apply sd_size_struct; [lower Hlow | solve_in]
  | apply sd_dec_struct; [lower Hlow | solve_in]
  | lazymatch goal with |- nu ?t => let h := head_of t in unfold h end ].
Ltac walk Hlow :=
  repeat first
  [ progress cbv zeta
  | lazymatch goal with
    | |- nu (Ok _) => apply nu_ok
    | |- nu Reject => apply nu_reject
    | |- nu (Crash _) => nu_crash
    | |- nu (bind _ _) => apply nu_bind; [|intros ? _]
    | |- nu (match ?x with _ => _ end) => first [ match goal with H : x = _ |- _ => rewrite H end | destruct x eqn:? ]
    end
  | leaf Hlow ].

Lemma sd_goal_all k : sd_goal k.
Proof.
  induction k as [k IH] using lt_wf_ind.
  assert (Hlow : forall j, (j < k)%nat -> sd_goal j) by exact IH.
  destruct k as [|k].
  { repeat split; intros; cbn; nu_crash. }
  repeat split.
  - intros t v. cbn [size]. refold. walk Hlow.
  - intros s v Hin. cbn [size_struct]. refold. walk Hlow.
  - intros t b. cbn [dec]. refold. walk Hlow.
  - intros s b Hin. cbn [dec_struct]. refold. walk Hlow.
  - intros t b. destruct k as [|k1]; [cbn; nu_crash|]. cbn [decf]. refold. walk Hlow.
Qed.
End Codec2.

(* ---------- serialize side, for admissible values ---------- *)
Definition stub (R : rec_ops) : rec_ops :=
  {| enc_t := fun _ _ => Ok []; size_t := size_t R; dec_t := dec_t R; decf_t := decf_t R; key_t := fun _ _ => Crash "TypeError" |}.
Lemma stub_ser_ok R : (forall t v, nu (size_t R t v)) -> R_ser_ok (stub R).
Proof. intros Hs. repeat split; cbn [stub enc_t size_t key_t]; intros; try nu_crash. apply Hs. Qed.

Definition R_ser_ok2 (tm : list decl) (R : rec_ops) : Prop :=
  (forall t v, value_admissible tm v = true -> nu (enc_t R t v)) /\ (forall t v, nu (size_t R t v))
  /\ (forall kt kv, value_admissible tm kv = true -> kv = VNull \/ named_shape tm kt kv = true -> abs_name tm kt = false -> nu (key_t R kt kv)).

Section Members2.
Variable OP : ops.
Variable tm : list decl.
Variable R : rec_ops.
Hypothesis HR : R_ser_ok2 tm R.

Lemma HRs : forall t v, nu (size_t R t v).
Proof. apply HR. Qed.

Lemma nu_member_size2 self f : match f_type f with FArray a => array_static_ok tm a = true | _ => True end -> nu (member_size OP tm R self f).
Proof. intros H. change (nu (member_size OP tm (stub R) self f)). apply nu_member_size; [apply stub_ser_ok, HRs|exact H]. Qed.
Lemma nu_computed_value2 allfs self f : is_computed f = true -> nu (computed_value R allfs self f).
Proof. intros H. change (nu (computed_value (stub R) allfs self f)). apply nu_computed_value; [apply stub_ser_ok, HRs|exact H]. Qed.
Lemma nu_cond_self2 allfs self f : cond_static_ok tm allfs f = true -> nu (cond_self tm R allfs self f).
Proof. intros H. change (nu (cond_self tm (stub R) allfs self f)). apply nu_cond_self; [apply stub_ser_ok, HRs|exact H]. Qed.

Lemma nu_elem_enc_adm a e : (exists t, elem_name a = Some t) -> value_admissible tm e = true -> nu (elem_enc R a e).
Proof. intros [t Ht] He. unfold elem_enc. rewrite Ht. apply HR. exact He. Qed.
Lemma nu_elem_size_adm a e : (exists t, elem_name a = Some t) -> nu (elem_size R a e).
Proof. intros [t Ht]. unfold elem_size. rewrite Ht. apply HRs. Qed.

(* the sort accessor on an admissible element of the declared element class *)
Lemma nu_elem_key_adm a e : key_static_ok tm a = true -> array_keys_ok tm a = true -> value_admissible tm e = true ->
  (forall t, elem_name a = Some t -> named_shape tm t e = true) -> nu (elem_key tm R a e).
Proof.
  unfold key_static_ok, array_keys_ok, elem_key. destruct (a_sort_key a) as [k|]; [|intros; apply nu_ok].
  destruct (elem_name a) as [t|] eqn:Ht; [|discriminate].
  destruct (lookup_struct tm t) as [es|] eqn:Hes; [|discriminate].
  destruct (find_field (s_fields es) k) as [kf|] eqn:Hkf; [|discriminate].
  intros Hst Hk He Hsh. apply Bool.andb_true_iff in Hk as [Hna Hk]. apply Bool.negb_true_iff in Hna.
  destruct (vget e k) as [kv|] eqn:Hg; [|nu_crash].
  destruct (f_type kf) as [i|kt|arr] eqn:Hty; [destruct kv; nu_crash| |discriminate Hst].
  apply Bool.andb_true_iff in Hk as [Hkabs _]. apply Bool.negb_true_iff in Hkabs.
  apply nu_bind; [|intros; apply nu_ok].
  apply HR; [exact (admissible_vget tm _ _ _ He Hg)| |exact Hkabs].
  destruct (vget_in _ _ _ Hg) as [cls [fs [-> Hin]]].
  specialize (Hsh t eq_refl). unfold named_shape in Hsh. rewrite (lookup_struct_lookup tm _ _ Hes) in Hsh.
  unfold contents_abstract in Hna. rewrite Ht, Hes in Hna. unfold is_abstract in Hsh. rewrite Hna in Hsh.
  apply String.eqb_eq in Hsh. subst cls.
  destruct (find_field_some _ _ _ Hkf) as [Hkfin Hkfn].
  destruct (admissible_member tm _ _ _ es kf k kv eq_refl He Hes Hin (in_decl_fields_own tm _ _ Hkfin) Hkfn) as [Hfs _].
  unfold field_shape in Hfs. rewrite Hty in Hfs. destruct kv; try (right; exact Hfs). left. reflexivity.
Qed.

Lemma nu_write_array_go_adm a : forall n prev l,
  (forall e, In e l -> nu (elem_key tm R a e) /\ nu (elem_enc R a e)) -> nu (write_array_go OP tm R a prev l n).
Proof.
  induction n as [|n IH]; intros prev l Hl; destruct l as [|e r]; cbn [write_array_go]; try nu_crash; try apply nu_ok.
  apply nu_bind; [apply Hl; left; reflexivity|]. intros k _.
  destruct (match prev with Some p => match k with Some c => order_bad_w OP p c | None => false end | None => false end); [apply nu_reject|].
  apply nu_bind; [apply Hl; left; reflexivity|]. intros be _. apply nu_bind; [apply IH; intros x Hx; apply Hl; right; exact Hx|]. intros; apply nu_ok.
Qed.

Lemma nu_write_array_adm a l n acc : array_static_ok tm a = true -> is_byte_array a = false -> array_keys_ok tm a = true ->
  forallb (value_admissible tm) l = true -> (forall t, elem_name a = Some t -> forallb (named_shape tm t) l = true) ->
  nu (write_array OP tm R a l n acc).
Proof.
  unfold array_static_ok. intros H Hb Hka Hadm Hsh. rewrite Hb in H. cbn [orb] in H. apply Bool.andb_true_iff in H as [Hn Hk].
  destruct (elem_name a) as [t|] eqn:Ht; [|discriminate].
  rewrite forallb_forall in Hadm. specialize (Hsh t eq_refl). rewrite forallb_forall in Hsh.
  unfold write_array. destruct acc.
  - apply nu_write_array_go_adm. intros e He. split.
    + apply nu_elem_key_adm; auto. intros t' Ht'. rewrite Ht in Ht'. injection Ht' as <-. exact (Hsh _ He).
    + apply nu_elem_enc_adm; eauto.
  - apply nu_write_array_go_adm. intros e He. split.
    + unfold elem_key. cbn [a_sort_key]. apply nu_ok.
    + apply nu_elem_enc_adm; [|exact (Hadm _ He)]. exists t. unfold elem_name in *. cbn [a_elem]. exact Ht.
Qed.

Lemma nu_write_variable_adm a l : (exists t, elem_name a = Some t) -> forallb (value_admissible tm) l = true -> nu (write_variable OP R a l).
Proof.
  intros Hn. induction l as [|e r IH]; cbn [write_variable forallb]; [intros; apply nu_ok|]. intros H. apply Bool.andb_true_iff in H as [He Hr].
  apply nu_bind; [apply nu_elem_enc_adm; assumption|]. intros be _.
  apply nu_bind; [apply nu_elem_size_adm; exact Hn|]. intros s _.
  match goal with |- nu (if ?c then _ else _) => destruct c end; [nu_crash|].
  apply nu_bind; [exact (IH Hr)|]. intros; apply nu_ok.
Qed.

(* generate_serialize_field's model on an admissible object whose value for this member has the member's declared shape *)
Lemma ser_static_no_unsupported_adm s allfs total self first f :
  ser_static_ok tm s allfs f = true -> field_keys_ok tm f = true -> value_admissible tm self = true ->
  (forall pv, vget self (f_name f) = Some pv -> field_shape tm f pv = true) ->
  nu (serialize_field OP tm R s allfs total self first f).
Proof.
  intros H Hfk Hadm Hshape. unfold ser_static_ok in H. apply Bool.andb_true_iff in H as [H H3]. apply Bool.andb_true_iff in H as [H1 H2].
  unfold serialize_field.
  destruct (first && is_size_first s [f] f) eqn:Hfirst.
  - apply Bool.andb_true_iff in Hfirst as [_ Hfirst]. rewrite Hfirst in H1.
    destruct (f_type f); try discriminate. apply nu_py_to_bytes.
  - apply nu_bind; [apply nu_cond_self2; exact H2|]. intros c _. destruct c; cbn [negb]; [|apply nu_ok].
    destruct (bound_field allfs f) as [g|].
    + destruct (f_type f) as [i|t|a]; try discriminate.
      apply Bool.andb_true_iff in H3 as [H3 Hg].
      assert (Hgs : nu (member_size OP tm R self g)).
      { apply nu_member_size2. destruct (f_type g); try exact I. exact Hg. }
      destruct (f_array g) as [ga|].
      * destruct (ends_with_count (f_name f) || negb (a_byte_constrained ga)).
        -- apply nu_bind; [apply nu_member_value|]. intros gv _.
           destruct gv; try nu_crash; try apply nu_py_to_bytes.
           destruct (f_cond g) as [gc|]; try nu_crash. destruct (c_value gc); [apply nu_py_to_bytes|nu_crash].
        -- apply nu_bind; [exact Hgs|intros; apply nu_py_to_bytes].
      * rewrite H3. apply nu_bind; [exact Hgs|intros; apply nu_py_to_bytes].
    + unfold field_keys_ok in Hfk. destruct (f_type f) as [i|t|a] eqn:Hty.
      * destruct (is_computed f) eqn:Hc.
        -- apply nu_bind; [apply nu_computed_value2; exact Hc|intros; apply nu_py_to_bytes].
        -- cbn [orb] in H3. destruct (is_reserved f); cbn [negb orb] in H3.
           ++ destruct (f_value f); try discriminate. apply nu_py_to_bytes.
           ++ apply nu_bind; [apply nu_member_value|]. intros v _. destruct v; try nu_crash. apply nu_py_to_bytes.
      * destruct (is_reserved f); [discriminate|].
        unfold member_value. destruct (vget self (f_name f)) as [v|] eqn:Hg; [|nu_crash]. cbn [bind].
        pose proof (admissible_vget tm _ _ _ Hadm Hg) as Hv. destruct v; try (apply HR; exact Hv). nu_crash.
      * unfold member_value. destruct (vget self (f_name f)) as [v|] eqn:Hg; [|nu_crash]. cbn [bind].
        pose proof (admissible_vget tm _ _ _ Hadm Hg) as Hv. pose proof (Hshape v eq_refl) as Hsh. unfold field_shape in Hsh. rewrite Hty in Hsh.
        destruct (is_byte_array a) eqn:Hb.
        -- destruct v; nu_crash.
        -- destruct v as [| |l| |]; try nu_crash. cbn [value_admissible] in Hv.
           assert (Hn : exists t, elem_name a = Some t).
           { unfold array_static_ok in H3. rewrite Hb in H3. cbn [orb] in H3. apply Bool.andb_true_iff in H3 as [Hn _].
             destruct (elem_name a); [eauto|discriminate]. }
           destruct (is_variable_size tm a).
           ++ apply nu_write_variable_adm; assumption.
           ++ assert (Hsh' : forall t, elem_name a = Some t -> forallb (named_shape tm t) l = true).
              { intros t Ht. rewrite Ht in Hsh. exact Hsh. }
              destruct (a_size a); apply nu_write_array_adm; assumption.
Qed.

Lemma nu_serialize_fields_go_adm s allfs total self fs :
  forallb (ser_static_ok tm s allfs) fs = true -> forallb (field_keys_ok tm) fs = true -> value_admissible tm self = true ->
  (forall f pv, In f fs -> vget self (f_name f) = Some pv -> field_shape tm f pv = true) ->
  forall first, nu (serialize_fields_go OP tm R s allfs total self first fs).
Proof.
  induction fs as [|f r IH]; cbn [serialize_fields_go forallb]; [intros; apply nu_ok|].
  intros H Hk Hadm Hsh first. apply Bool.andb_true_iff in H as [Hf Hr]. apply Bool.andb_true_iff in Hk as [Hkf Hkr].
  apply nu_bind; [apply ser_static_no_unsupported_adm; auto; intros pv; apply Hsh; left; reflexivity|]. intros a _.
  apply nu_bind; [apply IH; auto; intros g pv Hg; apply Hsh; right; exact Hg|]. intros; apply nu_ok.
Qed.
End Members2.

(* ---------- serialize of an admissible value never answers Unsupported ---------- *)
Section Codec3.
Variable OP : ops.
Variable tm : list decl.
Hypothesis Hwf : wf_schema tm = true.
Hypothesis Hkeys : wf_keys tm = true.

Definition self_shaped (s : struct) (v : value) : Prop :=
  forall f pv, In f (decl_fields tm s) -> vget v (f_name f) = Some pv -> field_shape tm f pv = true.

Definition enc_goal (k : nat) : Prop :=
  (forall t v, value_admissible tm v = true -> nu (enc OP tm k t v))
  /\ (forall s v, In (DStruct s) tm -> value_admissible tm v = true -> self_shaped s v -> nu (enc_struct OP tm k s v)).

Lemma rec_ser_ok2 j : enc_goal j ->
  R_ser_ok2 tm {| enc_t := enc OP tm j; size_t := size OP tm j; dec_t := dec OP tm j; decf_t := decf OP tm j; key_t := key OP tm j |}.
Proof.
  intros [He _]. split; [|split]; cbn [enc_t size_t key_t].
  - exact He.
  - apply (sd_goal_all OP tm Hwf Hkeys j).
  - intros kt kv Hv Hsh Habs. exact (key_admissible_nu OP tm Hwf Hkeys j kt kv Hv Hsh Habs).
Qed.

Lemma admissible_self_shaped cls fs s : value_admissible tm (VStruct cls fs) = true -> lookup_struct tm cls = Some s -> self_shaped s (VStruct cls fs).
Proof.
  intros Hv Hs f pv Hf Hg. destruct (vget_in _ _ _ Hg) as [cls' [fs' [Heq Hin]]]. injection Heq as <- <-.
  exact (proj1 (admissible_member tm _ _ _ s f (f_name f) pv eq_refl Hv Hs Hin Hf eq_refl)).
Qed.

Ltac refold :=
  fold (enc OP tm) (size OP tm) (key OP tm) (dec OP tm) (decf OP tm) (enc_struct OP tm) (size_struct OP tm) (dec_struct OP tm).

Lemma enc_goal_all k : enc_goal k.
Proof.
  induction k as [k IH] using lt_wf_ind.
  destruct k as [|k].
  { split; intros; cbn; nu_crash. }
  assert (Hk : enc_goal k) by (apply IH; lia).
  split.
  - intros t v Hv. cbn [enc]. refold.
    destruct v as [z|b|l|cls fs|].
    4:{ destruct (lookup_struct tm cls) as [s|] eqn:Hs; [|nu_crash].
        apply Hk; [exact (lookup_struct_in _ _ _ Hs)|exact Hv|exact (admissible_self_shaped _ _ _ Hv Hs)]. }
    all: destruct (lookup tm t) as [[n0 [i0|z0] c0|n0 b0 vs0 a0 c0|s0]|]; try nu_crash; try apply nu_py_to_bytes; apply nu_ok.
  - intros s v Hin Hv Hsh.
    cbn [enc_struct]. refold. cbv zeta.
    apply nu_bind.
    { change (nu (size_struct OP tm (S k) s v)). apply (sd_goal_all OP tm Hwf Hkeys (S k)). exact Hin. }
    intros total _.
    assert (Hown : forall first, nu (serialize_fields_go OP tm
              {| enc_t := enc OP tm k; size_t := size OP tm k; dec_t := dec OP tm k; decf_t := decf OP tm k; key_t := key OP tm k |}
              s (struct_fields_nc s) total v first (own_fields tm s))).
    { apply nu_serialize_fields_go_adm.
      - apply rec_ser_ok2. exact Hk.
      - apply (fact_own_ser tm Hwf s Hin).
      - apply (keys_own tm Hkeys s Hin).
      - exact Hv.
      - intros f pv Hf. apply Hsh. apply in_decl_fields_own. unfold own_fields, non_const in Hf.
        apply filter_In in Hf as [Hf _]. apply filter_In in Hf as [Hf _]. exact Hf. }
    destruct (base_struct tm s) as [b|] eqn:Hb; [|apply Hown].
    apply nu_bind; [|intros hb _; apply nu_bind; [apply Hown|intros; apply nu_ok]].
    apply nu_serialize_fields_go_adm.
    + apply rec_ser_ok2. exact Hk.
    + apply (fact_base_ser tm Hwf s b Hin Hb).
    + apply (keys_nc tm Hkeys b (base_in tm s b Hb)).
    + exact Hv.
    + intros f pv Hf. apply Hsh. unfold decl_fields. rewrite Hb. apply in_or_app. right.
      unfold struct_fields_nc, non_const in Hf. apply filter_In in Hf as [Hf _]. exact Hf.
Qed.
End Codec3.

(* ---------- the whole codecs, no premise on the key view ---------- *)
Theorem codecs_no_unsupported_full OP tm : wf_schema_full tm = true ->
  forall fuel t b,
    (forall v, value_admissible tm v = true -> nu (enc OP tm fuel t v)) /\ (forall v, nu (size OP tm fuel t v))
    /\ nu (dec OP tm fuel t b) /\ nu (decf OP tm fuel t b).
Proof.
  intros H fuel t b. destruct (wf_full_split tm H) as [Hwf Hkeys].
  destruct (sd_goal_all OP tm Hwf Hkeys fuel) as [Hs [_ [Hd [_ Hf]]]].
  split; [intros v Hv; exact (proj1 (enc_goal_all OP tm Hwf Hkeys fuel) t v Hv)|]. split; [intros v; apply Hs|]. split; [apply Hd|apply Hf].
Qed.

(* whatever T.deserialize returns has a total key view under T (any fuel on either side) *)
Theorem key_decoded_total OP tm : wf_schema_full tm = true -> forall fuel j t b v, dec OP tm j t b = Ok v -> nu (key OP tm fuel t v).
Proof. intros H fuel j t b v Hd. destruct (wf_full_split tm H) as [Hwf Hkeys]. exact (key_decoded_nu OP tm Hwf Hkeys fuel j t b v Hd). Qed.
Theorem key_admissible_total OP tm : wf_schema_full tm = true -> forall fuel t v,
  value_admissible tm v = true -> v = VNull \/ named_shape tm t v = true -> abs_name tm t = false -> nu (key OP tm fuel t v).
Proof. intros H fuel t v. destruct (wf_full_split tm H) as [Hwf Hkeys]. exact (key_admissible_nu OP tm Hwf Hkeys fuel t v). Qed.

(* ---------- concrete objects of the shipped schemas (non-vacuity; the schema terms are regenerated per run) ---------- *)
Definition ex_pk (x : Z) : value := VBytes (repeat x 32).
(* NEM: a multisig account modification transaction with two modifications; the array is sorted by modification.comparer() *)
Definition ex_modification (ty : value) (k : Z) : value :=
  VStruct "SizePrefixedMultisigAccountModification"
    [("modification", VStruct "MultisigAccountModification" [("modification_type", ty); ("cosignatory_public_key", ex_pk k)])].
Definition ex_nem_tx (l : list value) : value :=
  VStruct "NonVerifiableMultisigAccountModificationTransactionV1"
    [("type", VInt 4097); ("version", VInt 1); ("network", VInt 104); ("timestamp", VInt 5); ("signer_public_key", ex_pk 7);
     ("fee", VInt 10); ("deadline", VInt 20); ("modifications", VArr l)].
Definition ex_nem_good : value := ex_nem_tx [ex_modification (VInt 1) 2; ex_modification (VInt 1) 1].
(* the same with a byte string where the enum value belongs: not admissible *)
Definition ex_nem_ill : value := ex_nem_tx [ex_modification (VBytes []) 1].
(* Symbol: an embedded transfer with two mosaics, sorted by mosaic_id *)
Definition ex_mosaic (i a : Z) : value := VStruct "UnresolvedMosaic" [("mosaic_id", VInt i); ("amount", VInt a)].
Definition ex_sym_tx : value :=
  VStruct "EmbeddedTransferTransactionV1"
    [("signer_public_key", ex_pk 3); ("version", VInt 1); ("network", VInt 104); ("type", VInt 16724); ("recipient_address", VBytes (repeat 9 24));
     ("mosaics", VArr [ex_mosaic 1 5; ex_mosaic 2 6]); ("message", VBytes [1; 2])].

Definition is_ok {A} (r : result A) : bool := match r with Ok _ => true | _ => false end.
Definition redecodes (tm : list decl) (t : string) (v : value) : bool :=
  match enc ops_now tm type_fuel t v with
  | Ok b => match dec ops_now tm type_fuel t b with Ok v' => value_admissible tm v' | _ => false end
  | _ => false
  end.

Lemma nonvacuous_on_nem :
  wf_schema_full nc_schema = true /\ value_admissible nc_schema ex_nem_good = true
  /\ is_ok (enc ops_now nc_schema type_fuel "NonVerifiableMultisigAccountModificationTransactionV1" ex_nem_good) = true
  /\ redecodes nc_schema "NonVerifiableMultisigAccountModificationTransactionV1" ex_nem_good = true
  /\ (forall fuel t b,
        (forall v, value_admissible nc_schema v = true -> enc ops_now nc_schema fuel t v <> Crash "Unsupported")
        /\ (forall v, size ops_now nc_schema fuel t v <> Crash "Unsupported")
        /\ dec ops_now nc_schema fuel t b <> Crash "Unsupported" /\ decf ops_now nc_schema fuel t b <> Crash "Unsupported").
Proof.
  split; [exact (proj2 wf_full_shipped_both)|]. split; [vm_compute; reflexivity|]. split; [vm_compute; reflexivity|].
  split; [vm_compute; reflexivity|]. exact (codecs_no_unsupported_full ops_now nc_schema (proj2 wf_full_shipped_both)).
Qed.

Lemma nonvacuous_on_symbol :
  wf_schema_full sc_schema = true /\ value_admissible sc_schema ex_sym_tx = true
  /\ is_ok (enc ops_now sc_schema type_fuel "EmbeddedTransferTransactionV1" ex_sym_tx) = true
  /\ redecodes sc_schema "EmbeddedTransferTransactionV1" ex_sym_tx = true
  /\ (forall fuel t b,
        (forall v, value_admissible sc_schema v = true -> enc ops_now sc_schema fuel t v <> Crash "Unsupported")
        /\ (forall v, size ops_now sc_schema fuel t v <> Crash "Unsupported")
        /\ dec ops_now sc_schema fuel t b <> Crash "Unsupported" /\ decf ops_now sc_schema fuel t b <> Crash "Unsupported").
Proof.
  split; [exact (proj1 wf_full_shipped_both)|]. split; [vm_compute; reflexivity|]. split; [vm_compute; reflexivity|].
  split; [vm_compute; reflexivity|]. exact (codecs_no_unsupported_full ops_now sc_schema (proj1 wf_full_shipped_both)).
Qed.

(* the premise on the value cannot be dropped: in the model, serialize of an object that carries a byte string in place of an enum value under
   an untransformed comparer member answers Unsupported (size does not) *)
Lemma all_values_refuted_on_nem :
  wf_schema_full nc_schema = true /\ value_admissible nc_schema ex_nem_ill = false
  /\ enc ops_now nc_schema type_fuel "NonVerifiableMultisigAccountModificationTransactionV1" ex_nem_ill = Crash "Unsupported"
  /\ ~ (forall fuel t v, enc ops_now nc_schema fuel t v <> Crash "Unsupported").
Proof.
  split; [exact (proj2 wf_full_shipped_both)|]. split; [vm_compute; reflexivity|]. split; [vm_compute; reflexivity|].
  intros H. apply (H type_fuel "NonVerifiableMultisigAccountModificationTransactionV1" ex_nem_ill). vm_compute. reflexivity.
Qed.

Lemma key_nonvacuous_on_nem :
  let v := VStruct "MultisigAccountModification" [("modification_type", VInt 1); ("cosignatory_public_key", VBytes [1])] in
  wf_schema_full nc_schema = true /\ value_admissible nc_schema v = true /\ named_shape nc_schema "MultisigAccountModification" v = true
  /\ abs_name nc_schema "MultisigAccountModification" = false
  /\ is_ok (key ops_now nc_schema 1 "MultisigAccountModification" v) = true.
Proof. cbv zeta. split; [exact (proj2 wf_full_shipped_both)|]. repeat split; vm_compute; reflexivity. Qed.
