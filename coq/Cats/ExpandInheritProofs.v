(* The unnamed pass, inherited attributes and factory type, for ANY declaration order and any nesting depth
   (Cats/ExpandProofs.v part 5 proves the closed form only for schemas that declare every struct after its targets).

   Specification (fixed text):
   - Inh s fs o / inherited: o lists the attributes of every struct inlined below the member list fs, with multiplicity
     (one occurrence per occurrence of the struct in the inline tree), in depth-first order;
   - Cand s fs f: f is the name of an abstract struct inlined below fs, or the factory type declared by a struct inlined below fs.
   Result: after expand_unnamed the attributes of a struct are a permutation of its own followed by `inherited`; its factory type is
   its own or a candidate, and is set whenever there is a candidate. *)
From Symv Require Import Cats.Expand Cats.ExpandProofs.
From Coq Require Import Lia Permutation.
Open Scope string_scope.
Open Scope list_scope.

(* ------------------------------------------------------------------------------------------------------------------ *)
(* specification *)

Inductive Inh (s : list decl) : list field -> list attribute -> Prop :=
| Inh_nil : Inh s [] []
| Inh_field n t v d a c fs o : Inh s fs o -> Inh s (Field n t v d a c :: fs) o
| Inh_inline t c T fs o1 o2 :
    lookup s t = Some (DStruct T) -> Inh s (s_fields T) o1 -> Inh s fs o2 ->
    Inh s (InlinePlaceholder t c :: fs) (attrs_list (s_attrs T) ++ o1 ++ o2).

Fixpoint inherited (f : nat) (s : list decl) (fs : list field) {struct f} : list attribute :=
  match f with
  | O => []
  | S f' =>
    flat_map (fun m => match m with
                       | InlinePlaceholder t _ =>
                         match lookup s t with Some (DStruct T) => attrs_list (s_attrs T) ++ inherited f' s (s_fields T) | _ => [] end
                       | _ => []
                       end) fs
  end.

Inductive Cand (s : list decl) : list field -> string -> Prop :=
| Cand_abstract t c T fs :
    In (InlinePlaceholder t c) fs -> lookup s t = Some (DStruct T) -> s_disp T = SdAbstract -> Cand s fs (s_name T)
| Cand_declared t c T fs f :
    In (InlinePlaceholder t c) fs -> lookup s t = Some (DStruct T) -> s_factory_type T = Some f -> Cand s fs f
| Cand_deep t c T fs f :
    In (InlinePlaceholder t c) fs -> lookup s t = Some (DStruct T) -> Cand s (s_fields T) f -> Cand s fs f.

(* a candidate among the direct targets *)
Definition cand_here (s : list decl) (fs : list field) (f : string) : Prop :=
  exists t c T, In (InlinePlaceholder t c) fs /\ lookup s t = Some (DStruct T)
                /\ ((s_disp T = SdAbstract /\ f = s_name T) \/ s_factory_type T = Some f).

(* ------------------------------------------------------------------------------------------------------------------ *)
(* Inh: function and relation *)

Lemma inherited_nil f s : inherited f s [] = [].
Proof. destruct f; reflexivity. Qed.

Lemma inherited_field f s n t v d a c fs : inherited f s (Field n t v d a c :: fs) = inherited f s fs.
Proof. destruct f; reflexivity. Qed.

Lemma Inh_inherited s fs o : Inh s fs o -> forall f, term f s fs = true -> inherited f s fs = o.
Proof.
  induction 1 as [|n t v d a c fs o H IH|t c T fs o1 o2 Hl H1 IH1 H2 IH2]; intros f Ht.
  - apply inherited_nil.
  - rewrite inherited_field. apply IH. change (Field n t v d a c :: fs) with ([Field n t v d a c] ++ fs) in Ht.
    rewrite term_app in Ht. apply andb_true_iff in Ht. tauto.
  - destruct f as [|f]; [cbn in Ht; discriminate|].
    change (InlinePlaceholder t c :: fs) with ([InlinePlaceholder t c] ++ fs) in Ht.
    rewrite term_app in Ht. apply andb_true_iff in Ht. destruct Ht as [Ht1 Ht2].
    destruct (term_resolvable _ _ _ Ht1 t c (or_introl eq_refl)) as (T' & Hl' & HT). rewrite Hl in Hl'. injection Hl' as <-.
    change (inherited (S f) s (InlinePlaceholder t c :: fs))
      with ((match lookup s t with Some (DStruct T) => attrs_list (s_attrs T) ++ inherited f s (s_fields T) | _ => [] end)
            ++ inherited (S f) s fs).
    rewrite Hl, (IH1 f HT), (IH2 (S f) Ht2). rewrite <- app_assoc. reflexivity.
Qed.

Lemma Inh_members s fs : forallb is_field fs = true -> Inh s fs [].
Proof.
  induction fs as [|m r IH]; cbn; [constructor|]. intros H. apply andb_true_iff in H. destruct H as [H1 H2].
  destruct m; [|discriminate]. constructor. auto.
Qed.

Lemma Inh_app_inv s f1 : forall f2 o, Inh s (f1 ++ f2) o -> exists o1 o2, o = o1 ++ o2 /\ Inh s f1 o1 /\ Inh s f2 o2.
Proof.
  induction f1 as [|m r IH]; intros f2 o H; cbn [app] in H.
  - exists [], o. repeat split; [constructor|assumption].
  - inversion H as [|n t v d a c fs out Hf|t c T fs o1 o2 Hl Hf1 Hf2]; subst.
    + destruct (IH _ _ Hf) as (p1 & p2 & -> & Ha & Hb). exists p1, p2. repeat split; [constructor|]; assumption.
    + destruct (IH _ _ Hf2) as (p1 & p2 & -> & Ha & Hb). exists (attrs_list (s_attrs T) ++ o1 ++ p1), p2.
      split; [rewrite <- !app_assoc; reflexivity|]. split; [econstructor; eauto|assumption].
Qed.

(* the attributes taken over from the direct targets by one pass *)
Definition direct_attrs (s : list decl) (fs : list field) : list attribute :=
  flat_map (fun m => match m with
                     | InlinePlaceholder t _ => match lookup s t with Some (DStruct T) => attrs_list (s_attrs T) | _ => [] end
                     | _ => []
                     end) fs.

Lemma inherit_spec_cons env m r acc : inherit_spec env (m :: r) acc = inherit_spec env r (inherit_step env acc m).
Proof. reflexivity. Qed.

Lemma inherit_spec_attrs env fs : forall acc,
  attrs_list (snd (inherit_spec env fs acc)) = attrs_list (snd acc) ++ direct_attrs env fs.
Proof.
  induction fs as [|m r IH]; intros acc; [cbn; rewrite app_nil_r; reflexivity|].
  rewrite inherit_spec_cons, IH. unfold direct_attrs. cbn [flat_map]. rewrite app_assoc. f_equal.
  destruct m as [n t v d a c|t c]; cbn [inherit_step]; [rewrite app_nil_r; reflexivity|].
  destruct (lookup env t) as [[| |T]|]; try (rewrite app_nil_r; reflexivity).
  cbn [snd]. destruct (s_attrs T) as [[|a l]|]; cbn [attrs_list]; try (rewrite app_nil_r; reflexivity). reflexivity.
Qed.

Lemma Inh_splice_back s fs : (forall t c, In (InlinePlaceholder t c) fs -> exists T, lookup s t = Some (DStruct T)) ->
  forall o', Inh s (splice1 s fs) o' -> exists o, Inh s fs o /\ Permutation (direct_attrs s fs ++ o') o.
Proof.
  induction fs as [|m r IH]; intros Hres o' H; cbn [splice1 flat_map] in H.
  - exists o'. split; [exact H|reflexivity].
  - fold (splice1 s r) in H.
    assert (Hres' : forall t c, In (InlinePlaceholder t c) r -> exists T, lookup s t = Some (DStruct T))
      by (intros; eapply Hres; right; eassumption).
    destruct m as [n t v d a c|t c].
    + cbn [splice_member app] in H. inversion H as [|? ? ? ? ? ? ? ? Hr|]; subst. destruct (IH Hres' _ Hr) as (o & Ho & Hp).
      exists o. split; [constructor; exact Ho|exact Hp].
    + destruct (Hres t c (or_introl eq_refl)) as (T & Hl). cbn [splice_member] in H. rewrite Hl in H.
      apply Inh_app_inv in H. destruct H as (o1 & o2 & -> & H1 & H2). destruct (IH Hres' _ H2) as (o & Ho & Hp).
      exists (attrs_list (s_attrs T) ++ o1 ++ o). split; [econstructor; eauto|].
      unfold direct_attrs in *. cbn [flat_map]. rewrite Hl. rewrite <- app_assoc. apply Permutation_app_head.
      rewrite app_assoc. rewrite (Permutation_app_comm _ o1). rewrite <- app_assoc. apply Permutation_app_head. exact Hp.
Qed.

(* ------------------------------------------------------------------------------------------------------------------ *)
(* Cand: what one pass does to the factory type *)

Lemma Cand_mono s fs1 fs2 f : (forall t c, In (InlinePlaceholder t c) fs1 -> In (InlinePlaceholder t c) fs2) -> Cand s fs1 f -> Cand s fs2 f.
Proof.
  intros Hsub H. inversion H as [t c T fs Hin Hl Hd|t c T fs f' Hin Hl Hf|t c T fs f' Hin Hl Hc]; subst.
  - eapply Cand_abstract; eauto.
  - eapply Cand_declared; eauto.
  - eapply Cand_deep; eauto.
Qed.

Lemma cand_here_Cand s fs f : cand_here s fs f -> Cand s fs f.
Proof.
  intros (t & c & T & Hin & Hl & [[Hd ->]|Hf]); [eapply Cand_abstract; eauto|eapply Cand_declared; eauto].
Qed.

Lemma in_splice1 s fs t c : In (InlinePlaceholder t c) (splice1 s fs) ->
  exists t0 c0 T0, In (InlinePlaceholder t0 c0) fs /\ lookup s t0 = Some (DStruct T0) /\ In (InlinePlaceholder t c) (s_fields T0).
Proof.
  unfold splice1. rewrite in_flat_map. intros (m & Hm & Hin). destruct m as [n ty v d a c0|t0 c0]; cbn [splice_member] in Hin.
  - destruct Hin as [E|[]]. discriminate E.
  - destruct (lookup s t0) as [[| |T0]|] eqn:El; try contradiction. exists t0, c0, T0. auto.
Qed.

Lemma splice1_in s fs t0 c0 T0 m : In (InlinePlaceholder t0 c0) fs -> lookup s t0 = Some (DStruct T0) -> In m (s_fields T0) -> In m (splice1 s fs).
Proof.
  intros Hin Hl Hm. unfold splice1. rewrite in_flat_map. exists (InlinePlaceholder t0 c0). split; [exact Hin|]. cbn [splice_member]. rewrite Hl. exact Hm.
Qed.

Lemma Cand_splice_back s fs f : Cand s (splice1 s fs) f -> Cand s fs f.
Proof.
  intros H. inversion H as [t c T fs' Hin Hl Hd|t c T fs' f' Hin Hl Hf|t c T fs' f' Hin Hl Hc]; subst;
    destruct (in_splice1 _ _ _ _ Hin) as (t0 & c0 & T0 & Hin0 & Hl0 & HinT); apply (Cand_deep s t0 c0 T0 fs _ Hin0 Hl0).
  - eapply Cand_abstract; eauto.
  - eapply Cand_declared; eauto.
  - eapply Cand_deep; eauto.
Qed.

Lemma Cand_splice_fwd s fs f : Cand s fs f -> cand_here s fs f \/ Cand s (splice1 s fs) f.
Proof.
  intros H. inversion H as [t c T fs' Hin Hl Hd|t c T fs' f' Hin Hl Hf|t c T fs' f' Hin Hl Hc]; subst.
  - left. exists t, c, T. auto.
  - left. exists t, c, T. auto.
  - right. eapply Cand_mono; [|exact Hc]. intros t1 c1 H1. eapply splice1_in; eauto.
Qed.

Lemma inherit_step_some env acc m : fst acc <> None -> fst (inherit_step env acc m) <> None.
Proof.
  intros H. destruct m as [n t v d a c|t c]; cbn [inherit_step]; [exact H|].
  destruct (lookup env t) as [[| |T]|]; try exact H. cbn [fst]. destruct (s_disp T); try discriminate;
    destruct (s_factory_type T); try discriminate; exact H.
Qed.

Lemma inherit_spec_some env fs : forall acc, fst acc <> None -> fst (inherit_spec env fs acc) <> None.
Proof.
  induction fs as [|m r IH]; intros acc H; [exact H|]. rewrite inherit_spec_cons. apply IH. apply inherit_step_some. exact H.
Qed.

Lemma inherit_spec_here env fs f : cand_here env fs f -> forall acc, fst (inherit_spec env fs acc) <> None.
Proof.
  intros (t & c & T & Hin & Hl & Hc). induction fs as [|m r IH]; intros acc; [contradiction|].
  rewrite inherit_spec_cons. destruct Hin as [->|Hin]; [|apply IH; exact Hin].
  apply inherit_spec_some. cbn [inherit_step]. rewrite Hl. cbn [fst].
  destruct Hc as [[Hd _]|Hf]; [rewrite Hd; discriminate|]. rewrite Hf. destruct (s_disp T); discriminate.
Qed.

Lemma inherit_spec_factory env fs f : forall acc,
  fst (inherit_spec env fs acc) = Some f -> fst acc = Some f \/ cand_here env fs f.
Proof.
  induction fs as [|m r IH]; intros acc H; [left; exact H|].
  rewrite inherit_spec_cons in H. destruct (IH _ H) as [H1|(t & c & T & Hin & Hl & Hc)].
  - destruct m as [n t v d a c|t c]; cbn [inherit_step] in H1; [left; exact H1|].
    destruct (lookup env t) as [[| |T]|] eqn:El; try (left; exact H1). cbn [fst] in H1.
    destruct (s_disp T) eqn:Ed.
    + destruct (s_factory_type T) as [g|] eqn:Ef; [|left; exact H1]. right. exists t, c, T. split; [now left|]. split; [exact El|]. right. congruence.
    + right. exists t, c, T. split; [now left|]. split; [exact El|]. left. split; [exact Ed|]. congruence.
    + destruct (s_factory_type T) as [g|] eqn:Ef; [|left; exact H1]. right. exists t, c, T. split; [now left|]. split; [exact El|]. right. congruence.
  - right. exists t, c, T. split; [now right|]. auto.
Qed.

(* ------------------------------------------------------------------------------------------------------------------ *)
(* one execution of the loop body: X becomes X' = pass_pure s (set_fields X []) (s_fields X) *)
Section Step.
Variables (s : list decl) (X : struct).
Hypothesis HX : lookup s (s_name X) = Some (DStruct X).
Hypothesis HresX : forall t c, In (InlinePlaceholder t c) (s_fields X) -> exists T, lookup s t = Some (DStruct T).
Let X' := pass_pure s (set_fields X []) (s_fields X).

Lemma X'_name : s_name X' = s_name X.
Proof. unfold X'. rewrite pass_pure_closed. reflexivity. Qed.
Lemma X'_disp : s_disp X' = s_disp X.
Proof. unfold X'. rewrite pass_pure_closed. reflexivity. Qed.
Lemma X'_fields : s_fields X' = splice1 s (s_fields X).
Proof. unfold X'. rewrite pass_pure_closed. reflexivity. Qed.
Lemma X'_attrs : attrs_list (s_attrs X') = attrs_list (s_attrs X) ++ direct_attrs s (s_fields X).
Proof. unfold X'. rewrite pass_pure_closed. cbn [s_attrs set_fields s_factory_type]. rewrite inherit_spec_attrs. reflexivity. Qed.
Lemma X'_factory : s_factory_type X' = fst (inherit_spec s (s_fields X) (s_factory_type X, s_attrs X)).
Proof. unfold X'. rewrite pass_pure_closed. reflexivity. Qed.

Lemma lookup_step t :
  lookup (update s X') t = if String.eqb t (s_name X) then match lookup s t with Some _ => Some (DStruct X') | None => None end else lookup s t.
Proof. rewrite lookup_update, X'_name. destruct (lookup s t), (String.eqb t (s_name X)); reflexivity. Qed.

(* attributes *)
Lemma step_Inh fs o : Inh (update s X') fs o -> exists o', Inh s fs o' /\ Permutation o o'.
Proof.
  induction 1 as [|n t v d a c fs o H IH|t c T fs o1 o2 Hl H1 IH1 H2 IH2].
  - exists []. split; [constructor|reflexivity].
  - destruct IH as (o' & Ho & Hp). exists o'. split; [constructor; exact Ho|exact Hp].
  - destruct IH1 as (o1' & Ho1 & Hp1). destruct IH2 as (o2' & Ho2 & Hp2). rewrite lookup_step in Hl.
    destruct (String.eqb t (s_name X)) eqn:E.
    + apply String.eqb_eq in E. subst t. rewrite HX in Hl. injection Hl as <-.
      rewrite X'_fields in Ho1. destruct (Inh_splice_back s (s_fields X) HresX _ Ho1) as (oX & HoX & HpX).
      exists (attrs_list (s_attrs X) ++ oX ++ o2'). split; [econstructor; eauto|].
      rewrite X'_attrs, <- app_assoc. apply Permutation_app_head. rewrite app_assoc. apply Permutation_app; [|exact Hp2].
      rewrite <- HpX. apply Permutation_app_head. exact Hp1.
    + exists (attrs_list (s_attrs T) ++ o1' ++ o2'). split; [econstructor; eauto|].
      apply Permutation_app_head. apply Permutation_app; assumption.
Qed.

(* factory type: what the new state offers was offered before *)
Lemma step_Cand_back fs f : Cand (update s X') fs f -> Cand s fs f.
Proof.
  induction 1 as [t c T fs Hin Hl Hd|t c T fs f Hin Hl Hf|t c T fs f Hin Hl Hc IH]; rewrite lookup_step in Hl;
    destruct (String.eqb t (s_name X)) eqn:E;
    try (apply String.eqb_eq in E; subst t; rewrite HX in Hl; injection Hl as <-).
  - rewrite X'_name. rewrite X'_disp in Hd. eapply Cand_abstract; eauto.
  - eapply Cand_abstract; eauto.
  - rewrite X'_factory in Hf. destruct (inherit_spec_factory _ _ _ _ Hf) as [H1|H1].
    + cbn [fst] in H1. eapply Cand_declared; eauto.
    + eapply Cand_deep; eauto using cand_here_Cand.
  - eapply Cand_declared; eauto.
  - rewrite X'_fields in IH. eapply Cand_deep; eauto using Cand_splice_back.
  - eapply Cand_deep; eauto.
Qed.

(* ... and a struct that was offered a candidate is still offered one *)
Lemma X'_factory_some : s_factory_type X <> None \/ (exists f, cand_here s (s_fields X) f) -> s_factory_type X' <> None.
Proof.
  rewrite X'_factory. intros [H|(f & H)]; [apply inherit_spec_some; exact H|eapply inherit_spec_here; exact H].
Qed.

Lemma step_Cand_fwd n : forall fs f, term n s fs = true -> Cand s fs f -> exists f', Cand (update s X') fs f'.
Proof.
  induction n as [|n IH]; intros fs f Ht Hc.
  - exfalso. cbn in Ht. rewrite forallb_forall in Ht.
    inversion Hc as [t c T fs' Hin Hl Hd|t c T fs' f' Hin Hl Hf|t c T fs' f' Hin Hl Hc']; subst; specialize (Ht _ Hin); discriminate.
  - assert (Hcase : forall t c T, In (InlinePlaceholder t c) fs -> lookup s t = Some (DStruct T) ->
              (s_disp T = SdAbstract \/ (exists g, s_factory_type T = Some g) \/ (exists g, Cand s (s_fields T) g)) ->
              exists f', Cand (update s X') fs f').
    { intros t c T Hin Hl Hk.
      destruct (term_resolvable _ _ _ Ht _ _ Hin) as (T' & Hl' & HT). rewrite Hl in Hl'. injection Hl' as <-.
      destruct (String.eqb t (s_name X)) eqn:E.
      - apply String.eqb_eq in E. subst t. rewrite HX in Hl. injection Hl as <-.
        assert (Hl2 : lookup (update s X') (s_name X) = Some (DStruct X')) by (rewrite lookup_step, String.eqb_refl, HX; reflexivity).
        destruct Hk as [Hd|[(g & Hg)|(g & Hg)]].
        + exists (s_name X'). eapply Cand_abstract; [exact Hin|exact Hl2|]. rewrite X'_disp. exact Hd.
        + destruct (s_factory_type X') as [g'|] eqn:Eg.
          * exists g'. eapply Cand_declared; eauto.
          * exfalso. apply X'_factory_some in Eg; [exact Eg|]. left. congruence.
        + destruct (Cand_splice_fwd _ _ _ Hg) as [Hh|Hs].
          * destruct (s_factory_type X') as [g'|] eqn:Eg.
            -- exists g'. eapply Cand_declared; eauto.
            -- exfalso. apply X'_factory_some in Eg; [exact Eg|]. right. eauto.
          * destruct (IH (splice1 s (s_fields X)) g (term_splice_le _ _ _ HT) Hs) as (g' & Hg').
            exists g'. eapply Cand_deep; [exact Hin|exact Hl2|]. rewrite X'_fields. exact Hg'.
      - assert (Hl2 : lookup (update s X') t = Some (DStruct T)) by (rewrite lookup_step, E; exact Hl).
        destruct Hk as [Hd|[(g & Hg)|(g & Hg)]].
        + exists (s_name T). eapply Cand_abstract; eauto.
        + exists g. eapply Cand_declared; eauto.
        + destruct (IH _ _ HT Hg) as (g' & Hg'). exists g'. eapply Cand_deep; eauto. }
    inversion Hc as [t c T fs' Hin Hl Hd|t c T fs' f' Hin Hl Hf|t c T fs' f' Hin Hl Hc']; subst; eapply Hcase; eauto.
Qed.
End Step.

(* ------------------------------------------------------------------------------------------------------------------ *)
(* the invariant of the two loops (next to ExpandProofs.Inv): what a struct has and is still offered is what it had and was offered *)
Definition Inv2 (s0 s : list decl) : Prop :=
  forall m X0 X, lookup s0 m = Some (DStruct X0) -> lookup s m = Some (DStruct X) ->
    (forall o, Inh s (s_fields X) o ->
       exists o0, Inh s0 (s_fields X0) o0 /\ Permutation (attrs_list (s_attrs X) ++ o) (attrs_list (s_attrs X0) ++ o0))
    /\ (forall f, s_factory_type X = Some f \/ Cand s (s_fields X) f -> s_factory_type X0 = Some f \/ Cand s0 (s_fields X0) f)
    /\ (forall f0, s_factory_type X0 = Some f0 \/ Cand s0 (s_fields X0) f0 -> exists f, s_factory_type X = Some f \/ Cand s (s_fields X) f).

Lemma Inv2_refl s0 : Inv2 s0 s0.
Proof.
  intros m X0 X H0 H1. rewrite H0 in H1. injection H1 as <-. split; [|split].
  - intros o Ho. exists o. split; [exact Ho|reflexivity].
  - auto.
  - intros f0 H. exists f0. exact H.
Qed.

Lemma Inv2_step s0 F s X f :
  (forall m X0, lookup s0 m = Some (DStruct X0) -> term F s0 (s_fields X0) = true) ->
  Inv s0 s -> Inv2 s0 s -> lookup s (s_name X) = Some (DStruct X) -> term (S f) s (s_fields X) = true ->
  Inv2 s0 (update s (pass_pure s (set_fields X []) (s_fields X))).
Proof.
  intros Hdepth HI H2 HX Ht m X0 Y' H0 H1.
  assert (Hres : forall t c, In (InlinePlaceholder t c) (s_fields X) -> exists T, lookup s t = Some (DStruct T)).
  { intros t c Hin. destruct (term_resolvable _ _ _ Ht _ _ Hin) as (T & Hl & _). eauto. }
  rewrite lookup_step in H1. destruct (String.eqb m (s_name X)) eqn:E.
  - apply String.eqb_eq in E. subst m. rewrite HX in H1. injection H1 as <-.
    destruct (H2 _ _ _ H0 HX) as (HA & HS & HC). split; [|split].
    + intros o Ho. rewrite X'_fields in Ho. destruct (step_Inh s X HX Hres _ _ Ho) as (o' & Ho' & Hp).
      destruct (Inh_splice_back s (s_fields X) Hres _ Ho') as (oX & HoX & HpX). destruct (HA _ HoX) as (o0 & Ho0 & Hp0).
      exists o0. split; [exact Ho0|]. rewrite X'_attrs, <- app_assoc, <- Hp0. apply Permutation_app_head.
      rewrite <- HpX. apply Permutation_app_head. exact Hp.
    + intros g [Hg|Hg]; apply HS.
      * rewrite X'_factory in Hg. destruct (inherit_spec_factory _ _ _ _ Hg) as [H|H]; [left; exact H|right; apply cand_here_Cand; exact H].
      * right. apply Cand_splice_back. rewrite <- (X'_fields s X). apply (step_Cand_back s X HX). exact Hg.
    + intros f0 Hf0. destruct (HC _ Hf0) as (g & Hg).
      assert (Hsome : s_factory_type X <> None \/ (exists f, cand_here s (s_fields X) f) ->
                      exists f1, s_factory_type (pass_pure s (set_fields X []) (s_fields X)) = Some f1
                                 \/ Cand (update s (pass_pure s (set_fields X []) (s_fields X))) (s_fields (pass_pure s (set_fields X []) (s_fields X))) f1).
      { intros H. apply (X'_factory_some s X) in H. destruct (s_factory_type (pass_pure s (set_fields X []) (s_fields X))) as [g'|]; [|congruence].
        exists g'. left. reflexivity. }
      destruct Hg as [Hg|Hg]; [apply Hsome; left; congruence|].
      destruct (Cand_splice_fwd _ _ _ Hg) as [Hh|Hs]; [apply Hsome; right; eauto|].
      destruct (step_Cand_fwd s X HX f _ _ (term_splice _ _ _ Ht) Hs) as (g' & Hg'). exists g'. right. rewrite X'_fields. exact Hg'.
  - destruct (H2 _ _ _ H0 H1) as (HA & HS & HC). split; [|split].
    + intros o Ho. destruct (step_Inh s X HX Hres _ _ Ho) as (o' & Ho' & Hp). destruct (HA _ Ho') as (o0 & Ho0 & Hp0).
      exists o0. split; [exact Ho0|]. rewrite <- Hp0. apply Permutation_app_head. exact Hp.
    + intros g [Hg|Hg]; apply HS; [left; exact Hg|right; apply (step_Cand_back s X HX); exact Hg].
    + intros f0 Hf0. destruct (HC _ Hf0) as (g & [Hg|Hg]); [exists g; left; exact Hg|].
      destruct HI as (_ & _ & Hcl). destruct (Hcl _ _ _ H0 H1) as [_ Hterm].
      destruct (step_Cand_fwd s X HX F _ _ (Hterm _ (Hdepth _ _ H0)) Hg) as (g' & Hg'). exists g'. right. exact Hg'.
Qed.

(* -- the loops, carrying both invariants *)
Section Loops.
Variables (s0 : list decl) (F : nat).
Hypothesis Hdepth : forall m X0, lookup s0 m = Some (DStruct X0) -> term F s0 (s_fields X0) = true.

Lemma unnamed_while_inherit n : forall f fuel s X,
  Inv s0 s -> Inv2 s0 s -> lookup s n = Some (DStruct X) -> term f s (s_fields X) = true -> (f < fuel)%nat ->
  exists s', unnamed_while fuel s n = Ok s' /\ Inv s0 s' /\ Inv2 s0 s'.
Proof.
  induction f as [|f IH]; intros fuel s X HI H2 HX Ht Hlt; (destruct fuel as [|fuel]; [lia|]); cbn [unnamed_while]; rewrite HX.
  - assert (Hp : has_placeholder X = false).
    { unfold has_placeholder. cbn in Ht. rewrite members_iff_no_placeholder in Ht. apply negb_true_iff in Ht. exact Ht. }
    rewrite Hp. exists s. auto.
  - destruct (has_placeholder X) eqn:Hp; [|exists s; auto].
    assert (Hn : s_name X = n) by (apply lookup_name in HX; tauto). subst n.
    destruct (unnamed_pass_spec s X f HX Ht) as (X' & Hpass & Hst & Hfields & HX'). rewrite Hpass. cbn [bind].
    assert (Hres : forall t c, In (InlinePlaceholder t c) (s_fields X) -> exists T, lookup s t = Some (DStruct T)).
    { intros t c Hin. destruct (term_resolvable _ _ _ Ht _ _ Hin) as (T & Hl & _). eauto. }
    assert (Hname : s_name X' = s_name X) by (destruct Hst as (H & _); exact H).
    destruct (IH fuel (update s X') X') as (s' & Hw & HI' & H2').
    + apply Inv_step with (X := X); assumption.
    + rewrite HX'. apply (Inv2_step s0 F s X f Hdepth HI H2 HX Ht).
    + rewrite <- Hname. apply lookup_update_same with (d := DStruct X). rewrite Hname. exact HX.
    + apply (step_term s X X' HX Hname Hfields). rewrite Hfields. apply term_splice. exact Ht.
    + lia.
    + exists s'. auto.
Qed.

Lemma unnamed_loop_inherit fuel : (F < fuel)%nat ->
  forall names s, Inv s0 s -> Inv2 s0 s -> (forall n, In n names -> exists X0, lookup s0 n = Some (DStruct X0)) ->
  exists s', unnamed_loop fuel names s = Ok s' /\ Inv s0 s' /\ Inv2 s0 s'.
Proof.
  intros Hlt. induction names as [|n r IH]; intros s HI H2 Hres; cbn [unnamed_loop].
  - exists s. auto.
  - destruct (Hres n (or_introl eq_refl)) as (X0 & H0).
    pose proof HI as (HF & Hnd & Hcl).
    destruct (same_static_lookup_fwd _ _ _ _ HF H0) as (X & HX & _).
    destruct (unnamed_while_inherit n F fuel s X HI H2 HX) as (s1 & Hw & HI1 & H21).
    { apply (Hcl _ _ _ H0 HX). apply (Hdepth _ _ H0). }
    { exact Hlt. }
    rewrite Hw. cbn [bind]. apply IH; [exact HI1|exact H21|]. intros n' Hin. apply Hres. right. exact Hin.
Qed.
End Loops.

(* ------------------------------------------------------------------------------------------------------------------ *)
(* the theorem *)
Theorem expand_unnamed_inherit s0 : NoDup (map decl_name s0) -> acyclic s0 = true ->
  exists s', expand_unnamed s0 = Ok s' /\
  forall i X0, nth_error s0 i = Some (DStruct X0) ->
    exists X, nth_error s' i = Some (DStruct X)
      /\ Inh s0 (s_fields X0) (inherited (length s0) s0 (s_fields X0))
      /\ Permutation (attrs_list (s_attrs X)) (attrs_list (s_attrs X0) ++ inherited (length s0) s0 (s_fields X0))
      /\ (forall f, s_factory_type X = Some f -> s_factory_type X0 = Some f \/ Cand s0 (s_fields X0) f)
      /\ (forall f0, s_factory_type X0 = Some f0 \/ Cand s0 (s_fields X0) f0 -> exists f, s_factory_type X = Some f).
Proof.
  intros Hnd Hac.
  destruct (expand_unnamed_full s0 Hnd Hac) as (s' & E & _ & Hfull). exists s'. split; [exact E|].
  unfold expand_unnamed, expand_unnamed_with in E.
  destruct (unnamed_loop_inherit s0 (length s0) (acyclic_depth s0 Hac) (S (length s0)) (Nat.lt_succ_diag_r _)
              (worklist has_placeholder s0) s0 (Inv_refl s0 Hnd) (Inv2_refl s0)) as (s'' & E' & HI & H2).
  { intros n Hin. apply worklist_in in Hin. destruct Hin as (st & Hin & _ & <-). exists st.
    apply (lookup_in_nodup s0 (DStruct st) Hnd Hin). }
  rewrite E in E'. injection E' as <-.
  intros i X0 Hn. specialize (Hfull i _ Hn). cbn beta iota in Hfull.
  destruct Hfull as (X & Hx & Hname & _ & _ & _ & _ & Hmem). exists X. split; [exact Hx|].
  destruct HI as (_ & Hnd' & _).
  assert (H0 : lookup s0 (s_name X0) = Some (DStruct X0)) by (apply (lookup_in_nodup s0 (DStruct X0) Hnd); eapply nth_error_In; eauto).
  assert (H1 : lookup s' (s_name X0) = Some (DStruct X)).
  { rewrite <- Hname. apply (lookup_in_nodup s' (DStruct X) Hnd'). eapply nth_error_In; eauto. }
  destruct (H2 _ _ _ H0 H1) as (HA & HS & HC).
  destruct (HA [] (Inh_members _ _ Hmem)) as (o0 & Ho0 & Hp0). rewrite app_nil_r in Hp0.
  assert (Hfn : inherited (length s0) s0 (s_fields X0) = o0).
  { apply (Inh_inherited _ _ _ Ho0). apply (acyclic_depth s0 Hac _ _ H0). }
  rewrite Hfn. split; [exact Ho0|]. split; [exact Hp0|]. split.
  - intros f Hf. apply HS. left. exact Hf.
  - intros f0 Hf0. destruct (HC _ Hf0) as (g & [Hg|Hg]); [exists g; exact Hg|].
    exfalso. rewrite forallb_forall in Hmem.
    inversion Hg as [t c T fs' Hin Hl Hd|t c T fs' f' Hin Hl Hf|t c T fs' f' Hin Hl Hc']; subst; specialize (Hmem _ Hin); discriminate.
Qed.

(* -- schemas as the parser produces them: no struct declares a factory type.  Then the candidates are the abstract structs inlined *)
Definition no_declared_factory (s : list decl) : Prop := forall st, In (DStruct st) s -> s_factory_type st = None.
Definition inlines_abstract (s : list decl) (fs : list field) (f : string) : Prop :=
  exists T, Reach s fs f /\ lookup s f = Some (DStruct T) /\ s_disp T = SdAbstract.

Lemma Cand_inlines_abstract s fs f : no_declared_factory s -> Cand s fs f -> inlines_abstract s fs f.
Proof.
  intros Hno. induction 1 as [t c T fs Hin Hl Hd|t c T fs f Hin Hl Hf|t c T fs f Hin Hl Hc IH].
  - destruct (lookup_name _ _ _ Hl) as [Hn _]. cbn in Hn. rewrite Hn. exists T. split; [eapply Reach_here; eauto|auto].
  - destruct (lookup_name _ _ _ Hl) as [_ HinT]. rewrite (Hno _ HinT) in Hf. discriminate.
  - destruct IH as (A & Hr & HlA & Hd). exists A. split; [eapply Reach_deep; eauto|auto].
Qed.

Lemma inlines_abstract_Cand s fs f : inlines_abstract s fs f -> Cand s fs f.
Proof.
  intros (A & Hr & HlA & Hd). induction Hr as [t c fs Hin|t c T fs u Hin Hl Hr IH].
  - destruct (lookup_name _ _ _ HlA) as [Hn _]. cbn in Hn. rewrite <- Hn. eapply Cand_abstract; eauto.
  - eapply Cand_deep; eauto.
Qed.

Theorem expand_unnamed_inherit_parsed s0 : NoDup (map decl_name s0) -> acyclic s0 = true -> no_declared_factory s0 ->
  exists s', expand_unnamed s0 = Ok s' /\
  forall i X0, nth_error s0 i = Some (DStruct X0) ->
    exists X, nth_error s' i = Some (DStruct X)
      /\ Permutation (attrs_list (s_attrs X)) (attrs_list (s_attrs X0) ++ inherited (length s0) s0 (s_fields X0))
      /\ ((forall f, ~ inlines_abstract s0 (s_fields X0) f) -> s_factory_type X = None)
      /\ ((exists f, inlines_abstract s0 (s_fields X0) f) -> exists f, s_factory_type X = Some f /\ inlines_abstract s0 (s_fields X0) f).
Proof.
  intros Hnd Hac Hno. destruct (expand_unnamed_inherit s0 Hnd Hac) as (s' & E & H). exists s'. split; [exact E|].
  intros i X0 Hn. destruct (H i X0 Hn) as (X & Hx & _ & Hp & HS & HC). exists X. split; [exact Hx|]. split; [exact Hp|].
  assert (H0 : s_factory_type X0 = None) by (apply Hno; eapply nth_error_In; eauto).
  assert (HS' : forall f, s_factory_type X = Some f -> inlines_abstract s0 (s_fields X0) f).
  { intros f Hf. destruct (HS f Hf) as [H1|H1]; [congruence|]. apply Cand_inlines_abstract; assumption. }
  split.
  - intros Hnone. destruct (s_factory_type X) as [f|] eqn:Ef; [|reflexivity]. exfalso. apply (Hnone f). apply HS'. reflexivity.
  - intros (f0 & Hf0). destruct (HC f0 (or_intror (inlines_abstract_Cand _ _ _ Hf0))) as (f & Hf). exists f. split; [exact Hf|apply HS'; exact Hf].
Qed.
