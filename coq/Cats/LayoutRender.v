(* Canonical text of values and outcomes (mirrored by harness/codec.py: render) and the case runners the harness evaluates. *)
From Symv Require Export Cats.LayoutInst Cats.Sort Cats.LayoutText.
Open Scope string_scope.

Fixpoint r_value (v : value) : string :=
  match v with
  | VNull => "~"
  | VInt z => "(i " ++ Z_to_string z ++ ")"
  | VBytes b => "(b " ++ to_hex b ++ ")"
  | VArr l => "(a" ++ (fix go (l : list value) : string := match l with [] => "" | x :: r => " " ++ r_value x ++ go r end) l ++ ")"
  | VStruct cls fs =>
    "(s " ++ cls ++ (fix go (l : list (string * value)) : string :=
                     match l with [] => "" | (n, x) :: r => " (" ++ n ++ " " ++ r_value x ++ ")" ++ go r end) fs ++ ")"
  end.

Definition r_outcome {A} (f : A -> string) (r : result A) : string :=
  match r with Ok a => "ok:" ++ f a | Reject => "reject" | Crash k => "crash:" ++ k end.

Section Cases.
Variable tm : list decl.
Definition m_enc := enc ops_now tm type_fuel.
Definition m_size := size ops_now tm type_fuel.
Definition m_dec := dec ops_now tm type_fuel.
Definition m_decf := decf ops_now tm type_fuel.

(* serialize + size of a value *)
Definition case_ser (t : string) (v : value) : string :=
  r_outcome to_hex (m_enc t v) ++ "|" ++ r_outcome Z_to_string (m_size t v).
(* deserialize, then size and re-serialize of the decoded value *)
Definition case_des (t : string) (b : bytes) : string :=
  match m_dec t b with
  | Ok v => "ok:" ++ r_value v ++ "|" ++ r_outcome Z_to_string (m_size t v) ++ "|" ++ r_outcome to_hex (m_enc t v)
  | Reject => "reject"
  | Crash k => "crash:" ++ k
  end.
Definition case_fac (t : string) (b : bytes) : string :=
  match m_decf t b with
  | Ok v => "ok:" ++ r_value v
  | Reject => "reject"
  | Crash k => "crash:" ++ k
  end.
(* to_json() and __str__() *)
Definition case_text (t : string) (v : value) : string :=
  r_outcome r_json (json tm type_fuel t v) ++ "|" ++ r_outcome (fun x => x) (str tm type_fuel t v).

Definition m_R : rec_ops := {| enc_t := m_enc; size_t := m_size; dec_t := m_dec; decf_t := m_decf; key_t := key ops_now tm type_fuel |}.

(* sort() of one keyed array member: keys through the declared accessor, then the stable sort *)
Fixpoint keys_of_values (a : array) (l : list value) : result (list keyv) :=
  match l with
  | [] => Ok []
  | e :: r => bind (elem_key tm m_R a e) (fun k => match k with
                                                    | Some kv => bind (keys_of_values a r) (fun ks => Ok (kv :: ks))
                                                    | None => Crash "NoSortKey"
                                                    end)
  end.
Definition case_sort (host member : string) (l : list value) : string :=
  match lookup_struct tm host with
  | Some s =>
    match find_field (s_fields s) member with
    | Some f =>
      match f_array f with
      | Some a => r_outcome (fun ks => r_value (VArr (sort_values ks l))) (keys_of_values a l)
      | None => "crash:NotAnArray"
      end
    | None => "crash:NoMember"
    end
  | None => "crash:NoStruct"
  end.
End Cases.
