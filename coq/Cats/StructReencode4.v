(* Re-encoding of decoded values, part 4: structs (without parent, with a parent carrying the @size member, with a parent without
   @size member), factories, and the induction on the (odd) fuel.
   dec_reencodes / decf_reencodes: under the schema-only premises pres_schemab tm = true and reenc_schemab tm lim = true, whatever
   T.deserialize / TFactory.deserialize decode from a buffer of BYTES at an odd fuel k re-encodes at the same fuel, provided every
   sub-object of the decoded value has a size below lim (small tm lim v); lim = 2^32 for the shipped schemas. *)
From Symv Require Import Base.Bytes Base.PyOps Base.BytesLemmas Cats.Layout Cats.LayoutInst Cats.LayoutProofs Cats.ArrayProofs Cats.LayoutLaws
  Cats.LayoutInstProofs Cats.StructProofs Cats.StructRoundTrip Cats.StructDecide Cats.StructStable Cats.StructStable2
  Cats.StructReencode Cats.StructReencode2 Cats.StructReencode3.
From Coq Require Import Lia ZifyBool.
Open Scope string_scope.
Open Scope list_scope.
Open Scope Z_scope.

Section Reenc.
Variable tm : list decl.
Variable lim : Z.
Let OP := ops_now.
Notation nc := struct_fields_nc.

(* the schema-only premise: every member of every concrete struct passes reenc_memberb, and the @size member of a parent is wide
   enough for sizes below lim *)
Definition size_header_wideb (c : struct) : bool :=
  match base_struct tm c with
  | Some a =>
    match struct_size_attr a, nc c with
    | Some _, f0 :: _ => match f_type f0 with FInt i => lim <=? 2 ^ (8 * it_size i) | _ => false end
    | _, _ => true
    end
  | None => true
  end.
Definition reenc_structb (c : struct) : bool :=
  forallb (reenc_memberb tm lim (nc c) (settable_fields c) (typed_members tm c)) (typed_members tm c) && size_header_wideb c.
Definition reenc_schemab : bool :=
  (0 <? lim) && forallb (fun d => match d with DStruct c => match s_disp c with SdAbstract => true | _ => reenc_structb c end | _ => true end) tm.

Hypothesis Hschema : pres_schemab tm = true.
Hypothesis Hreenc : reenc_schemab = true.

Lemma lim_pos : 0 < lim.
Proof. unfold reenc_schemab in Hreenc. apply Bool.andb_true_iff in Hreenc as [H _]. lia. Qed.

Lemma reenc_struct c : In (DStruct c) tm -> s_disp c <> SdAbstract -> reenc_structb c = true.
Proof.
  intros H Hc. unfold reenc_schemab in Hreenc. apply Bool.andb_true_iff in Hreenc as [_ Hall]. rewrite forallb_forall in Hall. specialize (Hall _ H).
  cbv beta iota in Hall. destruct (s_disp c); try exact Hall. now contradiction Hc.
Qed.

Lemma wf_if (c : bool) w x buf : wf_bytes buf = true -> wf_bytes (if c then skipn w (zfirstn x buf) else skipn w buf) = true.
Proof. intros H. destruct c; [apply wf_skipn, wf_zfirstn, H | apply wf_skipn, H]. Qed.

Section Level.
Variable k' : nat.
Hypothesis Hodd : (2 * Nat.div2 k' + 1 <= k')%nat.
Notation n := (Nat.div2 k').
Notation R := (Rk tm k').
Hypothesis IHenc : forall t buf v, wf_bytes buf = true -> dec_any tm R t buf = Ok v -> small tm lim v -> exists b, enc OP tm k' t v = Ok b.

Lemma IHadm t buf v : dec_any tm R t buf = Ok v -> admf tm n t v.
Proof. exact (decoded_adm_any tm k' (proj1 (decoded_adm_all tm Hschema k')) t buf v). Qed.

Lemma Hsub t v b rest : admf tm n t v -> enc_t R t v = Ok b ->
  dec_any tm R t (b ++ rest) = Ok v /\ size_t R t v = Ok (Z.of_nat (length b)) /\ (0 < length b)%nat.
Proof. intros Ha He. exact (proj1 (RT_all tm n k' Hodd t v Ha) b rest He). Qed.
Lemma Hpos t v sz : admf tm n t v -> size_t R t v = Ok sz -> 0 < sz.
Proof. intros Ha Hs. exact (proj2 (RT_all tm n k' Hodd t v Ha) sz Hs). Qed.

Notation G := (G_t tm n k' lim).
Lemma dec_G t buf v : wf_bytes buf = true -> dec_any tm R t buf = Ok v -> G t v.
Proof. intros Hwf H. split; [exact (IHadm t buf v H) | intros Hs; exact (IHenc t buf v Hwf H Hs)]. Qed.
Lemma G_alias t nm i cm v : lookup tm t = Some (DAlias nm (LInt i) cm) -> G t v -> exists x, v = VInt x.
Proof. intros Hl [Ha _]. exact (admf_alias tm n t nm i cm v Hl Ha). Qed.

Notation fg := (fun sx allfs => fields_good tm R sx allfs G dec_G G_alias).
Notation sm := (fun sx allfs settable typed cls e Hs He Ht => ser_members tm n k' lim lim_pos Hsub Hpos sx allfs settable typed cls e Hs He Ht).
Notation size_ok' := (fun sx allfs => size_fields_ok OP tm R sx allfs align_now (admf tm n) Hsub Hpos).
Notation size_nonneg' := (fun allfs => size_fields_nonneg OP tm R allfs align_now (admf tm n) Hpos).

Lemma env_good_nil allfs e : env_good tm R allfs G [] e.
Proof. intros f []. Qed.

Lemma dec_struct_reenc c buf v : struct_presb tm c = true -> reenc_structb c = true -> s_disp c <> SdAbstract -> wf_bytes buf = true ->
  dec_struct OP tm (S k') c buf = Ok v -> small tm lim v -> exists b, enc_struct OP tm (S k') c v = Ok b.
Proof.
  intros Hp Hre Hconc Hwf H Hsmall. unfold OP in *.
  destruct (dec_struct_pres tm n k' IHadm c buf v Hp Hconc H) as (e0 & Hv0 & Hadm & _).
  unfold struct_presb in Hp. apply Bool.andb_true_iff in Hp as [Hp Hfac]. apply Bool.andb_true_iff in Hp as [Hp Hmem]. apply Bool.andb_true_iff in Hp as [Hself Hokb].
  assert (Hself' : lookup tm (s_name c) = Some (DStruct c)).
  { unfold self_lookupb in Hself. destruct (lookup tm (s_name c)) as [[| |c']|]; try discriminate. destruct (struct_eq_dec c' c) as [->|]; [reflexivity|discriminate]. }
  assert (Hls : lookup_struct tm (s_name c) = Some c) by (unfold lookup_struct; now rewrite Hself').
  pose proof (struct_okb_sound tm c Hself' Hokb) as Hok.
  unfold reenc_structb in Hre. apply Bool.andb_true_iff in Hre as [Hrm Hwide].
  set (allfs := nc c) in *.
  assert (Hcl : forall f, In f (typed_members tm c) -> classify tm allfs f <> None).
  { intros f Hf. rewrite forallb_forall in Hmem. exact (pres_memberb_classified tm _ _ _ f (Hmem f Hf)). }
  (* member typing of the decoded value *)
  assert (Hty : forall f, In f (typed_members tm c) -> member_typed tm allfs (admf tm n) v f).
  { rewrite Hv0 in Hadm |- *. cbn [admf] in Hadm. rewrite Hls in Hadm. tauto. }
  (* the size of the decoded value, whenever defined, is below lim *)
  assert (Hsz_small : forall total, size_struct_with ops_now tm R c v = Ok total -> total < lim).
  { intros total Ht. apply (Hsmall v (S (S k')) (s_name c) total (subvalues_self v)).
    rewrite Hv0. rewrite size_struct_value, Hls, size_struct_S. rewrite <- Hv0. exact Ht. }
  rewrite enc_struct_S.
  destruct Hok as [Hflat|[(a & f0 & i & hrest & Hb)|(a & hfs & Hb)]].
  - (* no parent *)
    destruct Hflat as [Hlk Hnb Hns _ Hnd Hnosz Hord _ _].
    rewrite (dec_struct_S_no_base tm k' c buf Hconc (base_none tm c Hnb)), (own_fields_no_base tm c Hnb) in H. fold allfs in H.
    inv_ok H. injection H as Hv.
    assert (Htm : typed_members tm c = allfs) by (unfold typed_members; now rewrite (base_none tm c Hnb)).
    destruct (fg c allfs allfs [] [] [] buf _ [] Hord ltac:(intros f Hf; apply Hcl; now rewrite Htm) ltac:(split; [exact Hnd | intros f _ []]) (env_good_nil allfs []) Hwf E) as [Henv _].
    cbn [app] in Henv. rewrite Htm in *. set (e := fst a) in *.
    assert (Hve : v = VStruct (s_name c) (collected (settable_fields c) e)) by (symmetry; exact Hv).
    rewrite Hve in Hsmall, Hty |- *.
    rewrite (base_none tm c Hnb), (own_fields_no_base tm c Hnb). fold allfs.
    assert (Hnsm : forall f, In f allfs -> not_size_member c f) by (intros f _; unfold not_size_member; now rewrite Hns).
    destruct (sm c allfs (settable_fields c) allfs (s_name c) e Hsmall Henv Hty 0 allfs (fun f Hf => Hf) Hrm) as [b0 Hb0].
    pose proof (size_ok' c allfs allfs _ 0 b0 Hty Hb0) as Hsz. unfold OP in Hsz.
    rewrite size_struct_with_eq, (base_none tm c Hnb), (own_fields_no_base tm c Hnb). fold allfs. rewrite Hsz. cbn [bind].
    rewrite (ser_fields_first ops_now tm R c allfs _ _ allfs Hnsm).
    exact (sm c allfs (settable_fields c) allfs (s_name c) e Hsmall Henv Hty _ allfs (fun f Hf => Hf) Hrm).
  - (* parent with the @size member first *)
    destruct Hb as [Hlk Hbase _ Hall Hpar Hnd Hattr_a Hattr_s Hf0n Hf0t Hf0w Hf0u Hf0c Hf0r Hf0s Hord_h Hord_o _].
    fold allfs in Hall, Hord_h, Hord_o. set (own := own_fields tm c) in *.
    rewrite (dec_struct_S_base tm k' c a buf Hconc Hbase) in H. fold allfs own in H.
    destruct (dec_header_with ops_now tm R a allfs buf) as [[[eh ws] we]| |] eqn:Hh; cbn [bind] in H; try discriminate.
    inv_ok H. injection H as Hv.
    unfold dec_header_with in Hh. rewrite Hpar in Hh. cbv zeta in Hh. inv_ok Hh. injection Hh as <- _ _.
    cbn [deserialize_loop] in E0. rewrite Hf0c in E0.
    unfold deserialize_field at 1 in E0. rewrite (cond_local_none tm allfs [] f0 Hf0c) in E0. cbn [bind] in E0.
    unfold load_field at 1 in E0. rewrite Hf0t, Hf0r in E0. cbv zeta in E0. cbn [bind fst snd find drain_queue] in E0. rewrite Hf0n in E0.
    cbn [map] in Hnd. rewrite Hf0n in Hnd. apply NoDup_cons_iff in Hnd as [Hsize_notin Hnd']. rewrite map_app in Hnd', Hsize_notin.
    assert (Htm : typed_members tm c = hrest ++ own) by (unfold typed_members; fold allfs; now rewrite Hbase, Hattr_a, Hall).
    match type of E0 with deserialize_loop _ _ _ _ _ _ _ _ _ ?e1 ?b1 = _ =>
      assert (Hwf1 : wf_bytes b1 = true) by (apply wf_if; exact Hwf);
      destruct (fg a allfs hrest [] ["size"] e1 b1 _ [] Hord_h ltac:(intros f Hf; apply Hcl; rewrite Htm; apply in_or_app; now left)
                  ltac:(split; [exact (nodup_app_l _ _ Hnd') | intros f Hf [Heq|[]]; cbn [fst] in Heq; apply Hsize_notin; rewrite Heq; apply in_or_app; left; now apply in_map])
                  (env_good_nil allfs e1) Hwf1 E0) as [Henv_h Hext_h]
    end.
    cbn [app] in Henv_h.
    assert (Hfr_o : fresh_names own (fst a1)).
    { split; [exact (nodup_app_r _ _ Hnd')|]. intros f Hf Hin. apply (proj1 Hext_h) in Hin as [Hin|Hin].
      - clear - Hnd' Hin Hf. induction (map f_name hrest) as [|x l IHl]; [contradiction|]. cbn [app] in Hnd'. inversion Hnd' as [|? ? Hn Hd]; subst.
        destruct Hin as [->|Hin]; [|now apply IHl]. apply Hn. apply in_or_app. right. now apply in_map.
      - cbn [map fst In] in Hin. destruct Hin as [Heq|[]]. apply Hsize_notin. rewrite Heq. apply in_or_app. right. now apply in_map. }
    destruct (fg c allfs own hrest [] (fst a1) _ _ hrest Hord_o ltac:(intros f Hf; apply Hcl; rewrite Htm; apply in_or_app; now right) Hfr_o Henv_h
                (wf_zskipn _ _ (wf_zfirstn _ _ Hwf)) E) as [Henv_o _].
    rewrite Htm in *. set (e := fst a0) in *.
    assert (Hve : v = VStruct (s_name c) (collected (settable_fields c) e)) by (symmetry; exact Hv).
    rewrite Hve in Hsmall, Hty, Hsz_small |- *. set (self := VStruct (s_name c) (collected (settable_fields c) e)) in *.
    rewrite forallb_app in Hrm. apply Bool.andb_true_iff in Hrm as [Hrm_h Hrm_o].
    assert (Hty_h : forall f, In f hrest -> member_typed tm allfs (admf tm n) self f) by (intros f Hf; apply Hty, in_or_app; now left).
    assert (Hty_o : forall f, In f own -> member_typed tm allfs (admf tm n) self f) by (intros f Hf; apply Hty, in_or_app; now right).
    destruct (sm a allfs (settable_fields c) (hrest ++ own) (s_name c) e Hsmall Henv_o Hty 0 hrest (fun f Hf => in_or_app _ _ _ (or_introl Hf)) Hrm_h) as [hr0 Hhr0].
    destruct (sm c allfs (settable_fields c) (hrest ++ own) (s_name c) e Hsmall Henv_o Hty 0 own (fun f Hf => in_or_app _ _ _ (or_intror Hf)) Hrm_o) as [ob0 Hob0].
    pose proof (size_ok' a allfs hrest self 0 hr0 Hty_h Hhr0) as Hsize_h.
    pose proof (size_ok' c allfs own self 0 ob0 Hty_o Hob0) as Hsize_o.
    assert (Hsz : size_struct_with ops_now tm R c self = Ok (it_size i + Z.of_nat (length hr0) + Z.of_nat (length ob0))).
    { rewrite size_struct_with_eq, Hbase. fold allfs own. rewrite Hpar. cbn [size_fields].
      rewrite (cond_self_none tm R allfs self f0 Hf0c). cbn [bind]. unfold member_size. rewrite Hf0t. cbn [bind].
      unfold OP in Hsize_h, Hsize_o. rewrite Hsize_h. cbn [bind]. rewrite Hsize_o. cbn [bind]. f_equal; lia. }
    rewrite Hsz. cbn [bind]. rewrite Hbase, Hpar. fold allfs own. set (total := it_size i + Z.of_nat (length hr0) + Z.of_nat (length ob0)) in *.
    pose proof (Hsz_small total Hsz) as Hlt.
    rewrite ser_fields_cons.
    assert (Hser0 : serialize_field ops_now tm R a allfs total self true f0 = py_to_bytes (Z.to_nat (it_size i)) false total).
    { unfold serialize_field, is_size_first. rewrite Hattr_a, Hf0n, !String.eqb_refl. cbn [andb]. now rewrite Hf0t. }
    rewrite Hser0.
    assert (Hr0 : int_in_range (Z.to_nat (it_size i)) false total = true).
    { assert (Hrange : 0 <= total < lim) by (clear - Hlt Hf0w; unfold total in *; lia).
      unfold size_header_wideb in Hwide. rewrite Hbase, Hattr_a in Hwide. fold allfs in Hwide. rewrite Hall, Hf0t in Hwide.
      assert (Hw8 : 8 * Z.of_nat (Z.to_nat (it_size i)) = 8 * it_size i) by (clear - Hf0w; lia).
      apply (in_range_small _ _ lim); [exact Hrange|]. rewrite Hw8. clear - Hwide. lia. }
    destruct (py_to_bytes_ok _ _ _ Hr0) as [szb Hszb]. rewrite Hszb. cbn [bind].
    destruct (sm a allfs (settable_fields c) (hrest ++ own) (s_name c) e Hsmall Henv_o Hty total hrest (fun f Hf => in_or_app _ _ _ (or_introl Hf)) Hrm_h) as [hr Hhr].
    unfold OP in Hhr. fold self in Hhr. rewrite Hhr. cbn [bind].
    assert (Hnsm_o : forall f, In f own -> not_size_member c f).
    { intros f Hf. unfold not_size_member. rewrite Hattr_s. apply String.eqb_neq. intros Heq. apply Hsize_notin. rewrite Heq.
      apply in_or_app. right. now apply in_map. }
    rewrite (ser_fields_first ops_now tm R c allfs total self own Hnsm_o).
    destruct (sm c allfs (settable_fields c) (hrest ++ own) (s_name c) e Hsmall Henv_o Hty total own (fun f Hf => in_or_app _ _ _ (or_intror Hf)) Hrm_o) as [ob Hob].
    unfold OP in Hob. fold self in Hob. rewrite Hob. cbn [bind]. eauto.
  - (* parent without @size member *)
    destruct Hb as [Hlk Hbase _ Hall Hpar Hnd Hattr_a Hattr_s Hnosz Hord_h Hord_o _ _].
    fold allfs in Hall, Hord_h, Hord_o. set (own := own_fields tm c) in *.
    rewrite (dec_struct_S_base tm k' c a buf Hconc Hbase) in H. fold allfs own in H.
    destruct (dec_header_with ops_now tm R a allfs buf) as [[[eh ws] we]| |] eqn:Hh; cbn [bind] in H; try discriminate.
    inv_ok H. injection H as Hv.
    unfold dec_header_with in Hh. rewrite Hpar in Hh. cbv zeta in Hh. inv_ok Hh. injection Hh as <- _ _.
    rewrite map_app in Hnd.
    assert (Htm : typed_members tm c = hfs ++ own) by (unfold typed_members; fold allfs; now rewrite Hbase, Hattr_a, Hall).
    destruct (fg a allfs hfs [] [] [] buf _ [] Hord_h ltac:(intros f Hf; apply Hcl; rewrite Htm; apply in_or_app; now left)
                ltac:(split; [exact (nodup_app_l _ _ Hnd) | intros f _ []]) (env_good_nil allfs []) Hwf E0) as [Henv_h Hext_h].
    cbn [app] in Henv_h.
    assert (Hfr_o : fresh_names own (fst a1)).
    { split; [exact (nodup_app_r _ _ Hnd)|]. intros f Hf Hin. apply (proj1 Hext_h) in Hin as [Hin|[]].
      clear - Hnd Hin Hf. induction (map f_name hfs) as [|x l IHl]; [contradiction|]. cbn [app] in Hnd. inversion Hnd as [|? ? Hn Hd]; subst.
      destruct Hin as [->|Hin]; [|now apply IHl]. apply Hn. apply in_or_app. right. now apply in_map. }
    destruct (fg c allfs own hfs [] (fst a1) _ _ hfs Hord_o ltac:(intros f Hf; apply Hcl; rewrite Htm; apply in_or_app; now right) Hfr_o Henv_h
                (wf_zskipn _ _ (wf_zfirstn _ _ Hwf)) E) as [Henv_o _].
    rewrite Htm in *. set (e := fst a0) in *.
    assert (Hve : v = VStruct (s_name c) (collected (settable_fields c) e)) by (symmetry; exact Hv).
    rewrite Hve in Hsmall, Hty |- *. set (self := VStruct (s_name c) (collected (settable_fields c) e)) in *.
    rewrite forallb_app in Hrm. apply Bool.andb_true_iff in Hrm as [Hrm_h Hrm_o].
    assert (Hty_h : forall f, In f hfs -> member_typed tm allfs (admf tm n) self f) by (intros f Hf; apply Hty, in_or_app; now left).
    assert (Hty_o : forall f, In f own -> member_typed tm allfs (admf tm n) self f) by (intros f Hf; apply Hty, in_or_app; now right).
    destruct (sm a allfs (settable_fields c) (hfs ++ own) (s_name c) e Hsmall Henv_o Hty 0 hfs (fun f Hf => in_or_app _ _ _ (or_introl Hf)) Hrm_h) as [hr0 Hhr0].
    destruct (sm c allfs (settable_fields c) (hfs ++ own) (s_name c) e Hsmall Henv_o Hty 0 own (fun f Hf => in_or_app _ _ _ (or_intror Hf)) Hrm_o) as [ob0 Hob0].
    pose proof (size_ok' a allfs hfs self 0 hr0 Hty_h Hhr0) as Hsize_h.
    pose proof (size_ok' c allfs own self 0 ob0 Hty_o Hob0) as Hsize_o.
    rewrite size_struct_with_eq, Hbase. fold allfs own. rewrite Hpar. unfold OP in Hsize_h, Hsize_o. rewrite Hsize_h. cbn [bind]. rewrite Hsize_o. cbn [bind].
    rewrite ?Hbase, ?Hpar. fold allfs own.
    assert (Hnsm_h : forall f, In f hfs -> not_size_member a f) by (intros f _; unfold not_size_member; now rewrite Hattr_a).
    assert (Hnsm_o : forall f, In f own -> not_size_member c f) by (intros f _; unfold not_size_member; now rewrite Hattr_s).
    rewrite (ser_fields_first ops_now tm R a allfs _ self hfs Hnsm_h).
    rewrite (ser_fields_first ops_now tm R c allfs _ self own Hnsm_o).
    match goal with |- context [serialize_fields_go ops_now tm R a allfs ?tot self false hfs] =>
      destruct (sm a allfs (settable_fields c) (hfs ++ own) (s_name c) e Hsmall Henv_o Hty tot hfs (fun f Hf => in_or_app _ _ _ (or_introl Hf)) Hrm_h) as [hr Hhr];
      destruct (sm c allfs (settable_fields c) (hfs ++ own) (s_name c) e Hsmall Henv_o Hty tot own (fun f Hf => in_or_app _ _ _ (or_intror Hf)) Hrm_o) as [ob Hob]
    end.
    unfold OP in Hhr, Hob. fold self in Hhr, Hob. rewrite Hhr. cbn [bind]. rewrite Hob. cbn [bind]. eauto.
Qed.

Lemma dec_struct_reenc_any c buf v t : In (DStruct c) tm -> s_disp c <> SdAbstract -> wf_bytes buf = true ->
  dec_struct OP tm (S k') c buf = Ok v -> small tm lim v -> exists b, enc OP tm (S (S k')) t v = Ok b.
Proof.
  intros Hin Hconc Hwf H Hsmall. pose proof (schema_struct tm Hschema c Hin Hconc) as Hp.
  destruct (dec_struct_reenc c buf v Hp (reenc_struct c Hin Hconc) Hconc Hwf H Hsmall) as [b Hb].
  destruct (dec_struct_pres tm n k' IHadm c buf v Hp Hconc H) as (e0 & Hv0 & _).
  unfold struct_presb in Hp. apply Bool.andb_true_iff in Hp as [Hp _]. apply Bool.andb_true_iff in Hp as [Hp _]. apply Bool.andb_true_iff in Hp as [Hself _].
  assert (Hls : lookup_struct tm (s_name c) = Some c).
  { unfold self_lookupb in Hself. unfold lookup_struct. destruct (lookup tm (s_name c)) as [[| |c']|]; try discriminate. destruct (struct_eq_dec c' c) as [->|]; [reflexivity|discriminate]. }
  exists b. rewrite Hv0 in Hb |- *. unfold OP. rewrite enc_struct_value, Hls. exact Hb.
Qed.

End Level.

(* leaves: integers read from bytes are in range, byte arrays are written as they are *)
Lemma leaf_reenc k t buf v : wf_bytes buf = true -> dec OP tm (S k) t buf = Ok v -> (forall s0, lookup tm t <> Some (DStruct s0)) ->
  exists b, enc OP tm (S k) t v = Ok b.
Proof.
  intros Hwf H Hns. cbn [dec] in H. cbn [enc]. destruct (lookup tm t) as [[nm [i|m] cm|nm b vs at_ cm|s0]|] eqn:Hl; try discriminate.
  - pose proof (schema_leaf tm Hschema t _ Hl) as Hleaf. cbn [leaf_okd] in Hleaf. apply Bool.andb_true_iff in Hleaf as [Hw Hu].
    inv_ok H. injection H as <-. apply py_to_bytes_ok, from_bytes_in_range; [exact Hwf | lia].
  - unfold get_bytes in H. inv_ok H. inv_ok E. injection E as <-. injection H as <-. eauto.
  - pose proof (schema_leaf tm Hschema t _ Hl) as Hleaf. cbn [leaf_okd] in Hleaf.
    inv_ok H. injection H as <-. apply py_to_bytes_ok, from_bytes_in_range; [exact Hwf | lia].
  - exfalso. now apply (Hns s0).
Qed.

Definition reenc_at (k : nat) : Prop :=
  forall t buf v, wf_bytes buf = true -> dec_any tm (Rk tm k) t buf = Ok v -> small tm lim v -> exists b, enc OP tm k t v = Ok b.

Lemma reenc_step k' : (2 * Nat.div2 k' + 1 <= k')%nat -> reenc_at k' -> reenc_at (S (S k')).
Proof.
  intros Hodd IH t buf v Hwf H Hsmall. unfold dec_any in H. cbn [Rk dec_t decf_t] in H.
  destruct (is_abs tm t) eqn:Habs.
  - fold OP in H. unfold OP in H. rewrite decf_S in H. destruct (lookup_struct tm t) as [a|] eqn:Hpar; [|discriminate].
    destruct (dec_header_with ops_now tm (Rk tm k') a (nc a) buf) as [[[e0 ws] we]| |] eqn:Hh; cbn [bind] in H; try discriminate.
    destruct (find_attr (s_attrs a) "discriminator") as [da|] eqn:Hda; [|discriminate].
    destruct (factory_pick tm t (names_of da) (map (fun n0 => eget e0 n0) (names_of da))) as [[| |c]|] eqn:Hpick; try discriminate.
    assert (Hc_in : In (DStruct c) tm).
    { unfold factory_pick in Hpick. apply find_some in Hpick as [Hin _]. apply in_rev in Hin. unfold fchildren in Hin. now apply filter_In in Hin as [Hin _]. }
    assert (Hconc : s_disp c <> SdAbstract) by (intros Ha; cbn [dec_struct] in H; rewrite Ha in H; discriminate).
    exact (dec_struct_reenc_any k' Hodd IH c buf v t Hc_in Hconc Hwf H Hsmall).
  - destruct (lookup tm t) as [[| |c]|] eqn:Hl.
    1,2,4: apply (leaf_reenc (S k') t buf v Hwf H); intros s0 Hs0; congruence.
    fold OP in H. unfold OP in H. rewrite (dec_struct_type tm (S k') t c buf Hl) in H.
    assert (Hconc : s_disp c <> SdAbstract) by (intros Ha; cbn [dec_struct] in H; rewrite Ha in H; discriminate).
    exact (dec_struct_reenc_any k' Hodd IH c buf v t (lookup_in tm t _ Hl) Hconc Hwf H Hsmall).
Qed.

Lemma reenc_odd : forall m, reenc_at (2 * m + 1).
Proof.
  induction m as [|m IH].
  - intros t buf v Hwf H Hsmall. unfold dec_any in H. cbn [Rk dec_t decf_t] in H. destruct (is_abs tm t); [discriminate|].
    destruct (lookup tm t) as [[| |c]|] eqn:Hl.
    1,2,4: apply (leaf_reenc 0 t buf v Hwf H); intros s0 Hs0; congruence.
    change (2 * 0 + 1)%nat with 1%nat in H. cbn [dec] in H. rewrite Hl in H. discriminate.
  - replace (2 * S m + 1)%nat with (S (S (2 * m + 1))) by lia. apply reenc_step; [|exact IH].
    pose proof (Nat.div2_odd (2 * m + 1)%nat) as Hd. destruct (Nat.odd (2 * m + 1)%nat) eqn:Ho; [cbn [Nat.b2n] in Hd; lia|].
    exfalso. rewrite Nat.add_comm, Nat.odd_add_mul_2 in Ho. discriminate.
Qed.

(* ---- the public shapes ---- *)
Theorem dec_reencodes m t buf v : is_abs tm t = false -> wf_bytes buf = true -> dec OP tm (2 * m + 1) t buf = Ok v -> small tm lim v ->
  exists b, enc OP tm (2 * m + 1) t v = Ok b.
Proof. intros Hna Hwf H Hs. apply (reenc_odd m t buf v Hwf); [|exact Hs]. unfold dec_any. rewrite Hna. exact H. Qed.

Theorem decf_reencodes m t buf v : is_abs tm t = true -> wf_bytes buf = true -> decf OP tm (2 * m + 1) t buf = Ok v -> small tm lim v ->
  exists b, enc OP tm (2 * m + 1) t v = Ok b.
Proof. intros Ha Hwf H Hs. apply (reenc_odd m t buf v Hwf); [|exact Hs]. unfold dec_any. rewrite Ha. exact H. Qed.

(* decode - encode - decode without the premise that the decoded value re-encodes *)
Theorem dec_stable_bytes m t buf v : is_abs tm t = false -> wf_bytes buf = true -> dec OP tm (2 * m + 1) t buf = Ok v -> small tm lim v ->
  exists b', enc OP tm (2 * m + 1) t v = Ok b' /\
    (forall rest, dec OP tm (2 * m + 1) t (b' ++ rest) = Ok v) /\
    (forall v2, dec OP tm (2 * m + 1) t b' = Ok v2 -> v2 = v /\ enc OP tm (2 * m + 1) t v2 = Ok b') /\
    size OP tm (2 * m + 1) t v = Ok (Z.of_nat (length b')).
Proof.
  intros Hna Hwf H Hs. destruct (dec_reencodes m t buf v Hna Hwf H Hs) as [b' Hb']. exists b'. split; [exact Hb'|].
  exact (stable_dec_odd tm Hschema m t buf v b' Hna H Hb').
Qed.

Theorem decf_stable_bytes m t buf v rest : is_abs tm t = true -> wf_bytes buf = true -> decf OP tm (2 * m + 1) t buf = Ok v -> small tm lim v ->
  exists b', enc OP tm (2 * m + 1) t v = Ok b' /\ decf OP tm (2 * m + 1) t (b' ++ rest) = Ok v /\
    size OP tm (2 * m + 1) t v = Ok (Z.of_nat (length b')) /\ (0 < length b')%nat.
Proof.
  intros Ha Hwf H Hs. destruct (decf_reencodes m t buf v Ha Hwf H Hs) as [b' Hb']. exists b'. split; [exact Hb'|].
  apply (stable_decf tm Hschema (2 * m + 1) (2 * m + 1) t buf v b' rest); try assumption.
  pose proof (Nat.div2_odd (2 * m + 1)%nat) as Hd. destruct (Nat.odd (2 * m + 1)%nat); cbn [Nat.b2n] in Hd; lia.
Qed.

End Reenc.

(* the size premise at the leaves: integers, enum values and byte arrays have the size of their declared type *)
Definition leaf_sizes_below (tm : list decl) (lim : Z) : bool :=
  forallb (fun d => match d with
                    | DAlias _ (LInt i) _ => it_size i <? lim
                    | DAlias _ (LBuffer n) _ => n <? lim
                    | DEnum _ b _ _ _ => it_size b <? lim
                    | DStruct _ => true
                    end) tm.

Lemma small_leaf tm lim x : leaf_sizes_below tm lim = true -> match x with VInt _ | VBytes _ => True | _ => False end ->
  forall K t sz, size ops_now tm K t x = Ok sz -> sz < lim.
Proof.
  intros Hl Hx K t sz H. destruct K as [|K]; [discriminate|].
  assert (Hd : forall d, lookup tm t = Some d ->
            match d with DAlias _ (LInt i) _ => it_size i <? lim | DAlias _ (LBuffer n) _ => n <? lim | DEnum _ b _ _ _ => it_size b <? lim | DStruct _ => true end = true).
  { intros d Hd. apply lookup_in in Hd. unfold leaf_sizes_below in Hl. rewrite forallb_forall in Hl. exact (Hl d Hd). }
  destruct x as [z|bs|l|cls fs|]; try contradiction; cbn [size] in H; destruct (lookup tm t) as [[nm [i|m] cm|nm eb vs at_ cm|s0]|] eqn:Hlk; try discriminate;
    specialize (Hd _ eq_refl); injection H as <-; lia.
Qed.
