(* Decode direction of C01: what the member loops of deserialize produce is typed the way the round-trip theorem of
   StructRoundTrip.v demands of values (member_typed), so that a decoded value is admissible (StructStable2.v).
   Per member: load_pres / field_pres (whatever deserialize_field reads has the shape of its member kind);
   per member list: loop_pres (ordinary lists), fields_pres (ordinary lists or one union block at the front);
   typed_from_env: the environment at the end of the loops, collected into a value, types every member. *)
From Symv Require Import Base.Bytes Base.PyOps Base.BytesLemmas Cats.Layout Cats.LayoutProofs Cats.ArrayProofs Cats.LayoutLaws Cats.StructProofs.
From Coq Require Import Lia ZifyBool Permutation.
Open Scope string_scope.
Open Scope list_scope.
Open Scope Z_scope.

Ltac inv_ok H :=
  repeat match type of H with
  | bind ?x _ = Ok _ => let E := fresh "E" in destruct x eqn:E; cbn [bind] in H; [|discriminate H|discriminate H]
  | (if ?b then _ else _) = Ok _ => let E := fresh "E" in destruct b eqn:E; try discriminate H
  end.

Lemma eget_in (e : list (string * value)) m v : eget e m = Some v -> In m (map fst e).
Proof.
  unfold eget. destruct (find (fun p => String.eqb (fst p) m) e) as [p|] eqn:Hf; [|discriminate]. intros _.
  apply find_some in Hf as [Hin Heq]. apply String.eqb_eq in Heq. subst m. now apply in_map.
Qed.

Lemma eget_notin (e : list (string * value)) m : ~ In m (map fst e) -> eget e m = None.
Proof. intros H. destruct (eget e m) eqn:He; [|reflexivity]. exfalso. apply H. eapply eget_in; eassumption. Qed.

Section Pres.
Variable OP : ops.
Variable tm : list decl.
Variable R : rec_ops.
Variable s : struct.
Variable allfs : list field.

Hypothesis get_bytes_bad_spec : forall n len, get_bytes_bad OP n len = (len <? n).

(* what the codecs one level down decode is admissible *)
Variable adm_t : string -> value -> Prop.
Hypothesis dec_sound : forall t buf v, dec_any tm R t buf = Ok v -> adm_t t v.
Hypothesis adm_alias : forall t nm i cm v, lookup tm t = Some (DAlias nm (LInt i) cm) -> adm_t t v -> exists x, v = VInt x.

Notation load := (load_field OP tm R s allfs).
Notation des_field := (deserialize_field OP tm R s allfs).
Notation des_loop := (deserialize_loop OP tm R s allfs).
Notation classify' := (classify tm allfs).

(* ---- arrays ---- *)
Lemma elem_dec_sound a et view e : elem_name a = Some et -> elem_dec tm R a view = Ok e -> adm_t et e.
Proof.
  intros Het H. unfold elem_dec in H. rewrite Het in H. apply (dec_sound et view). unfold dec_any, is_abs.
  unfold contents_abstract in H. rewrite Het in H. exact H.
Qed.

Lemma read_array_go_pres a : forall fuel ua rule i prev view l,
  read_array_go OP tm R a ua fuel rule i prev view = Ok l ->
  (length l <= fuel)%nat /\ forall et, elem_name a = Some et -> Forall (adm_t et) l.
Proof.
  induction fuel as [|fuel IH]; intros ua rule i prev view l H; cbn [read_array_go] in H; cbv zeta in H.
  - inv_ok H; injection H as <-. split; [cbn; lia | constructor].
  - destruct (negb _) eqn:Hc; [injection H as <-; split; [cbn; lia | constructor]|].
    inv_ok H. injection H as <-.
    match goal with Hr : read_array_go _ _ _ _ _ _ _ _ _ _ = Ok _ |- _ => destruct (IH _ _ _ _ _ _ Hr) as [Hlen Hall] end.
    split; [cbn [length]; lia|]. intros et Het. constructor; [eapply elem_dec_sound; eassumption | now apply Hall].
Qed.

Lemma read_variable_pres a : forall fuel view l,
  read_variable OP tm R a fuel view = Ok l ->
  (length l <= fuel)%nat /\ forall et, elem_name a = Some et -> Forall (adm_t et) l.
Proof.
  induction fuel as [|fuel IH]; intros view l H; cbn [read_variable] in H; cbv zeta in H.
  - destruct view; [injection H as <-; split; [cbn; lia | constructor] | discriminate].
  - destruct view as [|x view]; [injection H as <-; split; [cbn; lia | constructor]|].
    inv_ok H. injection H as <-.
    match goal with Hr : read_variable _ _ _ _ _ _ = Ok _ |- _ => destruct (IH _ _ Hr) as [Hlen Hall] end.
    split; [cbn [length]; lia|]. intros et Het. constructor; [eapply elem_dec_sound; eassumption | now apply Hall].
Qed.

(* ---- one member ---- *)
Lemma load_pres e f buf v buf1 : load e f buf = Ok (v, buf1) ->
  match f_type f with
  | FInt _ => exists z, v = VInt z
  | FName t => adm_t t v
  | FArray a =>
    if is_byte_array a then
      exists b, v = VBytes b /\
                forall n, a_size a = SzName n -> exists x, eget e n = Some (VInt x) /\ (Z.of_nat (length b) = x \/ b = [])
    else exists l, v = VArr l /\ (length l <= array_fuel)%nat /\ forall et, elem_name a = Some et -> Forall (adm_t et) l
  end.
Proof.
  intros H. unfold load_field in H. destruct (f_type f) as [i|t|a]; cbv zeta in H.
  - destruct (is_reserved f).
    + destruct (f_value f); try discriminate. inv_ok H. injection H as <- _. eauto.
    + injection H as <- _. eauto.
  - match type of H with match ?lbx with _ => _ end = _ => destruct lbx as [lb|] eqn:Hlb; [|discriminate] end.
    inv_ok H. injection H as <- _. apply (dec_sound t lb). unfold dec_any, is_abs. exact E.
  - destruct (is_byte_array a).
    + inv_ok H. injection H as <- _. unfold get_bytes in E0. rewrite get_bytes_bad_spec in E0. inv_ok E0. injection E0 as <-.
      eexists. split; [reflexivity|]. intros n Hn. rewrite Hn in E. unfold size_local in E.
      destruct (eget e n) as [[x| | | |]|]; try discriminate. injection E as ->. exists a0. split; [reflexivity|].
      unfold zfirstn. destruct (Z.of_nat (length buf) <=? a0) eqn:Hle; [left; lia|].
      destruct (Z.ltb_spec a0 0) as [Hneg|Hpos].
      * right. destruct a0; try lia. reflexivity.
      * left. rewrite firstn_length. lia.
    + inv_ok H; injection H as <- _; eexists; (split; [reflexivity|]).
      destruct (is_variable_size tm a).
      * eapply read_variable_pres; eassumption.
      * destruct a0; eapply read_array_go_pres; eassumption.
Qed.

Definition kind_ftype (f : field) (k : mkind) : Prop :=
  match k with
  | MkInt i | MkReserved i _ | MkCount i _ | MkCountCond i _ _ | MkSizeof i _ _ | MkComputed i _ _ _ | MkByteSize i _ => f_type f = FInt i
  | MkNamed t | MkNamedSized t _ | MkCondNamed t _ | MkArm t _ _ _ _ => f_type f = FName t
  | MkBytes n | MkCondBytes n _ => exists a, f_type f = FArray a /\ is_byte_array a = true /\ a_size a = SzName n
  | MkArray a _ | MkVarSized a _ | MkFillPlain a | MkFillVar a => f_type f = FArray a /\ is_byte_array a = false
  end.

Lemma kind_ftype_ok f k : classify' f = Some k -> kind_ftype f k.
Proof.
  intros H. apply classify_facts in H. destruct k; cbn [kind_facts kind_ftype] in *; try tauto.
  - destruct H as (_ & _ & a & ? & ? & ?). exists a. tauto.
  - destruct H as (_ & H). unfold computed_facts in H. tauto.
  - destruct H as (_ & c & cf & a & j & H). exists a. tauto.
  - destruct H as [H _]. apply arm_info_facts in H. unfold arm_facts in H. tauto.
Qed.

(* the shape of the environment entry of a member, by kind (for union arms: relative to the value of the link member) *)
Definition entry_typed (k : mkind) (e : env) (v : value) : Prop :=
  match k with
  | MkInt _ | MkReserved _ _ | MkCount _ _ | MkCountCond _ _ _ | MkSizeof _ _ _ | MkComputed _ _ _ _ | MkByteSize _ _ => exists z, v = VInt z
  | MkNamed t | MkNamedSized t _ => adm_t t v
  | MkBytes _ => exists b, v = VBytes b
  | MkArray a _ | MkVarSized a _ | MkFillPlain a | MkFillVar a =>
    exists l, v = VArr l /\ (length l <= array_fuel)%nat /\ forall et, elem_name a = Some et -> Forall (adm_t et) l
  | MkCondNamed t _ => v = VNull \/ adm_t t v
  | MkCondBytes _ y => v = VNull \/ exists b, v = VBytes b /\ (Z.of_nat (length b) <> y \/ b = [])
  | MkArm t ln y _ _ => exists z, eget e ln = Some (VInt z) /\ ((y = z /\ (exists x, v = VInt x) /\ adm_t t v) \/ (y <> z /\ v = VNull))
  end.

Definition is_armk (k : mkind) : bool := match k with MkArm _ _ _ _ _ => true | _ => false end.

Lemma field_pres e f buf x k : classify' f = Some k -> is_armk k = false -> des_field e f buf = Ok x ->
  exists v, fst x = (f_name f, v) :: e /\ entry_typed k e v.
Proof.
  intros Hk Hna H. pose proof (kind_ftype_ok f k Hk) as Hft. pose proof (classify_cond tm allfs f k Hk) as Hc.
  unfold deserialize_field in H.
  assert (Hplain : f_cond f = None -> exists v b1, load e f buf = Ok (v, b1) /\ fst x = (f_name f, v) :: e).
  { intros Hc'. rewrite (cond_local_none tm allfs e f Hc') in H. cbn [bind] in H. inv_ok H. destruct a as [v b1]. injection H as <-. now exists v, b1. }
  destruct k; cbn [is_armk] in Hna; try discriminate; cbn [kind_ftype entry_typed] in *;
    try (destruct (Hplain Hc) as (v & b1 & Hl & Hx); exists v; split; [exact Hx|]; apply load_pres in Hl).
  - rewrite Hft in Hl. exact Hl.
  - rewrite Hft in Hl. exact Hl.
  - rewrite Hft in Hl. exact Hl.
  - rewrite Hft in Hl. exact Hl.
  - rewrite Hft in Hl. exact Hl.
  - destruct Hft as (a & Hft & Hba & _). rewrite Hft, Hba in Hl. destruct Hl as (b & -> & _). eauto.
  - destruct Hft as [Hft Hba]. rewrite Hft, Hba in Hl. exact Hl.
  - rewrite Hft in Hl. exact Hl.
  - rewrite Hft in Hl. exact Hl.
  - rewrite Hft in Hl. exact Hl.
  - (* MkCondNamed *)
    inv_ok H.
    + match goal with Hl : load _ _ _ = Ok ?p |- _ => destruct p as [v b1]; apply load_pres in Hl; rewrite Hft in Hl end.
      injection H as <-. exists v. split; [reflexivity|]. now right.
    + injection H as <-. exists VNull. split; [reflexivity | now left].
  - (* MkCondBytes *)
    pose proof (classify_facts tm allfs f _ Hk) as F. cbn [kind_facts] in F.
    destruct F as (_ & c & cf & a & j & Hfc & Hl & Hcv & Hop & Hcf & Hcft & Hfta & Has & Hba).
    destruct (cond_local tm allfs e f) as [cb| |] eqn:Hcl; cbn [bind] in H; try discriminate.
    unfold cond_local in Hcl. rewrite Hfc, Hl, Hcf in Hcl. unfold cond_kind in Hcl. rewrite Hcft in Hcl. unfold cond_yoda in Hcl. rewrite Hcv in Hcl.
    destruct (eget e n) as [[o| | | |]|] eqn:Ho; try discriminate.
    unfold cond_eval in Hcl. rewrite Hop in Hcl. cbn [String.eqb Ascii.eqb Bool.eqb] in Hcl. injection Hcl as <-.
    destruct (negb (y =? o)) eqn:Hne.
    + inv_ok H. match goal with Hl : load _ _ _ = Ok ?p |- _ => destruct p as [v b1]; apply load_pres in Hl; rewrite Hfta, Hba in Hl; destruct Hl as (b & -> & Hlen) end.
      injection H as <-. eexists. split; [reflexivity|]. right. exists b. split; [reflexivity|].
      destruct (Hlen n Has) as (x' & Hx' & Hl'). rewrite Ho in Hx'. injection Hx' as <-. destruct Hl' as [Hl'|Hl']; [left; lia | now right].
    + injection H as <-. exists VNull. split; [reflexivity | now left].
  - rewrite Hft in Hl. exact Hl.
  - destruct Hft as [Hft Hba]. rewrite Hft, Hba in Hl. exact Hl.
  - destruct Hft as [Hft Hba]. rewrite Hft, Hba in Hl. exact Hl.
  - destruct Hft as [Hft Hba]. rewrite Hft, Hba in Hl. exact Hl.
Qed.

(* ---- the environment invariant ---- *)
Definition env_typed (cov : list field) (e : env) : Prop :=
  forall f, In f cov -> exists k v, classify' f = Some k /\ eget e (f_name f) = Some v /\ entry_typed k e v.

Lemma entry_typed_ext k e e' v : (forall n w, eget e n = Some w -> eget e' n = Some w) -> entry_typed k e v -> entry_typed k e' v.
Proof. intros Hext H. destruct k; cbn [entry_typed] in *; try exact H. destruct H as (z & Hz & H). exists z. split; [now apply Hext | exact H]. Qed.

Lemma env_typed_ext cov e e' : (forall n w, eget e n = Some w -> eget e' n = Some w) -> env_typed cov e -> env_typed cov e'.
Proof.
  intros Hext H f Hf. destruct (H f Hf) as (k & v & Hk & Hv & He). exists k, v. split; [exact Hk|]. split; [now apply Hext | now apply (entry_typed_ext k e e')].
Qed.

Lemma eget_cons_fresh e n v : ~ In n (map fst e) -> forall m w, eget e m = Some w -> eget ((n, v) :: e) m = Some w.
Proof. intros Hn m w Hm. rewrite eget_cons_neq; [exact Hm|]. intros ->. apply Hn. eapply eget_in; eassumption. Qed.

Lemma no_wait' seen proc f k : classify' f = Some k -> deps_ok tm allfs seen proc f ->
  match f_cond f with Some c => existsb (String.eqb (c_link c)) proc = true | None => True end.
Proof.
  intros Hk Hdeps. pose proof (classify_cond tm allfs f k Hk) as Hc. pose proof (classify_facts tm allfs f k Hk) as F. unfold deps_ok in Hdeps. rewrite Hk in Hdeps.
  destruct k; try (rewrite Hc; exact I); cbn [kind_facts] in F.
  - destruct F as (_ & _ & _ & _ & c & cf & i & d & Hfc & Hl & _). rewrite Hfc. destruct Hdeps as [_ Hin].
    apply existsb_exists. exists cfn. split; [exact Hin | rewrite Hl; apply String.eqb_refl].
  - destruct F as (_ & c & cf & a & j & Hfc & Hl & _). rewrite Hfc. destruct Hdeps as [_ Hin].
    apply existsb_exists. exists n. split; [exact Hin | rewrite Hl; apply String.eqb_refl].
  - contradiction.
Qed.

Lemma deps_not_arm seen proc f k : classify' f = Some k -> deps_ok tm allfs seen proc f -> is_armk k = false.
Proof. intros Hk Hd. unfold deps_ok in Hd. rewrite Hk in Hd. destruct k; try reflexivity. contradiction. Qed.

Definition names_ext (e1 e : env) (fs : list field) : Prop :=
  (forall n, In n (map fst e1) <-> In n (map f_name fs) \/ In n (map fst e)) /\ (forall n w, eget e n = Some w -> eget e1 n = Some w).

Definition fresh_names (fs : list field) (e : env) : Prop :=
  NoDup (map f_name fs) /\ forall f, In f fs -> ~ In (f_name f) (map fst e).

(* ---- ordinary member lists (continuation form, queue untouched) ---- *)
Lemma loop_pres : forall fs seen proc queued temps e buf post r cov,
  ordered tm allfs seen proc fs -> (forall f, In f fs -> classify' f <> None) -> queue_quiet queued fs ->
  fresh_names fs e -> env_typed cov e ->
  des_loop (fs ++ post) proc queued temps e buf = Ok r ->
  exists e1 buf1, des_loop post (rev (map f_name fs) ++ proc) queued temps e1 buf1 = Ok r /\ env_typed (cov ++ fs) e1 /\ names_ext e1 e fs.
Proof.
  induction fs as [|f fs IH]; intros seen proc queued temps e buf post r cov Hord Hcl Hq [Hnd Hfr] Henv H.
  - exists e, buf. cbn [app map rev] in *. rewrite app_nil_r. split; [exact H|]. split; [exact Henv|]. split; [intros n; split; [now right | intros [[]|Hn]; exact Hn] | auto].
  - inversion Hord as [|? ? ? ? Hdeps Hlast Hrest]; subst.
    destruct (classify' f) as [k|] eqn:Hk; [|exfalso; now apply (Hcl f (or_introl eq_refl))].
    cbn [app] in H. rewrite (des_loop_step OP tm R s allfs f (fs ++ post) proc queued temps e buf (no_wait' seen proc f k Hk Hdeps) (Hq f (or_introl eq_refl))) in H.
    destruct (des_field e f buf) as [x| |] eqn:Hx; cbn [bind] in H; try discriminate.
    destruct (field_pres e f buf x k Hk (deps_not_arm seen proc f k Hk Hdeps) Hx) as (v & Hxe & Hent).
    rewrite Hxe in H.
    cbn [map] in Hnd. inversion Hnd as [|? ? Hfresh Hnd']; subst.
    pose proof (Hfr f (or_introl eq_refl)) as Hfresh_e.
    assert (Hfr2 : fresh_names fs ((f_name f, v) :: e)).
    { split; [exact Hnd'|]. intros g Hg. cbn [map fst]. intros [Heq|Hin]; [apply Hfresh; rewrite Heq; now apply in_map | exact (Hfr g (or_intror Hg) Hin)]. }
    assert (Henv2 : env_typed (cov ++ [f]) ((f_name f, v) :: e)).
    { intros g Hg. apply in_app_or in Hg as [Hg|[<-|[]]].
      - exact (env_typed_ext cov e _ (eget_cons_fresh e (f_name f) v Hfresh_e) Henv g Hg).
      - exists k, v. split; [exact Hk|]. split; [apply eget_cons_eq|]. exact (entry_typed_ext k e _ v (eget_cons_fresh e (f_name f) v Hfresh_e) Hent). }
    destruct (IH (seen ++ [f]) (f_name f :: proc) queued temps ((f_name f, v) :: e) (snd x) post r (cov ++ [f]) Hrest
                (fun g Hg => Hcl g (or_intror Hg)) (fun g Hg => Hq g (or_intror Hg)) Hfr2 Henv2 H) as (e1 & buf1 & Hloop & Henv1 & [Hdom Hkeep]).
    exists e1, buf1. split; [cbn [map rev]; rewrite <- app_assoc; exact Hloop|]. split; [rewrite <- app_assoc in Henv1; exact Henv1|]. split.
    + intros n. rewrite Hdom. cbn [map fst]. cbn [In]. tauto.
    + intros n w Hn. apply Hkeep. now apply eget_cons_fresh.
Qed.

(* ---- union arms, read from the temporary buffer once the link member is known ---- *)
Lemma arm_field_pres e a tb x t ln y i ys : classify' a = Some (MkArm t ln y i ys) -> des_field e a tb = Ok x ->
  exists v, fst x = (f_name a, v) :: e /\ entry_typed (MkArm t ln y i ys) e v.
Proof.
  intros Hk H. pose proof (classify_facts tm allfs a _ Hk) as F. cbn [kind_facts] in F. destruct F as [F _]. apply arm_info_facts in F.
  destruct F as (Hft & _ & _ & Hsf & _ & _ & (nm0 & cm & Hlk) & c & cf & et & vs & bw & nm & Hc & Hl & Hop & Hcv & Hcf & Hcft & Hck & Hec).
  unfold deserialize_field in H.
  destruct (cond_local tm allfs e a) as [cb| |] eqn:Hcl; cbn [bind] in H; try discriminate.
  unfold cond_local in Hcl. rewrite Hc, Hl, Hcf, Hck in Hcl. unfold cond_yoda in Hcl. rewrite Hcv, Hec in Hcl.
  destruct (eget e ln) as [[o| | | |]|] eqn:Ho; try discriminate.
  unfold cond_eval in Hcl. rewrite Hop in Hcl. cbn [String.eqb Ascii.eqb Bool.eqb] in Hcl. injection Hcl as <-.
  cbn [entry_typed]. destruct (y =? o) eqn:Hyo.
  - inv_ok H. match goal with Hld : load _ _ _ = Ok ?p |- _ => destruct p as [v b1]; apply load_pres in Hld; rewrite Hft in Hld; rename Hld into Hadm end.
    injection H as <-. exists v. split; [reflexivity|]. exists o. split; [exact Ho|]. left. split; [lia|]. split; [|exact Hadm].
    exact (adm_alias t nm0 i cm v Hlk Hadm).
  - injection H as <-. exists VNull. split; [reflexivity|]. exists o. split; [exact Ho|]. right. split; [lia | reflexivity].
Qed.

Lemma drain_pres ln : forall arms e tb e2 cov,
  (forall a, In a arms -> exists w, is_arm tm allfs ln w a) -> fresh_names arms e -> env_typed cov e ->
  drain_queue OP tm R s allfs e arms tb = Ok e2 -> env_typed (cov ++ arms) e2 /\ names_ext e2 e arms.
Proof.
  induction arms as [|a arms IH]; intros e tb e2 cov Harms [Hnd Hfr] Henv H.
  - cbn in H. injection H as <-. rewrite app_nil_r. split; [exact Henv|]. split; [intros n; split; [now right | intros [[]|Hn]; exact Hn] | auto].
  - cbn [drain_queue] in H. destruct (des_field e a tb) as [x| |] eqn:Hx; cbn [bind] in H; try discriminate.
    destruct (Harms a (or_introl eq_refl)) as (w & t & y & i & ys & Hk & _).
    destruct (arm_field_pres e a tb x t ln y i ys Hk Hx) as (v & Hxe & Hent). rewrite Hxe in H.
    cbn [map] in Hnd. inversion Hnd as [|? ? Hfresh Hnd']; subst.
    pose proof (Hfr a (or_introl eq_refl)) as Hfresh_e.
    assert (Hfr2 : fresh_names arms ((f_name a, v) :: e)).
    { split; [exact Hnd'|]. intros g Hg. cbn [map fst]. intros [Heq|Hin]; [apply Hfresh; rewrite Heq; now apply in_map | exact (Hfr g (or_intror Hg) Hin)]. }
    assert (Henv2 : env_typed (cov ++ [a]) ((f_name a, v) :: e)).
    { intros g Hg. apply in_app_or in Hg as [Hg|[<-|[]]].
      - exact (env_typed_ext cov e _ (eget_cons_fresh e (f_name a) v Hfresh_e) Henv g Hg).
      - eexists _, v. split; [exact Hk|]. split; [apply eget_cons_eq|]. exact (entry_typed_ext _ e _ v (eget_cons_fresh e (f_name a) v Hfresh_e) Hent). }
    destruct (IH ((f_name a, v) :: e) (snd x) e2 (cov ++ [a]) (fun g Hg => Harms g (or_intror Hg)) Hfr2 Henv2 H) as (Henv1 & [Hdom Hkeep]).
    split; [rewrite <- app_assoc in Henv1; exact Henv1|]. split.
    + intros n. rewrite Hdom. cbn [map fst]. cbn [In]. tauto.
    + intros n w0 Hn. apply Hkeep. now apply eget_cons_fresh.
Qed.

Lemma names_ext_fresh e1 e fs gs : names_ext e1 e fs -> NoDup (map f_name (fs ++ gs)) -> fresh_names (fs ++ gs) e -> fresh_names gs e1.
Proof.
  intros [Hdom _] Hnd [_ Hfr]. split; [rewrite map_app in Hnd; now apply nodup_app_r in Hnd|].
  intros g Hg Hin. apply Hdom in Hin as [Hin|Hin].
  - rewrite map_app in Hnd. clear - Hnd Hin Hg. induction (map f_name fs) as [|x l IH]; [contradiction|].
    cbn [app] in Hnd. inversion Hnd as [|? ? Hn Hd]; subst. destruct Hin as [->|Hin]; [|now apply IH].
    apply Hn. apply in_or_app. right. now apply in_map.
  - apply (Hfr g); [apply in_or_app; now right | exact Hin].
Qed.

Lemma names_ext_trans e2 e1 e fs gs : names_ext e1 e fs -> names_ext e2 e1 gs -> names_ext e2 e (fs ++ gs).
Proof.
  intros [Hd1 Hk1] [Hd2 Hk2]. split.
  - intros n. rewrite Hd2, Hd1, map_app, in_app_iff. tauto.
  - intros n w Hn. apply Hk2, Hk1, Hn.
Qed.

Lemma names_ext_perm e1 e fs gs : (forall f, In f fs <-> In f gs) -> names_ext e1 e fs -> names_ext e1 e gs.
Proof.
  intros Hp [Hd Hk]. split; [|exact Hk]. intros n. rewrite Hd. split; (intros [Hn|Hn]; [left|now right]); apply in_map_iff in Hn as (g & <- & Hg); apply in_map; now apply Hp.
Qed.

Lemma env_typed_sub cov cov' e : (forall f, In f cov' -> In f cov) -> env_typed cov e -> env_typed cov' e.
Proof. intros Hs H f Hf. exact (H f (Hs f Hf)). Qed.

(* member lists: ordinary ones, or one union block at the front *)
Theorem fields_pres fs seen proc e buf r cov :
  lordered tm allfs seen proc fs -> (forall f, In f fs -> classify' f <> None) -> fresh_names fs e -> env_typed cov e ->
  des_loop fs proc [] [] e buf = Ok r -> env_typed (cov ++ fs) (fst r) /\ names_ext (fst r) e fs.
Proof.
  intros Hlo Hcl Hfr Henv H. destruct Hlo as [Hord|arms mid lk post -> U].
  - rewrite <- (app_nil_r fs) in H.
    destruct (loop_pres fs seen proc [] [] e buf [] r cov Hord Hcl (fun f _ => eq_refl) Hfr Henv H) as (e1 & buf1 & Hloop & Henv1 & Hext).
    cbn [deserialize_loop] in Hloop. injection Hloop as <-. now split.
  - destruct U as [Hne (w & Hw) _ _ Hfresh Hmid _ (et & Hlk) Hpost]. set (ln := f_name lk) in *.
    destruct arms as [|a1 arms']; [contradiction|].
    destruct (Hw a1 (or_introl eq_refl)) as (t1 & y1 & i1 & ys1 & Hk1 & _).
    pose proof (classify_facts tm allfs a1 _ Hk1) as F. cbn [kind_facts] in F. destruct F as [F _]. apply arm_info_facts in F.
    destruct F as (Hft1 & _ & _ & _ & _ & _ & _ & c & cf & et1 & vs & bw & nm & Hc1 & Hl1 & _).
    assert (Hnp : existsb (String.eqb ln) proc = false).
    { destruct (existsb (String.eqb ln) proc) eqn:Hex; [|reflexivity]. exfalso. apply Hfresh.
      apply existsb_exists in Hex as (x0 & Hx & He). apply String.eqb_eq in He. now subst. }
    (* 1. the first arm: dummy read; the other arms join the queue *)
    cbn [app deserialize_loop] in H. rewrite Hc1, Hl1, Hnp in H. cbn [find] in H. rewrite Hft1 in H. inv_ok H. cbn [app] in H.
    rewrite (arms_queue OP tm R s allfs ln w proc _ e _ Hfresh arms' [a1] _ (fun a Ha => Hw a (or_intror Ha))) in H.
    destruct Hfr as [Hnd Hfr].
    (* names *)
    assert (Hin_arms : forall a, In a (a1 :: arms') -> In a ((a1 :: arms') ++ mid ++ lk :: post)) by (intros; apply in_or_app; now left).
    assert (Hin_mid : forall a, In a mid -> In a ((a1 :: arms') ++ mid ++ lk :: post)) by (intros; apply in_or_app; right; apply in_or_app; now left).
    assert (Hin_lk : In lk ((a1 :: arms') ++ mid ++ lk :: post)) by (apply in_or_app; right; apply in_or_app; right; now left).
    assert (Hin_post : forall a, In a post -> In a ((a1 :: arms') ++ mid ++ lk :: post)) by (intros; apply in_or_app; right; apply in_or_app; right; now right).
    assert (Hnd_r : NoDup (map f_name (mid ++ lk :: post))) by (rewrite map_app in Hnd; now apply nodup_app_r in Hnd).
    assert (Hln_mid : forall f, In f mid -> f_name f <> ln).
    { intros f Hf. apply (nodup_names_neq mid post lk f Hnd_r). apply in_or_app. now left. }
    assert (Hln_post : forall f, In f post -> f_name f <> ln).
    { intros f Hf. apply (nodup_names_neq mid post lk f Hnd_r). apply in_or_app. now right. }
    assert (Hquiet : forall fs', (forall f, In f fs' -> f_name f <> ln) -> queue_quiet [(ln, [a1] ++ arms')] fs').
    { intros fs' Hn f Hf. cbn [find fst]. replace (String.eqb ln (f_name f)) with false; [reflexivity|]. symmetry. apply String.eqb_neq. intros Heq. now apply (Hn f Hf). }
    (* 2. the members before the link member *)
    assert (Hfr_mid : fresh_names mid e).
    { split; [rewrite map_app in Hnd_r; now apply nodup_app_l in Hnd_r | intros f Hf; apply Hfr, Hin_mid, Hf]. }
    destruct (loop_pres mid seen proc _ _ e _ (lk :: post) r cov Hmid (fun f Hf => Hcl f (Hin_mid f Hf)) (Hquiet mid Hln_mid) Hfr_mid Henv H)
      as (e1 & buf1 & H1 & Henv1 & Hext1).
    (* 3. the link member, then the queued arms *)
    pose proof (classify_facts tm allfs lk _ Hlk) as Flk. cbn [kind_facts] in Flk. destruct Flk as (Hc_lk & _).
    cbn [deserialize_loop] in H1. rewrite Hc_lk in H1.
    destruct (des_field e1 lk buf1) as [x| |] eqn:Hx; cbn [bind] in H1; try discriminate.
    destruct (field_pres e1 lk buf1 x _ Hlk eq_refl Hx) as (vl & Hxe & Hentl). rewrite Hxe in H1.
    cbn [find fst] in H1. fold ln in H1. rewrite String.eqb_refl in H1. cbn [snd] in H1.
    match type of H1 with bind ?d _ = _ => destruct d as [e2| |] eqn:Hdr; cbn [bind] in H1; try discriminate end.
    assert (Hfresh_lk : ~ In ln (map fst e1)).
    { intros Hin. apply (proj1 Hext1) in Hin as [Hin|Hin].
      - apply in_map_iff in Hin as (g & Hgn & Hg). exact (Hln_mid g Hg Hgn).
      - exact (Hfr lk Hin_lk Hin). }
    assert (Henv_l : env_typed ((cov ++ mid) ++ [lk]) ((ln, vl) :: e1)).
    { intros g Hg. apply in_app_or in Hg as [Hg|[<-|[]]].
      - exact (env_typed_ext _ e1 _ (eget_cons_fresh e1 ln vl Hfresh_lk) Henv1 g Hg).
      - eexists _, vl. split; [exact Hlk|]. split; [apply eget_cons_eq|]. exact (entry_typed_ext _ e1 _ vl (eget_cons_fresh e1 ln vl Hfresh_lk) Hentl). }
    assert (Hext_l : names_ext ((ln, vl) :: e1) e (mid ++ [lk])).
    { apply (names_ext_trans _ e1 e mid [lk] Hext1). split; [intros n; cbn [map fst In]; fold ln; tauto | intros n w' Hn; now apply eget_cons_fresh]. }
    assert (Hnd_a : NoDup (map f_name (a1 :: arms'))) by (rewrite map_app in Hnd; now apply nodup_app_l in Hnd).
    assert (Hfr_arms : fresh_names (a1 :: arms') ((ln, vl) :: e1)).
    { split; [exact Hnd_a|]. intros aa Ha Hin. apply (proj1 Hext_l) in Hin as [Hin|Hin]; [|exact (Hfr aa (Hin_arms aa Ha) Hin)].
      apply in_map_iff in Hin as (g & Hgn & Hg).
      assert (Hg' : In g (mid ++ lk :: post)) by (apply in_app_or in Hg as [Hg|[<-|[]]]; apply in_or_app; [now left | right; now left]).
      rewrite map_app in Hnd. clear - Hnd Hgn Hg' Ha. induction (a1 :: arms') as [|b l IH]; [contradiction|].
      cbn [map app] in Hnd. inversion Hnd as [|? ? Hn Hd]; subst. destruct Ha as [->|Ha]; [|now apply IH].
      apply Hn. apply in_or_app. right. rewrite <- Hgn. now apply in_map. }
    destruct (drain_pres ln (a1 :: arms') _ _ e2 _ (fun a Ha => ex_intro _ w (Hw a Ha)) Hfr_arms Henv_l Hdr) as (Henv2 & Hext2).
    (* 4. the members after the block *)
    assert (Hext_2 : names_ext e2 e ((mid ++ [lk]) ++ a1 :: arms')) by (exact (names_ext_trans _ _ e _ _ Hext_l Hext2)).
    assert (Hfr_post : fresh_names post e2).
    { split; [rewrite map_app in Hnd_r; apply nodup_app_r in Hnd_r; cbn [map] in Hnd_r; now inversion Hnd_r|].
      intros g Hg Hin. apply (proj1 Hext_2) in Hin as [Hin|Hin]; [|exact (Hfr g (Hin_post g Hg) Hin)].
      apply in_map_iff in Hin as (g' & Hgn & Hg'). apply in_app_or in Hg' as [Hg'|Hg'].
      - assert (Hne' : f_name g <> f_name g').
        { apply in_app_or in Hg' as [Hg'|[<-|[]]]; [|exact (Hln_post g Hg)].
          clear - Hnd_r Hg Hg'. rewrite map_app in Hnd_r. intros Heq. induction mid as [|b l IH]; [contradiction|].
          cbn [map app] in Hnd_r. inversion Hnd_r as [|? ? Hn Hd]; subst. destruct Hg' as [->|Hg']; [|now apply IH].
          apply Hn. apply in_or_app. right. rewrite <- Heq. cbn [map]. right. now apply in_map. }
        congruence.
      - rewrite map_app in Hnd. clear - Hnd Hgn Hg Hg'. induction (a1 :: arms') as [|b l IH]; [contradiction|].
        cbn [map app] in Hnd. inversion Hnd as [|? ? Hn Hd]; subst. destruct Hg' as [->|Hg']; [|now apply IH].
        apply Hn. apply in_or_app. right. rewrite Hgn, map_app. apply in_or_app. right. cbn [map]. right. now apply in_map. }
    rewrite <- (app_nil_r post) in H1.
    destruct (loop_pres post _ _ _ _ e2 _ [] r _ Hpost (fun f Hf => Hcl f (Hin_post f Hf)) (Hquiet post Hln_post) Hfr_post Henv2 H1)
      as (e3 & buf3 & H3 & Henv3 & Hext3).
    cbn [deserialize_loop] in H3. injection H3 as <-. cbn [fst]. split.
    + eapply env_typed_sub; [|exact Henv3]. intros f Hf. rewrite <- !app_assoc.
      apply in_app_or in Hf as [Hf|Hf]; [apply in_or_app; now left|]. apply in_or_app. right.
      apply in_app_or in Hf as [Hf|Hf]; [apply in_or_app; right; apply in_or_app; right; apply in_or_app; now left|].
      apply in_app_or in Hf as [Hf|[<-|Hf]]; [apply in_or_app; now left | apply in_or_app; right; apply in_or_app; left; now left|].
      apply in_or_app; right; apply in_or_app; right; apply in_or_app; now right.
    + apply (names_ext_perm e3 e (((mid ++ [lk]) ++ a1 :: arms') ++ post)); [|exact (names_ext_trans _ _ e _ _ Hext_2 Hext3)].
      intros f. rewrite !in_app_iff. cbn [In]. tauto.
Qed.

End Pres.

(* ---- from the final environment to the typing of the collected value ---- *)
Section Final.
Variable tm : list decl.
Variable allfs : list field.
Variable adm_t : string -> value -> Prop.
Hypothesis adm_nonnull : forall t, ~ adm_t t VNull.
Hypothesis adm_struct : forall t s0 v, lookup tm t = Some (DStruct s0) -> adm_t t v -> is_vstruct v = true.
Hypothesis adm_enum : forall t nm b vs at_ cm v, lookup tm t = Some (DEnum nm b vs at_ cm) -> adm_t t v ->
  exists z, v = VInt z /\ enum_valid vs (is_bitwise at_) z = true.

Notation classify' := (classify tm allfs).

Definition name_in (l : list field) (n : string) : bool := existsb (fun g => String.eqb (f_name g) n) l.
Definition kind_by_name (typed : list field) (n : string) : option mkind :=
  match find (fun g => String.eqb (f_name g) n) typed with Some g => classify' g | None => None end.
Definition is_struct_type (t : string) : bool := match lookup tm t with Some (DStruct _) => true | _ => false end.

(* schema-side conditions on a member (beyond its classification) under which whatever the decoder read for it types the value:
   the members a value carries are settable; cross references (count -> array, sizeof / sizeref -> named member, arm -> link) point to
   members of the expected kind; conditional struct members have a struct type; the "absent" constant of a conditional byte array is
   not 0; every member of the link enum of a union selects an arm *)
Definition pres_memberb (settable typed : list field) (f : field) : bool :=
  match classify' f with
  | Some (MkInt _) | Some (MkBytes _) | Some (MkNamed _) | Some (MkNamedSized _ _) => name_in settable (f_name f)
  | Some (MkReserved _ _) | Some (MkByteSize _ _) => true
  | Some (MkArray a _) | Some (MkVarSized a _) | Some (MkFillPlain a) | Some (MkFillVar a) =>
    name_in settable (f_name f) && match elem_name a with Some _ => true | None => false end
  | Some (MkCount _ g) =>
    name_in settable (f_name g) &&
    match kind_by_name typed (f_name g) with
    | Some (MkBytes _) | Some (MkArray _ _) | Some (MkVarSized _ _) | Some (MkFillPlain _) | Some (MkFillVar _) => true
    | _ => false
    end
  | Some (MkCountCond _ g _) =>
    name_in settable (f_name g) && match kind_by_name typed (f_name g) with Some (MkCondBytes _ _) => true | _ => false end
  | Some (MkSizeof _ gn t) =>
    name_in settable gn &&
    match kind_by_name typed gn with Some (MkNamed t') | Some (MkNamedSized t' _) => String.eqb t' t | _ => false end
  | Some (MkComputed _ gn t _) =>
    name_in settable gn && is_struct_type t &&
    match kind_by_name typed gn with Some (MkCondNamed t' _) => String.eqb t' t | _ => false end
  | Some (MkCondNamed t _) => name_in settable (f_name f) && is_struct_type t
  | Some (MkCondBytes _ y) => name_in settable (f_name f) && negb (y =? 0)
  | Some (MkArm t ln y _ ys) =>
    name_in settable (f_name f) && name_in settable ln &&
    match kind_by_name typed ln with
    | Some (MkNamed et) =>
      match lookup tm et with
      | Some (DEnum _ _ vs at_ _) => negb (is_bitwise at_) && forallb (fun ev => existsb (Z.eqb (ev_value ev)) ys) vs
      | _ => false
      end
    | _ => false
    end
  | None => false
  end.

Definition collected (settable : list field) (e : env) : list (string * value) :=
  map (fun f => (f_name f, match find (fun p => String.eqb (fst p) (f_name f)) e with Some p => snd p | None => VNull end)) settable.

Lemma vget_collected cls settable e n : name_in settable n = true ->
  vget (VStruct cls (collected settable e)) n = Some (match eget e n with Some v => v | None => VNull end).
Proof.
  intros H. unfold vget, collected, name_in in *. induction settable as [|g l IH]; [discriminate|].
  cbn [existsb] in H. cbn [map find fst]. destruct (String.eqb_spec (f_name g) n) as [Heq|Hne].
  - cbn [snd]. rewrite Heq. unfold eget. destruct (find _ e); reflexivity.
  - cbn [orb] in H. exact (IH H).
Qed.

Lemma by_name typed e n k : env_typed tm allfs adm_t typed e -> kind_by_name typed n = Some k ->
  exists v, eget e n = Some v /\ entry_typed adm_t k e v.
Proof.
  intros Henv H. unfold kind_by_name in H. destruct (find (fun g => String.eqb (f_name g) n) typed) as [g|] eqn:Hf; [|discriminate].
  apply find_some in Hf as [Hin Hn]. apply String.eqb_eq in Hn. destruct (Henv g Hin) as (k' & v & Hk' & Hv & Hent).
  rewrite H in Hk'. injection Hk' as <-. exists v. rewrite <- Hn. now split.
Qed.

Theorem typed_from_env cls settable typed e :
  env_typed tm allfs adm_t typed e -> forallb (pres_memberb settable typed) typed = true ->
  forall f, In f typed -> member_typed tm allfs adm_t (VStruct cls (collected settable e)) f.
Proof.
  intros Henv Hall f Hf. rewrite forallb_forall in Hall. pose proof (Hall f Hf) as Hb.
  destruct (Henv f Hf) as (k & v & Hk & Hv & Hent). unfold pres_memberb in Hb. unfold member_typed. rewrite Hk in *.
  set (self := VStruct cls (collected settable e)).
  assert (Hget : forall n w, name_in settable n = true -> eget e n = Some w -> vget self n = Some w).
  { intros n w Hn Hw. unfold self. rewrite (vget_collected cls settable e n Hn), Hw. reflexivity. }
  destruct k; cbn [entry_typed] in Hent.
  - destruct Hent as [z ->]. exists z. now apply Hget.
  - exact I.
  - apply Bool.andb_true_iff in Hb as [Hs Hkn]. destruct (kind_by_name typed (f_name g)) as [kg|] eqn:Hkg; [|discriminate].
    destruct (by_name typed e _ kg Henv Hkg) as (vg & Hvg & Heg).
    destruct kg; try discriminate; cbn [entry_typed] in Heg.
    + destruct Heg as [b ->]. left. exists b. now apply Hget.
    + destruct Heg as (l & -> & _). right. exists l. now apply Hget.
    + destruct Heg as (l & -> & _). right. exists l. now apply Hget.
    + destruct Heg as (l & -> & _). right. exists l. now apply Hget.
    + destruct Heg as (l & -> & _). right. exists l. now apply Hget.
  - apply Bool.andb_true_iff in Hb as [Hs Hkn]. destruct (kind_by_name typed (f_name g)) as [kg|] eqn:Hkg; [|discriminate].
    destruct (by_name typed e _ kg Henv Hkg) as (vg & Hvg & Heg).
    destruct kg; try discriminate; cbn [entry_typed] in Heg.
    destruct Heg as [->|(b & -> & _)]; [left | right; exists b]; now apply Hget.
  - exists v. split; [now apply Hget|]. split; [intros ->; exact (adm_nonnull t Hent) | exact Hent].
  - destruct Hent as [b ->]. exists b. now apply Hget.
  - apply Bool.andb_true_iff in Hb as [Hs Hel]. destruct Hent as (l & -> & Hlen & Hfa). exists l. split; [now apply Hget|]. split; [exact Hlen|].
    destruct (elem_name a) as [et|]; [now apply Hfa | discriminate].
  - apply Bool.andb_true_iff in Hb as [Hs Hkn]. destruct (kind_by_name typed gn) as [kg|] eqn:Hkg; [|discriminate].
    destruct (by_name typed e _ kg Henv Hkg) as (vg & Hvg & Heg).
    destruct kg; try discriminate; cbn [entry_typed] in Heg; apply String.eqb_eq in Hkn; subst t0;
      (exists vg; split; [now apply Hget|]; split; [intros ->; exact (adm_nonnull t Heg) | exact Heg]).
  - exists v. split; [now apply Hget|]. split; [intros ->; exact (adm_nonnull t Hent) | exact Hent].
  - apply Bool.andb_true_iff in Hb as [Hb Hkn]. apply Bool.andb_true_iff in Hb as [Hs Hst].
    destruct (kind_by_name typed gn) as [kg|] eqn:Hkg; [|discriminate].
    destruct (by_name typed e _ kg Henv Hkg) as (vg & Hvg & Heg).
    destruct kg; try discriminate; cbn [entry_typed] in Heg. apply String.eqb_eq in Hkn. subst t0.
    exists vg. split; [now apply Hget|]. unfold opt_struct_of. destruct Heg as [->|Hadm]; [now left|right].
    unfold is_struct_type in Hst. destruct (lookup tm t) as [[| |s0]|] eqn:Hl; try discriminate. split; [exact (adm_struct t s0 vg Hl Hadm) | exact Hadm].
  - apply Bool.andb_true_iff in Hb as [Hs Hst]. exists v. split; [now apply Hget|]. unfold opt_struct_of. destruct Hent as [->|Hadm]; [now left|right].
    unfold is_struct_type in Hst. destruct (lookup tm t) as [[| |s0]|] eqn:Hl; try discriminate. split; [exact (adm_struct t s0 v Hl Hadm) | exact Hadm].
  - apply Bool.andb_true_iff in Hb as [Hs Hy]. destruct Hent as [->|(b & -> & Hlen)]; [left; now apply Hget | right].
    exists b. split; [now apply Hget|]. destruct Hlen as [Hlen| ->]; [exact Hlen | cbn [length]; lia].
  - exact I.
  - apply Bool.andb_true_iff in Hb as [Hs Hel]. destruct Hent as (l & -> & Hlen & Hfa). exists l. split; [now apply Hget|]. split; [exact Hlen|].
    destruct (elem_name a) as [et|]; [now apply Hfa | discriminate].
  - apply Bool.andb_true_iff in Hb as [Hs Hel]. destruct Hent as (l & -> & Hlen & Hfa). exists l. split; [now apply Hget|]. split; [exact Hlen|].
    destruct (elem_name a) as [et|]; [now apply Hfa | discriminate].
  - apply Bool.andb_true_iff in Hb as [Hs Hel]. destruct Hent as (l & -> & Hlen & Hfa). exists l. split; [now apply Hget|]. split; [exact Hlen|].
    destruct (elem_name a) as [et|]; [now apply Hfa | discriminate].
  - apply Bool.andb_true_iff in Hb as [Hb Hkn]. apply Bool.andb_true_iff in Hb as [Hs Hsl].
    destruct (kind_by_name typed ln) as [kg|] eqn:Hkg; [|discriminate].
    destruct (by_name typed e _ kg Henv Hkg) as (vl & Hvl & Hel).
    destruct kg; try discriminate; cbn [entry_typed] in Hel.
    destruct (lookup tm t0) as [[|nm bi vs at_ cm|]|] eqn:Hl; try discriminate.
    apply Bool.andb_true_iff in Hkn as [Hbw Hcover]. apply Bool.negb_true_iff in Hbw.
    destruct (adm_enum t0 nm bi vs at_ cm vl Hl Hel) as (z' & -> & Hvalid). rewrite Hbw in Hvalid. unfold enum_valid in Hvalid.
    destruct Hent as (z & Hz & Harm). rewrite Hvl in Hz. injection Hz as <-.
    exists v, z'. split; [now apply Hget|]. split; [now apply Hget|]. split.
    + apply existsb_exists in Hvalid as (ev & Hev & Heq). rewrite forallb_forall in Hcover. specialize (Hcover ev Hev).
      apply existsb_exists in Hcover as (y' & Hy' & Hyeq). replace z' with y' by lia. exact Hy'.
    + destruct Harm as [(Heq & Hx & Hadm)|(Hne & ->)]; [left; repeat split; [lia | exact Hx | exact Hadm] | right; split; [lia | reflexivity]].
Qed.

End Final.
