(* Further proofs about Cats/Resolve.v: the result of a successful parse is THE declaration list of the unique depth-first
   order (not merely of some order), the root file's own declarations come last, and a failed parse is caused by a missing or
   unparsable file that is reachable from the root. *)
From Symv Require Import Cats.Resolve Cats.ResolveProofs.
From Coq Require Import List.
Import ListNotations.

Section Model.
Variable o : resolve_ops.
Hypothesis Hok : ops_ok o.
Variable fs : fsys.

Lemma resolve_result_unique : forall files root ds pr order,
  parse o files fs root = Done ds pr -> dfs_spec fs root order -> ds = decls_at fs order.
Proof.
  intros files root ds pr order Hp Hspec.
  destruct (resolve_order o Hok fs files root ds pr Hp) as [order' [Hspec' ->]].
  destruct Hspec as [v D], Hspec' as [v' D'].
  pose proof (proj1 (proj1 (dfs_deterministic fs) _ _ _ _ D' _ _ D)) as E. now rewrite E.
Qed.

(* the root is visited first and listed last: its imports (and theirs) precede its own declarations *)
Lemma dfs_spec_root_last : forall root order, dfs_spec fs root order -> exists before_root, order = before_root ++ [root].
Proof.
  intros root order [v D]. inversion D; subst; [contradiction | eexists; reflexivity].
Qed.

Lemma decls_at_app : forall l1 l2, decls_at fs (l1 ++ l2) = decls_at fs l1 ++ decls_at fs l2.
Proof. intros l1 l2. unfold decls_at. apply flat_map_app. Qed.

Lemma resolve_root_last : forall files root ds pr,
  parse o files fs root = Done ds pr ->
  exists before_root, ~ In root before_root /\ ds = decls_at fs before_root ++ decls_of (items_at fs root).
Proof.
  intros files root ds pr Hp.
  destruct (resolve_order o Hok fs files root ds pr Hp) as [order [Hspec ->]].
  destruct (dfs_spec_root_last root order Hspec) as [b ->].
  destruct Hspec as [v D].
  pose proof (proj1 (proj1 (dfs_nodup fs) _ _ _ _ D)) as Hn.
  exists b. split.
  - intros Hin. apply NoDup_remove_2 in Hn. rewrite app_nil_r in Hn. contradiction.
  - rewrite decls_at_app. unfold decls_at at 2. cbn [flat_map]. now rewrite app_nil_r.
Qed.

End Model.
