(* The layout interpreter instantiated with the operators regenerated from ArrayHelpers.py / BaseValue.py (Gen/ArrayOps.v)
   and with the shipped schemas regenerated from the .cats files (Gen/SchemaSc.v, Gen/SchemaNc.v). Definitions only. *)
From Symv Require Export Cats.Layout Gen.ArrayOps.
From Symv Require Import Sym.Keccak Sym.Ripemd.
Open Scope string_scope.
Open Scope list_scope.
Open Scope Z_scope.

(* Python comparison of sort keys under an operator: ints, bytes (lexicographic), tuples (first differing component decides) *)
Definition bytes_cmp (o : pyop) (a b : bytes) : bool :=
  match o with
  | Lt => bytes_lt a b | Le => negb (bytes_lt b a) | Gt => bytes_lt b a | Ge => negb (bytes_lt a b)
  | Eq => bytes_eq a b | Ne => negb (bytes_eq a b) | _ => false
  end.
Fixpoint key_eq (a b : keyv) {struct a} : bool :=
  match a, b with
  | KInt x, KInt y => x =? y
  | KBytes x, KBytes y => bytes_eq x y
  | KTuple x, KTuple y =>
    (fix go (x y : list keyv) {struct x} : bool :=
       match x, y with [] , [] => true | p :: x', q :: y' => key_eq p q && go x' y' | _, _ => false end) x y
  | _, _ => false
  end.
Fixpoint key_cmp (o : pyop) (a b : keyv) {struct a} : bool :=
  match a, b with
  | KInt x, KInt y => cmp o x y
  | KBytes x, KBytes y => bytes_cmp o x y
  | KTuple x, KTuple y =>
    (fix go (x y : list keyv) {struct x} : bool :=
       match x, y with
       | [], [] => cmp o 0 0
       | [], _ :: _ => cmp o 0 1
       | _ :: _, [] => cmp o 1 0
       | p :: x', q :: y' => if key_eq p q then go x' y' else key_cmp o p q
       end) x y
  | _, _ => false
  end.

Definition align_up_now (size alignment : Z) : Z :=
  ev2 au_op4 (ev2 au_op3 (ev2 au_op2 (ev2 au_op1 size alignment) au_c) alignment) alignment.

(* BaseValue.__init__: bit_size = size * 8; signed: upper = (1 << (bits - 1)) - 1, lower = -upper - 1; unsigned: upper = (1 << bits) - 1, lower = 0;
   bad iff value < lower or value > upper *)
Definition base_value_bad_now (size : Z) (signed : bool) (value : Z) : bool :=
  let bits := size * bv_bits in
  let upper := if signed then Z.shiftl bv_one_s (bits - bv_dec_s) - bv_dec_s2 else Z.shiftl bv_one_u bits - bv_dec_u in
  let lower := if signed then - upper - bv_dec_l else bv_low_u in
  cmp bv_lt_op value lower || cmp bv_gt_op value upper.

Definition transform_now (name : string) (b : bytes) : bytes :=
  if String.eqb name "ripemd_keccak_256" then ripemd160 (keccak_256 b) else b.

Definition ops_now : ops := {|
  align_up := align_up_now;
  order_bad_r := key_cmp ra_order_op;
  order_bad_w := key_cmp wa_order_op;
  size_bad := fun s => cmp ra_size_op s ra_size_bound;
  size_bad_v := fun s => cmp rv_size_op s rv_size_bound;
  get_bytes_bad := fun size len => cmp gb_op size len;
  rv_is_last := fun size len => cmp rv_last_op size len;
  rv_overrun := fun aligned len => cmp rv_over_op aligned len;
  base_value_bad := base_value_bad_now;
  transform := transform_now
|}.

Definition type_fuel : nat := 24.
